#!/usr/bin/env python3
# usage: tools/rule_value.py  — from seeded/*/byprop.txt and benign/*/byprop.txt (written by tools/seed_matrix.sh):
# per rule, the number of seeded changes whose own property is reported ONLY through that rule, and the number of
# behaviour-preserving patches on which ONLY that rule raises an alarm; plus totals.
import os,re,json,collections,sys
root='/verif'
def rules(path):
    out=collections.defaultdict(set)
    if not os.path.exists(path): return None
    for l in open(path):
        m=re.match(r'(C\d+) rule=(\S+) key=',l)
        if m: out[m.group(1)].add(m.group(2))
    return out
sole_seed=collections.Counter(); any_seed=collections.Counter(); nseed=0; missed=[]
for d in sorted(os.listdir(root+'/seeded')):
    p=root+'/seeded/'+d
    if not os.path.isdir(p): continue
    m=re.search(r'(C\d\d)',d)
    prop=None
    try: prop=json.load(open(p+'/meta.json')).get('property')
    except Exception: pass
    if not prop or not re.match(r'C\d\d$',str(prop)): prop=m.group(1) if m else None
    if d.startswith('RB-') or not prop: continue
    r=rules(p+'/byprop.txt')
    if r is None: continue
    fires=open(p+'/fires.txt').read() if os.path.exists(p+'/fires.txt') else ''
    nseed+=1
    own=r.get(prop,set())
    if not own:
        missed.append(d); continue
    for x in own: any_seed[x]+=1
    if len(own)==1: sole_seed[list(own)[0]]+=1
sole_ben=collections.Counter(); any_ben=collections.Counter(); nben=0; alarm=0
for d in sorted(os.listdir(root+'/benign')):
    p=root+'/benign/'+d
    if not os.path.isdir(p) or d.startswith('RB-'): continue
    r=rules(p+'/byprop.txt')
    if r is None: continue
    nben+=1
    allr=set().union(*r.values()) if r else set()
    if allr: alarm+=1
    for x in allr: any_ben[x]+=1
    if len(allr)==1: sole_ben[list(allr)[0]]+=1
print("seeds evaluated",nseed,"missed by own property",len(missed),missed)
print("benign evaluated",nben,"alarming",alarm)
print("%-24s %9s %9s %9s %9s"%("rule","seed-any","seed-sole","ben-any","ben-sole"))
for x in sorted(set(any_seed)|set(any_ben), key=lambda x:-any_ben[x]):
    print("%-24s %9d %9d %9d %9d"%(x,any_seed[x],sole_seed[x],any_ben[x],sole_ben[x]))
