#!/bin/bash
# usage: tools/seed_matrix.sh [dir ...]   (default: every seeded/* and benign/*)
# Applies each recorded patch to a scratch copy of /repo's working tree (outside /repo and /verif, removed at once),
# runs every check on the copy and records which properties fire: <dir>/fires.txt, <dir>/detected_by.txt; prints a matrix.
export GOFLAGS=-mod=mod GOPROXY=off GOSUMDB=off GOTOOLCHAIN=local GOGC=400 GOMAXPROCS=2; unset GOWORK
cd /verif
DIRS="$@"; [ -z "$DIRS" ] && DIRS="$(ls -d seeded/*/ benign/*/)"
one() {
  d=${1%/}; n=$(basename $d); T=$(mktemp -d /tmp/sm-XXXXXX)
  rsync -a --exclude .git /repo/ $T/repo/
  if ! (cd $T/repo && patch -p1 -s --dry-run -i /verif/$d/patch.diff >/dev/null 2>&1); then echo "$n: SKIP (does not apply)"; rm -rf $T; return; fi
  (cd $T/repo && patch -p1 -s -i /verif/$d/patch.diff)
  mkdir -p $T/v; cp /verif/KNOWN_FINDINGS.txt $T/v/
  ${BIN:-/verif/bin/otrcheck} -property all -repo $T/repo -verif $T/v > $T/out.txt 2>&1
  grep -E '^  \[' $T/out.txt | sed -e 's/ — .*//' | sed -e "s#$T/repo/##g" > /verif/$d/detected_by.txt
  awk '/^  \[violation\]/{match($0,/rule=[^ ]+ key=[^ ]+/); v[n++]=substr($0,RSTART,RLENGTH)} /^C[0-9]+ tier/{for(i=0;i<n;i++)print $1, v[i]; n=0}' $T/out.txt > /verif/$d/byprop.txt
  grep -E '^C[0-9]+ tier' $T/out.txt | grep -v 'violations=0' | awk '{print $1}' | tr '\n' ' ' > /verif/$d/fires.txt
  grep -q '^C[0-9]* tier' $T/out.txt || { echo "CRASH" > /verif/$d/fires.txt; tail -5 $T/out.txt > /verif/$d/crash.txt; }
  echo "$n: $(cat /verif/$d/fires.txt)"
  rm -rf $T
}
export -f one
printf '%s\n' $DIRS | xargs -P ${PAR:-8} -I{} bash -c 'one {}' | sort
