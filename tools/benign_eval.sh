#!/bin/bash
# usage: tools/benign_eval.sh <patch.diff>  — applies a behaviour-preserving patch to /repo, runs all checks, reverts; prints which checks raise an alarm
export GOFLAGS=-mod=mod GOPROXY=off GOSUMDB=off GOTOOLCHAIN=local; unset GOWORK
P=$(realpath $1)
[ -n "$(git -C /repo status --porcelain)" ] && { echo "/repo not clean"; exit 2; }
git -C /repo apply $P || { echo "cannot apply"; exit 2; }
mkdir -p /tmp/vs-seed; cp /verif/KNOWN_FINDINGS.txt /tmp/vs-seed/
/verif/bin/otrcheck -property all -verif /tmp/vs-seed > /tmp/vs-seed/out.txt 2>&1
git -C /repo checkout -- .
git -C /repo clean -fdq
grep -E '^C[0-9]+ tier' /tmp/vs-seed/out.txt | grep -v 'violations=0' | awk '{print $1}' | tr '\n' ' '
echo
grep -E '^  \[' /tmp/vs-seed/out.txt | sed -e 's/ — .*//' | cut -c1-260
