#!/bin/bash
# usage: tools/try_patch.sh <dir-with-patch.diff> [property]   — applies the patch to a scratch copy of /repo, runs the checks there, prints the findings in full
export GOFLAGS=-mod=mod GOPROXY=off GOSUMDB=off GOTOOLCHAIN=local; unset GOWORK
d=$(realpath ${1%/}); P=${2:-all}; T=$(mktemp -d /tmp/tp-XXXXXX)
rsync -a --exclude .git /repo/ $T/repo/
(cd $T/repo && patch -p1 -s -i $d/patch.diff) || { echo "does not apply"; rm -rf $T; exit 2; }
mkdir -p $T/v; cp /verif/KNOWN_FINDINGS.txt $T/v/
${BIN:-/verif/bin/otrcheck} -property $P -repo $T/repo -verif $T/v > $T/out.txt 2>&1
grep -q '^C[0-9]* tier' $T/out.txt || { echo "CRASH (analyser did not finish):"; tail -5 $T/out.txt; }
cat $T/out.txt | grep -E '^  \[|^C[0-9]+ tier' | grep -v 'violations=0' | sed -e "s#$T/repo/##g" | sort -u
rm -rf $T
