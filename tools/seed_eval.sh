#!/bin/bash
# usage: tools/seed_eval.sh <dir with patch.diff demo_test.go meta.json> <name> [validate]
# 1. (validate) in a scratch worktree: demo passes without the patch; with the patch the suite passes and the demo fails
# 2. applies the patch to a scratch copy of /repo, runs every check there (tools/seed_matrix.sh)
set -u
export GOFLAGS=-mod=mod GOPROXY=off GOSUMDB=off GOTOOLCHAIN=local; unset GOWORK
SRC=$(realpath $1); NAME=$2; MODE=${3:-validate}
PKGDIR=$(python3 -c "import json,sys; print(json.load(open('$SRC/meta.json')).get('package_dir','.'))" 2>/dev/null || echo .)
RES=/verif/seeded/$NAME
mkdir -p $RES
cp $SRC/patch.diff $SRC/demo_test.go $SRC/meta.json $RES/ 2>/dev/null
if [ "$MODE" = validate ]; then
  WT=/tmp/sv-$NAME
  git -C /repo worktree add -q $WT HEAD || exit 2
  cp $SRC/demo_test.go $WT/$PKGDIR/zz_demo_test.go
  (cd $WT/$PKGDIR && timeout 300 go test -vet=off -count=1 -run Test_seeded_demo . >/tmp/sv-$NAME.pristine 2>&1); P=$?
  (cd $WT && git apply $SRC/patch.diff) || { echo "PATCH DOES NOT APPLY"; git -C /repo worktree remove --force $WT; exit 2; }
  rm -f $WT/$PKGDIR/zz_demo_test.go
  (cd $WT && timeout 600 go test -vet=off -count=1 ./... >/tmp/sv-$NAME.suite 2>&1); S=$?
  cp $SRC/demo_test.go $WT/$PKGDIR/zz_demo_test.go
  (cd $WT/$PKGDIR && timeout 300 go test -vet=off -count=1 -run Test_seeded_demo . >/tmp/sv-$NAME.patched 2>&1); D=$?
  git -C /repo worktree remove --force $WT
  echo "validate: demo-on-pristine exit=$P (want 0) suite-with-patch exit=$S (want 0) demo-with-patch exit=$D (want !=0)"
  echo "{\"demo_on_pristine_exit\":$P,\"suite_with_patch_exit\":$S,\"demo_with_patch_exit\":$D}" > $RES/validation.json
  rm -f /tmp/sv-$NAME.pristine /tmp/sv-$NAME.suite /tmp/sv-$NAME.patched
fi
# which checks fire: on a scratch copy of /repo's working tree (never on /repo itself)
/verif/tools/seed_matrix.sh seeded/$NAME | sed 's/^[^:]*: /fired: /'
