#!/bin/bash
# usage: tools/matrix_summary.sh — from the fires.txt files written by tools/seed_matrix.sh: seeded/MATRIX.txt, benign/MATRIX.txt and the totals
cd /verif
: > seeded/MATRIX.txt; : > benign/MATRIX.txt
tot=0; own=0; any=0; skip=0
for d in seeded/*/; do n=$(basename $d); [ -f $d/fires.txt ] || continue
  f=$(cat $d/fires.txt); echo "$n: $f" >> seeded/MATRIX.txt
  case "$n" in RB-*) continue;; esac
  p=$(python3 -c "import json,re,sys
try:
  m=json.load(open('$d/meta.json')); q=str(m.get('property',''))
except Exception: q=''
if not re.match(r'C\d\d$',q):
  r=re.search(r'C\d\d','$n'); q=r.group(0) if r else ''
print(q)")
  tot=$((tot+1)); [ -n "$f" ] && any=$((any+1))
  case " $f " in *" $p "*) own=$((own+1));; *) echo "  not reported by its own property ($p): $n [$f]";; esac
done
echo "seeded changes evaluated: $tot; reported by the check of their own property: $own; by some check: $any" | tee -a seeded/MATRIX.txt
for g in B1 B2 B3 BN3 BN4 BN5 BN6 BN7 BN8 BR6 BR7 RB; do t=0; a=0
  for d in benign/$g-*/; do [ -f $d/fires.txt ] || continue; n=$(basename $d); f=$(cat $d/fires.txt); echo "$n: $f" >> benign/MATRIX.txt; t=$((t+1)); [ -n "$f" ] && a=$((a+1)); done
  echo "benign $g: $t evaluated, $((t-a)) silent, $a alarm" | tee -a benign/MATRIX.txt
done
