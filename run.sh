#!/bin/sh
# usage: ./run.sh <property> <quick|thorough>
# Builds the checker if needed (offline) and analyses /repo's current working tree.
set -u
cd "$(dirname "$0")"
export GOFLAGS=-mod=mod GOPROXY=off GOSUMDB=off GOTOOLCHAIN=local GONOSUMDB='*' GONOSUMCHECK=1
# the analyser is allocation-heavy and gains nothing from many threads: fewer threads and a lazier collector halve its CPU time
export GOGC=${GOGC:-400} GOMAXPROCS=${GOMAXPROCS:-4}
unset GOWORK
if [ ! -x bin/otrcheck ] || [ -n "$(find checker -newer bin/otrcheck -name '*.go' 2>/dev/null | head -1)" ]; then
  mkdir -p bin
  (cd checker && go build -o ../bin/otrcheck .) || { echo "cannot build checker" >&2; exit 2; }
fi
mkdir -p evidence/violations
LOG="evidence/violations/$1-run.log"
bin/otrcheck -property "$1" -tier "${2:-quick}" -repo "${OTR_REPO:-/repo}" -verif "$(pwd)" > "$LOG" 2>&1
rc=$?
cat "$LOG"
if [ $rc -ne 0 ] && [ $rc -ne 1 ]; then
  # the analysis itself did not finish (tree does not load, analyser crashed): nothing was established — fail closed
  cp "$LOG" "evidence/violations/$1-not-analysed.txt"
  echo "VIOLATION property=$1 replay=$(pwd)/evidence/violations/$1-not-analysed.txt"
  exit 1
fi
rm -f "$LOG"
exit $rc
