#!/usr/bin/env python3
"""Generates MANIFEST.json from the claim table below (kept next to the checker so they change together)."""
import json, sys

BASE = "for m in $(cat /w/out/gomods.txt); do MF=$(cd /repo/$m && . /w/out/goenv.sh && gomodflag); (cd /repo/$m && go test $MF -json -vet=off -count=1 -timeout 25m ./...); done"

TRUST = ("go/packages + go/types + go/ssa (x/tools v0.29.0) build a faithful typed SSA of /repo's working tree; VTA call graph over-approximates dynamic dispatch inside the two packages; "
         "facts are 'passed on every path' (must) facts without kills; user callbacks, math/big, constbn and Go crypto are outside the analysis")

CLOSED = "; renames of unexported declarations and per-call-site copies of new shared helpers are normalised before analysis (two-pass load); plus closed tables generated from the reviewed tree and compared on every run (who writes each state field, who calls each state-writing function, which failure reasons each accept path can return, which events each function emits)"
# id -> (technique, level text, design ref, note)
CLAIMS = {
 "C01": ("inter-procedural must-pass-through (every verification step dominates akeHasFinished on both chains), who-may-write, operand-provenance/polarity of each AKE check by canonical value terms, constant checks of the DH group",
         "Structural necessary conditions of peer authentication, for all paths of the current source: completion of the exchange is dominated by commitment check, DH range check, MAC and DSA verification of the exchange; each check compares the specified operands with the specified polarity; the signed MAC binds both DH values, key and key id; the key reported is the key verified. Not the behavioural statement (no execution; cryptographic strength and two-party agreement are not decided).",
         "DESIGN.md §4/C01"),
 "C02": ("inter-procedural must-pass-through (dominance of sinks by check success edges) over go/ssa + VTA call graph; polarity/operand provenance of the MAC comparison; three-valued path enumeration of the key-id lookup",
         "Structural necessary condition, decided for all paths of the current source: plaintext return, TLV handling, key rotation and counter store of an incoming data message are dominated by parse, key lookup (current/previous only), MAC verification over header+exact unsigned bytes and the counter test. Not the behavioural statement itself (no execution, cryptographic strength assumed).",
         "DESIGN.md §4/C02"),
 "C05": ("ordering enumeration of the replay comparison (finite orderings of the two counters) by three-valued path evaluation; must-pass-through of the counter test and MAC; typestate (reset-before-dispatch) on the CFG",
         "Structural necessary conditions of replay protection: strict-order counter test that stores the accepted counter in the record keyed by the message's key ids, gates before plaintext/TLVs/rotation, retired ids rejected, key context wiped and replaced on a new session, fragment context reset when a completed stream is dispatched. End-to-end at-most-once delivery is not decided.",
         "DESIGN.md §4/C05"),
 "C06": ("failure-atomicity effect analysis: access-path write summaries (bottom-up) × rejecting returns with error-origin and error-source provenance, snapshot/restore recognition; must-pass-through commit-point gates; handler error-return typestate",
         "Structural necessary condition: no function reachable from Receive writes session-visible state on a path that can still end in a rejecting return (other than by the failing step itself), peer key/SSID/highlight commits are behind the signature checks, AKE handlers return the entered state on error. Known genuine deviations (D11, D16 residual, D23) are listed as known findings. Observational equivalence of continuations is not decided.",
         "DESIGN.md §4/C06"),
 "C15": ("decision-table extraction of verifyInstanceTags by path enumeration over all orderings of its operands; who-may-write; must-pass-through for dispatch; wire-layout extraction (writer fields vs reader offsets) for header, fragment prefix and ExtractInstanceTags; path enumeration of receiveDecoded/receiveFragment: the peer tag is restored on every refusal and after every data message (a data message never binds)",
         "Structural necessary conditions of instance-tag isolation: own tag stored only after the >=0x100 loop exit and a successful random draw; the tag check's decision table equals the specified one on all orderings and adopts the sender tag only on accepting paths; foreign-instance traffic returns before any handler; writers and the three readers of the tags agree on offsets and order. Whole-history behaviour is not decided.",
         "DESIGN.md §4/C15"),
 "C16": ("decision-table extraction of version commitment over policy × offer × committed; must-pass-through of checkVersion; per-version emission constants; escape/alias analysis of buffers wiped on exit; value-term check of whitespace-tag removal",
         "Structural necessary conditions: v3 preferred over v2 under policy, sticky, nothing committed on failure; other-version messages rejected before parsing/dispatch; offered versions follow policy; disabled OTR returns a copy and does nothing else; no returned plaintext aliases the wiped local buffer; tag extraction keeps the surrounding text. The two-party negotiation outcome is not decided.",
         "DESIGN.md §4/C16"),
 "C09": ("who-may-write/who-may-call over the VTA call graph, value terms of the retired id, CFG ordering (retire before increment, retire implies move), must-pass-through of the drain on every generated message, wire-layout extraction of the disclosed-keys field",
         "Structural necessary conditions of MAC-key disclosure: only the retire functions feed the queue with the receiving keys of generation id-1, computed before the id moves and only when it moves; matching records are returned and deleted together; every generated data message drains and serialises the whole queue. The joint two-party timing claim is not decided.",
         "DESIGN.md §4/C09"),
 "C13": ("typestate (non-nil with kills, inter-procedural) for lazily established fields; the Go compiler's prove pass as candidate generator for bounds checks against a reviewed table with dominating-test requirements; allocation-size and integer-narrowing audits over SSA; CFG typestate for UnreadByte and loop-progress in the s-expression reader; error-use discipline for randomness helpers; failure-atomicity with randomness-origin errors: state tags and key ids written before a randomness failure form a closed table",
         "Structural necessary conditions of crash/hang/memory robustness: no nil dispatch on c.smp.state/c.ake, no new undischarged bounds check, allocation sizes bounded by input length, no new lossy narrowing, no reachable panic/unchecked assertion, reader loops consume input, randomness errors are used. Termination and memory use in general are not decided.",
         "DESIGN.md §4/C13"),
 "C18": ("who-may-write with constant values, event-condition provenance (state loaded before the store), three-valued path enumeration of Send's dispatch, CFG ordering and must-facts for the resend queue, natural-loop exit analysis of TLV processing",
         "Structural necessary conditions of the lifecycle: three state writers with their constants and events, Send refuses in finished, retransmission armed/flushed/marked as specified and only after an accepted Reveal-Signature/Signature, every TLV of an authenticated message is handled, End/disconnect drop the exchange context. Event sequences over whole histories and timing are not decided.",
         "DESIGN.md §4/C18"),
 "C19": ("growth-site audit: every append on memory reachable from a conversation is matched against a closed table and its bounding partner is verified structurally (drain post-dominance, find-or-add, eviction reachability, replace-not-extend); must-pass-through of authentication before history growth",
         "Structural necessary condition of bounded state: no unclassified growth site; each known site has its drain/eviction/replace partner; histories grow only from authenticated messages or own sends; every generated message drains the disclosure queue. Actual byte sizes are not decided.",
         "DESIGN.md §4/C19"),
 "C14": ("value-term checks of the sender arithmetic and piece assembly, integer-narrowing audit, truth-table extraction of the four fragment predicates and of the case order in receiveFragment by path enumeration over operand orderings, CFG typestate (reset before dispatch, reset on non-fragment messages)",
         "Structural necessary conditions of lossless, bounded, exactly-once fragmentation: piece arithmetic without narrowing and with the specified guards and layout; receiver decision table equals the specification on all orderings; stores only after prefix/tag and fragment parse; completed stream dispatched once with the context reset first; unfragmented messages reset the context. Byte-exact reassembly as an executed round trip is not decided.",
         "DESIGN.md §4/C14"),
 "C20": ("effect analysis over access paths: writes, wipes, in-place appends and mutating library calls on memory rooted at package-level variables, outside init; capacity-safety proof obligations for appends on package-level slices; reviewed table for library calls receiving package-level pointers",
         "Structural sufficient-in-shape condition: no function outside init writes package-level memory (sync.Once excepted), appends on package-level slices always copy, package-level pointers reach only read-only library calls. Hence no shared mutable state between conversations. Races inside the runtime/crypto packages or callbacks, and sharing one Conversation between goroutines, are outside the claim.",
         "DESIGN.md §4/C20"),
 "C07": ("transition-table extraction from the handler functions (three-valued path enumeration, optimistic on check results, nondeterministic on data-dependent branches) and exhaustive exploration of the two-party composition of the extracted table over bounded FIFO queues; call-graph/must-pass-through rules for the start triggers",
         "Necessary condition for liveness, decided on the skeleton extracted from the current source: from every start pattern every maximal run of the two-party composition ends with both sides through akeHasFinished; start triggers reach a DH-Commit or a query; collision comparator is the specified strict comparison. The known deadlock on simultaneous start (D01) is a listed known finding. Liveness with real data and timing windows are not decided.",
         "DESIGN.md §4/C07"),
 "C11": ("must-pass-through of proof verification and final comparison before the success event, per-outcome path enumeration of the two final handlers, value-term/provenance checks of the secret derivation (mirrored fingerprints, session id, unmodified user secret, fresh per run) and of the compared quantities",
         "Structural necessary conditions: success only behind verification and Rab==Pa/Pb with the specified operands; failure path reports failure and aborts; secret bound to both fingerprints (mirrored), ssid and the exact user secret and re-derived per run. The algebra (equal ⇒ success, different ⇒ failure) is not decided.",
         "DESIGN.md §4/C11"),
 "C12": ("state-table invariants by path enumeration of all SMP handlers (non-success paths return EXPECT1), type-directed use-after-verify gates, must-facts of each verifier (range checks and proofs with their indices), sibling agreement of otrVersion.isGroupElement implementations, nil-typestate for the SMP state, bounds facts of the TLV parsers",
         "Structural necessary conditions: deviant or unexpected messages lead back to EXPECT1 with an abort; peer values are range- and proof-checked before any use; no nil dispatch; element counts checked; restart sends abort first. otrV2.isGroupElement accepting everything (D12) is a listed known finding. Success of a later honest run and the number theory are not decided.",
         "DESIGN.md §4/C12"),
 "C10": ("wire-layout extraction (writer field sequences and reader Extract* sequences over SSA) compared with tables transcribed from the OTR v2/v3 specification; value-term checks of the key derivation, MAC inputs, cipher IVs, padding, SMP indices; constant checks (message/TLV types, flags, the group-5 prime)",
         "Static part of conformance: every emitted structure has the specified field list/order/width, the KDF uses the specified constant bytes, hashes, slices and the numeric high/low-end rule, MACs cover the specified bytes with the specified truncation, constants have the specified values, replies are addressed with the adopted peer tag. Numeric correctness of big-integer/crypto code and interoperability with an independent implementation are not decided (they need execution).",
         "DESIGN.md §4/C10"),
 "C17": ("sibling cross-check of serialiser and parser of each structure (extracted field sequences with destination fields), width/shape checks of the Append/Extract/Serialize primitives, index-order agreement of SMP TLVs, length-equals-content term checks at every TLV construction, grammar agreement of the key-file writer and reader, integer-narrowing audit of lengths",
         "Structural necessary conditions of round trips: writer and reader of every structure agree on kinds, order, widths and destination fields; lengths are the lengths of what is written; MPIs go through big.Int.Bytes (minimal form); key-file writer and reader share list heads and parameter names and atoms are read verbatim. Two length narrowings that wrap for oversized caller input (D20) are listed known findings. Value-level equality for all inputs is not decided.",
         "DESIGN.md §4/C17"),
 "C03": ("three-valued path enumeration of Send's dispatch and of the plaintext policy branch, must-pass-through of the encrypted-state guard for every call of the data message generator, def-use audit of the text parameter (only into the enciphered structure and the resend queue), CFG must-pass of the counter increment, who-may-call rules for the emitters",
         "Structural necessary conditions: no path of Send hands the text to the wire in finished state or under required encryption; the generator works only in encrypted state, enciphers the text under the session's sending AES key with a counter consumed per message, and keeps the text only in the resend queue; queued texts leave only through the generator. Unreadability of AES-CTR output and user-supplied transformers are not decided.",
         "DESIGN.md §4/C03"),
 "C04": ("value-term checks of the ratchet bookkeeping against the specification's formulas on the sending and the receiving side, CFG ordering of the rotations, who-may-write for the key generations, decision table of the key-id lookup, fragmentation arithmetic and receiver tables (shared with C14)",
         "Necessary conditions only: every step of the DH ratchet (ids, keys, counters, rotation guards and order, previous generation kept, NUL split) is the specified step. The property itself — exactly-once in-order delivery over all interleavings of two parties — is an exploration question and is not decided by static analysis.",
         "DESIGN.md §4/C04"),
 "C08": ("typestate wipe-before-overwrite/drop over access paths with wipe effects (dominance, moved-value and freshness idioms, caller obligations for the allocation helper), field-coverage check of every wipe() method against its struct definition, body checks of the wipe primitives, lifecycle ordering rules",
         "Structural necessary conditions of forward secrecy in memory: locations holding drawn secrets are wiped (or moved, or fresh) before being overwritten or dropped; wipe methods cover every secret-capable field; End/disconnect/completion/restart wipe in the specified order; sent text is kept only in the (replaced, nil-cleared) resend queue and local copies are wiped. GC/big.Int internals, derived per-message keys and SMP exponents are outside the claim.",
         "DESIGN.md §4/C08"),
}

NA = {}

def main():
    props = [json.loads(l) for l in open("properties.jsonl")]
    checks, na = [], []
    for p in props:
        pid = p["id"]
        if pid in CLAIMS:
            tech, text, ref = CLAIMS[pid]
            checks.append({
                "property_id": pid,
                "quick_cmd": "./run.sh %s quick" % pid,
                "thorough_cmd": "./run.sh %s thorough" % pid,
                "evidence_file": "/verif/evidence/%s.json" % pid,
                "replay_cmd_template": "cat {path}",
                "engine": "otrcheck",
                "level_claimed": {"category": "other", "text": text, "design_ref": ref},
                "level_note": TRUST,
                "technique": "static analysis: " + tech + CLOSED,
            })
        else:
            na.append({"property_id": pid, "reason": NA.get(pid, "no static check is registered for this property yet (see DESIGN.md §6); it is not claimed")})
    m = {
        "version": 1,
        "setup_cmd": "cd /verif/checker && GOFLAGS=-mod=mod GOPROXY=off GOSUMDB=off GOTOOLCHAIN=local go build -o /verif/bin/otrcheck .",
        "hooks": {"guard": "verif", "enable": "none needed: the checks read /repo's source, no instrumentation is compiled in", "baseline_off_cmd": BASE, "source_commits": [], "add_only": True},
        "engines": [{"name": "otrcheck", "path": "/verif/checker", "serves_properties": sorted(CLAIMS), "kind_free_text": "purpose-built static analyser over go/packages + go/ssa + VTA call graph (dominance/must-pass-through, typestate, effects, path enumeration, layout extraction)"}],
        "checks": checks,
        "not_applicable": na,
        "notes": "All claims are at level 'other': each decides a named structural clause (a genuine necessary condition) of the property for every path of the current source; see DESIGN.md. Known genuine defects are in KNOWN_FINDINGS.txt.",
    }
    json.dump(m, open("MANIFEST.json", "w"), indent=1)
    print("claimed", len(checks), "not applicable", len(na))

main()
