#!/usr/bin/env python3
"""Generates MANIFEST.json from the claim table below (kept next to the checker so they change together)."""
import json, sys

BASE = "for m in $(cat /w/out/gomods.txt); do MF=$(cd /repo/$m && . /w/out/goenv.sh && gomodflag); (cd /repo/$m && go test $MF -json -vet=off -count=1 -timeout 25m ./...); done"

TRUST = ("go/packages + go/types + go/ssa (x/tools v0.29.0) build a faithful typed SSA of /repo's working tree; VTA call graph over-approximates dynamic dispatch inside the two packages; "
         "facts are 'passed on every path' (must) facts without kills; user callbacks, math/big, constbn and Go crypto are outside the analysis")

# id -> (technique, level text, design ref, note)
CLAIMS = {
 "C02": ("inter-procedural must-pass-through (dominance of sinks by check success edges) over go/ssa + VTA call graph; polarity/operand provenance of the MAC comparison; three-valued path enumeration of the key-id lookup",
         "Structural necessary condition, decided for all paths of the current source: plaintext return, TLV handling, key rotation and counter store of an incoming data message are dominated by parse, key lookup (current/previous only), MAC verification over header+exact unsigned bytes and the counter test. Not the behavioural statement itself (no execution, cryptographic strength assumed).",
         "DESIGN.md §4/C02"),
}

NA = {}

def main():
    props = [json.loads(l) for l in open("properties.jsonl")]
    checks, na = [], []
    for p in props:
        pid = p["id"]
        if pid in CLAIMS:
            tech, text, ref = CLAIMS[pid]
            checks.append({
                "property_id": pid,
                "quick_cmd": "./run.sh %s quick" % pid,
                "thorough_cmd": "./run.sh %s thorough" % pid,
                "evidence_file": "/verif/evidence/%s.json" % pid,
                "replay_cmd_template": "cat {path}",
                "engine": "otrcheck",
                "level_claimed": {"category": "other", "text": text, "design_ref": ref},
                "level_note": TRUST,
                "technique": "static analysis: " + tech,
            })
        else:
            na.append({"property_id": pid, "reason": NA.get(pid, "no static check is registered for this property yet (see DESIGN.md §6); it is not claimed")})
    m = {
        "version": 1,
        "setup_cmd": "cd /verif/checker && GOFLAGS=-mod=mod GOPROXY=off GOSUMDB=off GOTOOLCHAIN=local go build -o /verif/bin/otrcheck .",
        "hooks": {"guard": "verif", "enable": "none needed: the checks read /repo's source, no instrumentation is compiled in", "baseline_off_cmd": BASE, "source_commits": [], "add_only": True},
        "engines": [{"name": "otrcheck", "path": "/verif/checker", "serves_properties": sorted(CLAIMS), "kind_free_text": "purpose-built static analyser over go/packages + go/ssa + VTA call graph (dominance/must-pass-through, typestate, effects, path enumeration, layout extraction)"}],
        "checks": checks,
        "not_applicable": na,
        "notes": "All claims are at level 'other': each decides a named structural clause (a genuine necessary condition) of the property for every path of the current source; see DESIGN.md. Known genuine defects are in KNOWN_FINDINGS.txt.",
    }
    json.dump(m, open("MANIFEST.json", "w"), indent=1)
    print("claimed", len(checks), "not applicable", len(na))

main()
