package main

import (
	"go/token"
	"go/types"
	"sort"
	"strings"

	"golang.org/x/tools/go/ssa"
)

// Facts is a set of "passed on every path so far" facts; top = the universe (unreached / infeasible).
type Facts struct {
	top bool
	m   map[string]struct{}
}

func topFacts() Facts   { return Facts{top: true} }
func emptyFacts() Facts { return Facts{m: map[string]struct{}{}} }

func (a Facts) Has(f string) bool {
	if a.top {
		return true
	}
	_, ok := a.m[f]
	return ok
}

func (a Facts) clone() Facts {
	if a.top {
		return a
	}
	m := make(map[string]struct{}, len(a.m))
	for k := range a.m {
		m[k] = struct{}{}
	}
	return Facts{m: m}
}

func (a Facts) union(b Facts) Facts {
	if a.top || b.top {
		return topFacts()
	}
	if len(b.m) == 0 {
		return a
	}
	r := a.clone()
	for k := range b.m {
		r.m[k] = struct{}{}
	}
	return r
}

func (a Facts) with(fs ...string) Facts {
	if a.top {
		return a
	}
	r := a.clone()
	for _, f := range fs {
		r.m[f] = struct{}{}
	}
	return r
}

func (a Facts) intersect(b Facts) Facts {
	if a.top {
		return b
	}
	if b.top {
		return a
	}
	r := emptyFacts()
	for k := range a.m {
		if _, ok := b.m[k]; ok {
			r.m[k] = struct{}{}
		}
	}
	return r
}

func (a Facts) equal(b Facts) bool {
	if a.top != b.top {
		return false
	}
	if a.top {
		return true
	}
	if len(a.m) != len(b.m) {
		return false
	}
	for k := range a.m {
		if _, ok := b.m[k]; !ok {
			return false
		}
	}
	return true
}

func (a Facts) List() []string {
	if a.top {
		return []string{"<top>"}
	}
	var out []string
	for k := range a.m {
		out = append(out, k)
	}
	sort.Strings(out)
	return out
}

// FE is the "checks passed" must-analysis: intraprocedural forward dataflow with branch refinement,
// bottom-up success summaries (MustOK / MustRet) and top-down entry facts over the VTA call graph.
type FE struct {
	c       *Ctx
	in      map[*ssa.BasicBlock]Facts
	mustOK  map[*ssa.Function]Facts
	mustRet map[*ssa.Function]Facts
	entry   map[*ssa.Function]Facts
	roots   map[*ssa.Function]bool
	nonNil  map[*ssa.Global]bool
	nnDepth int
}

func NewFE(c *Ctx) *FE {
	e := &FE{c: c, in: map[*ssa.BasicBlock]Facts{}, mustOK: map[*ssa.Function]Facts{}, mustRet: map[*ssa.Function]Facts{},
		entry: map[*ssa.Function]Facts{}, roots: map[*ssa.Function]bool{}, nonNil: map[*ssa.Global]bool{}}
	e.findNonNilGlobals()
	for _, f := range c.FuncSeq {
		if f.Blocks == nil {
			continue
		}
		e.mustOK[f] = topFacts()
		e.mustRet[f] = topFacts()
		for _, b := range f.Blocks {
			e.in[b] = topFacts()
		}
	}
	// summaries to a greatest fixpoint
	for iter := 0; iter < 50; iter++ {
		changed := false
		for _, f := range c.FuncSeq {
			if f.Blocks == nil {
				continue
			}
			e.flow(f)
			ok, ret := e.summarise(f)
			if !ok.equal(e.mustOK[f]) || !ret.equal(e.mustRet[f]) {
				changed = true
				e.mustOK[f], e.mustRet[f] = ok, ret
			}
		}
		if !changed {
			break
		}
	}
	e.computeEntry()
	return e
}

// package-level error variables initialised by a non-nil producer and never re-assigned
func (e *FE) findNonNilGlobals() {
	stores := map[*ssa.Global][]*ssa.Store{}
	for _, f := range e.c.FuncSeq {
		for _, b := range f.Blocks {
			for _, in := range b.Instrs {
				if st, ok := in.(*ssa.Store); ok {
					if g, ok := st.Addr.(*ssa.Global); ok {
						stores[g] = append(stores[g], st)
					}
				}
			}
		}
	}
	for g, sts := range stores {
		if !isErrorType(g.Type().(*types.Pointer).Elem()) {
			continue
		}
		all := true
		for _, st := range sts {
			if st.Parent().Name() != "init" || !e.provablyNonNil(st.Val) {
				all = false
			}
		}
		if all {
			e.nonNil[g] = true
		}
	}
}

var nonNilProducers = map[string]bool{
	"newOtrError": true, "newOtrConflictError": true, "newOtrErrorf": true,
	"errors.New": true, "fmt.Errorf": true,
}

func (e *FE) provablyNonNil(v ssa.Value) bool {
	switch x := v.(type) {
	case *ssa.MakeInterface:
		return true
	case *ssa.Call:
		if sc := x.Call.StaticCallee(); sc != nil {
			n := e.c.Name(sc)
			if nonNilProducers[n] {
				return true
			}
			if sc.Pkg != nil && nonNilProducers[sc.Pkg.Pkg.Name()+"."+sc.Name()] {
				return true
			}
		}
	case *ssa.Extract:
		if call, ok := x.Tuple.(*ssa.Call); ok {
			if a := e.passThroughArg(call, x.Index); a != nil {
				return e.provablyNonNil(a)
			}
			// a new helper every return of which hands back a non-nil value here
			if sc := call.Call.StaticCallee(); sc != nil && e.c.isNew(sc) && e.nnDepth < 3 {
				e.nnDepth++
				all, n := true, 0
				for _, b := range sc.Blocks {
					r, isR := b.Instrs[len(b.Instrs)-1].(*ssa.Return)
					if !isR || x.Index >= len(r.Results) || (b != sc.Blocks[0] && len(b.Preds) == 0) {
						continue
					}
					n++
					if !e.provablyNonNil(resolveLocal(r.Results[x.Index])) {
						all = false
					}
				}
				e.nnDepth--
				if all && n > 0 {
					return true
				}
			}
		}
	case *ssa.UnOp:
		if x.Op == token.MUL {
			if g, ok := x.X.(*ssa.Global); ok && e.nonNil[g] {
				return true
			}
			if sv := localStore(x); sv != nil {
				return e.provablyNonNil(sv)
			}
		}
	case *ssa.Phi:
		for _, ed := range x.Edges {
			if !e.provablyNonNil(ed) {
				return false
			}
		}
		return len(x.Edges) > 0
	}
	return false
}

func isNilConst(v ssa.Value) bool {
	k, ok := v.(*ssa.Const)
	return ok && k.Value == nil
}

// ---- intraprocedural flow ---------------------------------------------------------------------

func (e *FE) flow(f *ssa.Function) {
	// reverse post-order
	order := rpo(f)
	for iter := 0; iter < 100; iter++ {
		changed := false
		for _, b := range order {
			var in Facts
			if b == f.Blocks[0] {
				in = emptyFacts()
			} else if len(b.Preds) == 0 {
				in = emptyFacts() // recover block
			} else {
				in = topFacts()
				for _, p := range b.Preds {
					in = in.intersect(e.edgeOut(p, b))
				}
			}
			if !in.equal(e.in[b]) {
				e.in[b] = in
				changed = true
			}
		}
		if !changed {
			break
		}
	}
}

func rpo(f *ssa.Function) []*ssa.BasicBlock {
	seen := map[*ssa.BasicBlock]bool{}
	var post []*ssa.BasicBlock
	var walk func(b *ssa.BasicBlock)
	walk = func(b *ssa.BasicBlock) {
		if seen[b] {
			return
		}
		seen[b] = true
		for _, s := range b.Succs {
			walk(s)
		}
		post = append(post, b)
	}
	walk(f.Blocks[0])
	if f.Recover != nil {
		walk(f.Recover)
	}
	for i, j := 0, len(post)-1; i < j; i, j = i+1, j-1 {
		post[i], post[j] = post[j], post[i]
	}
	return post
}

// endFacts: facts after all instructions of b (before edge refinement).
func (e *FE) endFacts(b *ssa.BasicBlock) Facts {
	fs := e.in[b]
	if fs.top {
		return fs
	}
	for _, in := range b.Instrs {
		if call, ok := in.(*ssa.Call); ok {
			fs = fs.union(e.callGen(call))
		}
	}
	return fs
}

func (e *FE) edgeOut(p, b *ssa.BasicBlock) Facts {
	fs := e.endFacts(p)
	if fs.top {
		return fs
	}
	if iff, ok := p.Instrs[len(p.Instrs)-1].(*ssa.If); ok && len(p.Succs) == 2 {
		if p.Succs[0] == b && p.Succs[1] != b {
			fs = fs.union(e.condFacts(iff.Cond, true, 0))
		} else if p.Succs[1] == b && p.Succs[0] != b {
			fs = fs.union(e.condFacts(iff.Cond, false, 0))
		}
	}
	return fs
}

func (e *FE) callName(call ssa.CallInstruction) string {
	cc := call.Common()
	if sc := cc.StaticCallee(); sc != nil {
		return e.c.Name(e.c.unwrap(sc))
	}
	if cc.IsInvoke() {
		return typeName(cc.Value.Type()) + "." + cc.Method.Name()
	}
	if _, ok := cc.Value.(*ssa.Builtin); ok {
		return "builtin:" + cc.Value.Name()
	}
	return "dyn"
}

func (e *FE) argSig(call ssa.CallInstruction) string {
	var args []string
	for _, a := range call.Common().Args {
		if k, ok := a.(*ssa.Const); ok {
			args = append(args, constStr(k))
		} else {
			args = append(args, "_")
		}
	}
	return "(" + strings.Join(args, ",") + ")"
}

// callGen: facts that hold after the call returned (whatever its result).
func (e *FE) callGen(call ssa.CallInstruction) Facts {
	n := e.callName(call)
	if strings.HasPrefix(n, "builtin:") {
		return emptyFacts()
	}
	fs := emptyFacts().with("called:"+n, "called:"+n+e.argSig(call))
	if rp := e.recvPath(call); rp != "" {
		fs = fs.with("called:" + n + "[" + rp + "]")
	}
	callees := e.c.Callees(call)
	if len(callees) == 0 {
		return fs
	}
	sum := topFacts()
	for _, g := range callees {
		g = e.c.unwrap(g)
		var s Facts
		if mr, ok := e.mustRet[g]; ok {
			s = e.instantiate(mr, g, call).with("called:" + e.c.Name(g))
		} else {
			s = emptyFacts().with("called:" + e.c.Name(g))
		}
		sum = sum.intersect(s)
	}
	return fs.union(sum)
}

func instKey(call ssa.CallInstruction) string {
	if v := call.Value(); v != nil {
		return v.Name()
	}
	return "?"
}

func (e *FE) okFacts(call ssa.CallInstruction) Facts {
	n := e.callName(call)
	fs := emptyFacts().with("ok:"+n, "ok:"+n+e.argSig(call), "@ok:"+instKey(call))
	callees := e.c.Callees(call)
	if len(callees) == 0 {
		return fs
	}
	sum := topFacts()
	for _, g := range callees {
		g = e.c.unwrap(g)
		var s Facts
		if mo, ok := e.mustOK[g]; ok {
			s = e.instantiate(mo, g, call).with("ok:" + e.c.Name(g))
		} else {
			s = emptyFacts().with("ok:" + e.c.Name(g))
		}
		sum = sum.intersect(s)
	}
	return fs.union(sum)
}

func (e *FE) failFacts(call ssa.CallInstruction) Facts {
	n := e.callName(call)
	return emptyFacts().with("fail:"+n, "fail:"+n+e.argSig(call), "@fail:"+instKey(call))
}

// statusCall resolves a status value (error or bool) to the call that produced it, if it is the
// status result of that call.
func statusCall(v ssa.Value) *ssa.Call {
	switch x := v.(type) {
	case *ssa.Call:
		sig := x.Call.Signature()
		if sig.Results().Len() == 1 && statusIndex(sig) == 0 {
			return x
		}
	case *ssa.Extract:
		if call, ok := x.Tuple.(*ssa.Call); ok {
			if statusIndex(call.Call.Signature()) == x.Index {
				return call
			}
		}
	}
	return nil
}

// errFacts: facts implied by the error value v being nil (success=true) or non-nil (false).
func (e *FE) errFacts(v ssa.Value, success bool, depth int) Facts {
	if depth > 6 {
		return emptyFacts()
	}
	if isNilConst(v) {
		if success {
			return emptyFacts()
		}
		return topFacts() // infeasible
	}
	if e.provablyNonNil(v) {
		if success {
			return topFacts() // infeasible
		}
		return emptyFacts()
	}
	if call := statusCall(v); call != nil {
		if success {
			return e.okFacts(call)
		}
		return e.failFacts(call)
	}
	switch x := v.(type) {
	case *ssa.Phi:
		res := topFacts()
		for i, ed := range x.Edges {
			pred := x.Block().Preds[i]
			sub := e.errFacts(ed, success, depth+1)
			if sub.top {
				continue // infeasible incoming for this outcome
			}
			res = res.intersect(e.endFacts(pred).union(sub))
		}
		return res
	case *ssa.UnOp:
		if x.Op == token.MUL {
			if sv := localStore(x); sv != nil {
				return e.errFacts(sv, success, depth+1)
			}
		}
	case *ssa.ChangeInterface:
		return e.errFacts(x.X, success, depth+1)
	}
	return emptyFacts()
}

// condFacts: facts implied by the boolean v having the given truth value.
func (e *FE) condFacts(v ssa.Value, truth bool, depth int) Facts {
	if depth > 6 {
		return emptyFacts()
	}
	switch x := v.(type) {
	case *ssa.Const:
		if x.Value != nil && isBoolType(x.Type()) {
			if (x.Value.ExactString() == "true") == truth {
				return emptyFacts()
			}
			return topFacts() // infeasible
		}
	case *ssa.UnOp:
		if x.Op == token.NOT {
			return e.condFacts(x.X, !truth, depth+1)
		}
		if x.Op == token.MUL {
			if sv := localStore(x); sv != nil {
				return e.condFacts(sv, truth, depth+1)
			}
		}
	case *ssa.BinOp:
		if x.Op == token.EQL || x.Op == token.NEQ {
			var other ssa.Value
			if isNilConst(x.Y) {
				other = x.X
			} else if isNilConst(x.X) {
				other = x.Y
			}
			if other != nil && isErrorType(other.Type()) {
				isNil := (x.Op == token.EQL) == truth
				return e.errFacts(other, isNil, depth+1)
			}
		}
		if s, ok := e.c.cmpTerm(x, truth); ok {
			return emptyFacts().with("passed:" + s)
		}
	case *ssa.Call, *ssa.Extract:
		if cl, isCall := x.(*ssa.Call); isCall && depth < 6 {
			// a new straight-line predicate helper: the condition is its result expression, for these arguments
			if sc := cl.Call.StaticCallee(); sc != nil && len(sc.Params) == len(cl.Call.Args) {
				if rv := e.c.inlinable(sc); rv != nil && isBoolType(rv.Type()) {
					bind := map[*ssa.Parameter]ssa.Value{}
					for i, p := range sc.Params {
						bind[p] = cl.Call.Args[i]
					}
					save := e.c.tenv
					e.c.tenv = &termEnv{bind: bind, up: save}
					sub := e.condFacts(rv, truth, depth+1)
					e.c.tenv = save
					if !sub.top {
						return sub
					}
				}
			}
		}
		fs := emptyFacts()
		if call := statusCall(x); call != nil {
			if truth {
				fs = e.okFacts(call)
			} else {
				fs = e.failFacts(call)
			}
		}
		t := e.c.Term(x)
		if truth {
			return fs.with("passed:" + t)
		}
		return fs.with("passed:!" + t)
	case *ssa.Phi:
		res := topFacts()
		for i, ed := range x.Edges {
			pred := x.Block().Preds[i]
			sub := e.condFacts(ed, truth, depth+1)
			if sub.top {
				continue
			}
			res = res.intersect(e.endFacts(pred).union(sub))
		}
		return res
	}
	if isBoolType(v.Type()) {
		t := e.c.Term(v)
		if truth {
			return emptyFacts().with("passed:" + t)
		}
		return emptyFacts().with("passed:!" + t)
	}
	return emptyFacts()
}

// ---- summaries --------------------------------------------------------------------------------

func (e *FE) factsBefore(in ssa.Instruction) Facts {
	b := in.Block()
	fs := e.in[b]
	if fs.top {
		return fs
	}
	for _, x := range b.Instrs {
		if x == in {
			break
		}
		if call, ok := x.(*ssa.Call); ok {
			fs = fs.union(e.callGen(call))
		}
	}
	return fs
}

func (e *FE) summarise(f *ssa.Function) (mustOK, mustRet Facts) {
	mustOK, mustRet = topFacts(), topFacts()
	si := statusIndex(f.Signature)
	for _, b := range f.Blocks {
		if b != f.Blocks[0] && len(b.Preds) == 0 {
			continue // recover block
		}
		ret, ok := b.Instrs[len(b.Instrs)-1].(*ssa.Return)
		if !ok {
			continue
		}
		at := e.factsBefore(ret)
		if at.top {
			continue // unreachable
		}
		mustRet = mustRet.intersect(at)
		if si < 0 {
			mustOK = mustOK.intersect(at)
			continue
		}
		sv := resolveLocal(ret.Results[si])
		if sc := statusCall(sv); sc != nil && at.Has("@fail:"+instKey(sc)) {
			continue // this return is only reached after the call was seen to fail
		}
		var sub Facts
		if isErrorType(sv.Type()) {
			sub = e.errFacts(sv, true, 0)
		} else {
			sub = e.condFacts(sv, true, 0)
		}
		if sub.top {
			continue // this return cannot report success
		}
		mustOK = mustOK.intersect(at.union(sub))
	}
	return stripLocal(mustOK), stripLocal(mustRet)
}

func stripLocal(f Facts) Facts {
	if f.top {
		return f
	}
	r := emptyFacts()
	for k := range f.m {
		if !strings.HasPrefix(k, "@") {
			r.m[k] = struct{}{}
		}
	}
	return r
}

// ---- entry facts (top-down) -------------------------------------------------------------------

func (e *FE) computeEntry() {
	c := e.c
	hasCaller := map[*ssa.Function]bool{}
	type site struct {
		caller *ssa.Function
		instr  ssa.CallInstruction
	}
	sites := map[*ssa.Function][]site{}
	for _, f := range c.FuncSeq {
		for _, b := range f.Blocks {
			for _, in := range b.Instrs {
				call, ok := in.(ssa.CallInstruction)
				if !ok {
					continue
				}
				for _, g := range c.Callees(call) {
					g = c.unwrap(g)
					if c.IsLib(g) {
						hasCaller[g] = true
						sites[g] = append(sites[g], site{f, call})
					}
				}
			}
		}
	}
	for _, f := range c.FuncSeq {
		if f.Blocks == nil {
			continue
		}
		exported := f.Object() != nil && f.Object().Exported() && f.Parent() == nil
		if exported || !hasCaller[f] {
			e.roots[f] = true
			e.entry[f] = emptyFacts()
		} else {
			e.entry[f] = topFacts()
		}
	}
	for iter := 0; iter < 100; iter++ {
		changed := false
		for _, g := range c.FuncSeq {
			if g.Blocks == nil || e.roots[g] {
				continue
			}
			acc := topFacts()
			for _, s := range sites[g] {
				ef := e.entry[s.caller]
				local := e.factsBefore(s.instr)
				acc = acc.intersect(ef.union(stripLocal(local)))
			}
			if !acc.equal(e.entry[g]) {
				e.entry[g] = acc
				changed = true
			}
		}
		if !changed {
			break
		}
	}
}

// ---- queries ----------------------------------------------------------------------------------

// At: facts that hold on every path from any API root to just before the instruction.
func (e *FE) At(in ssa.Instruction) Facts {
	f := in.Parent()
	return e.entry[f].union(e.factsBefore(in))
}

// LocalAt: facts established inside the enclosing function only.
// Inside a new single-use helper (terms.go) the facts established in its caller before the call hold too.
func (e *FE) LocalAt(in ssa.Instruction) Facts {
	fs := e.factsBefore(in)
	f := in.Parent()
	for i := 0; i < 4; i++ {
		cs := e.c.soleCall(f)
		if cs == nil {
			break
		}
		fs = fs.union(stripLocal(e.factsBefore(cs)))
		f = cs.Parent()
	}
	return fs
}

// instantiate: the summary facts of a new helper with several call sites speak about its parameters ($name); at a
// call site they are restated for the arguments.
func (e *FE) instantiate(fs Facts, g *ssa.Function, call ssa.CallInstruction) Facts {
	if fs.top || !e.c.isNew(g) || e.c.soleCall(g) != nil || call.Common().IsInvoke() || len(g.Params) != len(call.Common().Args) {
		return fs
	}
	out := emptyFacts()
	for k := range fs.m {
		if strings.Contains(k, "$") {
			nk := k
			for i, p := range g.Params {
				tok := "$" + e.c.paramName(p)
				if !strings.Contains(nk, tok) {
					continue
				}
				nk = replaceToken(nk, tok, e.c.Term(call.Common().Args[i]))
			}
			out.m[nk] = struct{}{}
			continue
		}
		out.m[k] = struct{}{}
	}
	return out
}

func replaceToken(s, tok, with string) string {
	var b strings.Builder
	for {
		i := strings.Index(s, tok)
		if i < 0 {
			b.WriteString(s)
			return b.String()
		}
		end := i + len(tok)
		if end < len(s) && (s[end] == '_' || s[end] >= '0' && s[end] <= '9' || s[end] >= 'a' && s[end] <= 'z' || s[end] >= 'A' && s[end] <= 'Z') {
			b.WriteString(s[:end])
			s = s[end:]
			continue
		}
		b.WriteString(s[:i])
		b.WriteString(with)
		s = s[end:]
	}
}

// After: facts right after a call instruction returned.
func (e *FE) After(in ssa.Instruction) Facts {
	fs := e.At(in)
	if call, ok := in.(*ssa.Call); ok {
		fs = fs.union(e.callGen(call))
	}
	return fs
}

func (e *FE) Entry(f *ssa.Function) Facts   { return e.entry[f] }
func (e *FE) MustOK(f *ssa.Function) Facts  { return e.mustOK[f] }
func (e *FE) MustRet(f *ssa.Function) Facts { return e.mustRet[f] }

// WhyMissing explains where a fact is lost on the way to an instruction: a chain of call sites.
func (e *FE) WhyMissing(in ssa.Instruction, fact string) []string {
	var out []string
	seen := map[*ssa.Function]bool{}
	cur := in
	for depth := 0; depth < 12; depth++ {
		f := cur.Parent()
		out = append(out, e.c.Name(f)+" @ "+e.c.InstrPos(cur)+": not established inside this function before this point")
		if e.roots[f] {
			out = append(out, e.c.Name(f)+" is an entry point (exported or without callers): nothing is established on entry")
			return out
		}
		if seen[f] {
			return out
		}
		seen[f] = true
		// find a call site lacking the fact
		var next ssa.Instruction
		for _, g := range e.c.FuncSeq {
			for _, b := range g.Blocks {
				for _, x := range b.Instrs {
					call, ok := x.(ssa.CallInstruction)
					if !ok {
						continue
					}
					for _, cal := range e.c.Callees(call) {
						if e.c.unwrap(cal) == f && !e.At(x).Has(fact) && next == nil {
							next = x
						}
					}
				}
			}
		}
		if next == nil {
			return out
		}
		cur = next
	}
	return out
}

// recvPath: for a statically resolved method call, the access path of the receiver.
func (e *FE) recvPath(call ssa.CallInstruction) string {
	cc := call.Common()
	sc := cc.StaticCallee()
	if sc == nil || sc.Signature.Recv() == nil || len(cc.Args) == 0 {
		return ""
	}
	return e.c.AddrPath(cc.Args[0])
}

// passThroughArg: when every return of the (static, library) callee returns its parameter k unchanged as
// result idx, the call's result idx is the corresponding argument.
func (e *FE) passThroughArg(call *ssa.Call, idx int) ssa.Value {
	sc := call.Call.StaticCallee()
	if sc == nil || !e.c.IsLib(sc) {
		return nil
	}
	k := -1
	for _, b := range sc.Blocks {
		ret, ok := b.Instrs[len(b.Instrs)-1].(*ssa.Return)
		if !ok || len(ret.Results) <= idx {
			continue
		}
		p, ok := ret.Results[idx].(*ssa.Parameter)
		if !ok {
			return nil
		}
		pi := paramIndex(p)
		if k >= 0 && k != pi {
			return nil
		}
		k = pi
	}
	if k < 0 || k >= len(call.Call.Args) {
		return nil
	}
	return call.Call.Args[k]
}
