package main

import (
	"fmt"
	"go/types"
	"sort"
	"strings"

	"golang.org/x/tools/go/ssa"
)

// MustFn resolves an anchored function; an unresolved anchor is an undecided obligation (fails the run).
func (a *An) MustFn(name string) *ssa.Function {
	f, ok := a.C.Fn(name)
	if !ok || f.Blocks == nil {
		a.R.Undec("anchor", "fn|"+name, "anchored function must exist", "", "function "+name+" not found in the current source (renamed or removed): the rules anchored on it cannot be evaluated")
		return nil
	}
	return f
}

func (a *An) MustField(typ, field string) *types.Var {
	v, err := a.C.Field(typ, field)
	if err != nil {
		a.R.Undec("anchor", "field|"+typ+"."+field, "anchored field must exist", "", err.Error())
		return nil
	}
	return v
}

func (a *An) MustConst(name string) string {
	v, err := a.C.ConstVal(name)
	if err != nil {
		a.R.Undec("anchor", "const|"+name, "anchored constant must exist", "", err.Error())
		return "?"
	}
	return v
}

// typeContains reports whether a value of type t (by value, not through pointers) contains field target.
func typeContains(t types.Type, target *types.Var, depth int) bool {
	if depth > 6 {
		return false
	}
	switch u := t.Underlying().(type) {
	case *types.Struct:
		for i := 0; i < u.NumFields(); i++ {
			if u.Field(i) == target {
				return true
			}
			if typeContains(u.Field(i).Type(), target, depth+1) {
				return true
			}
		}
	case *types.Array:
		return typeContains(u.Elem(), target, depth+1)
	}
	return false
}

// StoresTo finds every store that (over)writes the given field: direct stores to &x.f and stores of a
// whole struct value containing the field.
func (a *An) StoresTo(target *types.Var) []*ssa.Store {
	var out []*ssa.Store
	if target == nil {
		return nil
	}
	for _, f := range a.C.FuncSeq {
		for _, b := range f.Blocks {
			for _, in := range b.Instrs {
				st, ok := in.(*ssa.Store)
				if !ok {
					continue
				}
				if fa, ok := st.Addr.(*ssa.FieldAddr); ok && fieldOf(fa) == target {
					out = append(out, st)
					continue
				}
				if typeContains(st.Val.Type(), target, 0) {
					out = append(out, st)
				}
			}
		}
	}
	return out
}

// DirectStoresTo: only stores whose address is exactly &x.f.
func (a *An) DirectStoresTo(target *types.Var) []*ssa.Store {
	var out []*ssa.Store
	for _, st := range a.StoresTo(target) {
		if fa, ok := st.Addr.(*ssa.FieldAddr); ok && fieldOf(fa) == target {
			out = append(out, st)
		}
	}
	return out
}

// CallSites returns every call/defer/go instruction in the two packages that may call fn (static or via VTA).
func (a *An) CallSites(fn *ssa.Function) []ssa.CallInstruction {
	var out []ssa.CallInstruction
	if fn == nil {
		return nil
	}
	for _, f := range a.C.FuncSeq {
		for _, b := range f.Blocks {
			for _, in := range b.Instrs {
				call, ok := in.(ssa.CallInstruction)
				if !ok {
					continue
				}
				for _, g := range a.C.Callees(call) {
					if a.C.unwrap(g) == fn {
						out = append(out, call)
						break
					}
				}
			}
		}
	}
	return out
}

// CallsIn returns the call sites inside function f whose (possible) callee is named callee.
func (a *An) CallsIn(f *ssa.Function, callee string) []ssa.CallInstruction {
	var out []ssa.CallInstruction
	if f == nil {
		return nil
	}
	scan := func(f *ssa.Function) {
		for _, b := range f.Blocks {
			for _, in := range b.Instrs {
				call, ok := in.(ssa.CallInstruction)
				if !ok {
					continue
				}
				if a.F.callName(call) == callee {
					out = append(out, call)
					continue
				}
				for _, g := range a.C.Callees(call) {
					if a.C.Name(a.C.unwrap(g)) == callee {
						out = append(out, call)
						break
					}
				}
			}
		}
	}
	scan(f)
	// new single-use helpers of f are part of f
	for _, g := range a.C.FuncSeq {
		if g != f && a.C.isNew(g) && a.C.owner(g) == f {
			scan(g)
		}
	}
	return out
}

// Callers: names of the functions containing call sites of fn (sorted, unique).
func (a *An) Callers(fn *ssa.Function) []string {
	set := map[string]bool{}
	for _, cs := range a.CallSites(fn) {
		set[a.C.Name(cs.Parent())] = true
	}
	var out []string
	for k := range set {
		out = append(out, k)
	}
	sort.Strings(out)
	return out
}

// Gate: every path from an API root to sink must have passed each required fact.
func (a *An) Gate(rule, sinkKey string, sink ssa.Instruction, what string, required ...string) {
	if sink == nil {
		return
	}
	fs := a.F.At(sink)
	for _, req := range required {
		key := sinkKey + "|" + req
		if fs.Has(req) {
			a.R.Ok(rule, key, what+" requires "+req, a.C.InstrPos(sink))
		} else {
			a.R.Viol(rule, key, what+" requires "+req, a.C.InstrPos(sink),
				"there is a path from an entry point to this point on which "+req+" has not been passed",
				a.F.WhyMissing(sink, req)...)
		}
	}
}

// GateLocal: like Gate but only facts established inside the sink's own function count.
func (a *An) GateLocal(rule, sinkKey string, sink ssa.Instruction, what string, required ...string) {
	if sink == nil {
		return
	}
	fs := a.F.LocalAt(sink)
	for _, req := range required {
		key := sinkKey + "|" + req
		a.R.Check(fs.Has(req), rule, key, what+" requires (locally) "+req, a.C.InstrPos(sink),
			"inside "+a.C.Name(sink.Parent())+" there is a path to this point on which "+req+" has not been passed")
	}
}

// WhoMayWrite: the set of functions with a store to the field must be within allowed.
func (a *An) WhoMayWrite(rule string, target *types.Var, allowed ...string) {
	if target == nil {
		return
	}
	allow := map[string]bool{}
	for _, s := range allowed {
		allow[s] = true
	}
	found := map[string]bool{}
	for _, st := range a.StoresTo(target) {
		fn := a.C.Name(a.C.owner(st.Parent()))
		found[fn] = true
		key := "write|" + target.Name() + "|" + fn
		a.R.Check(allow[fn], rule, key, "store to "+target.Name()+" only in "+strings.Join(allowed, ", "), a.C.InstrPos(st),
			fn+" writes "+target.Name()+" but is not one of the designated writers")
	}
}

// WhoMayCall: every call site of fn lies in one of the allowed functions.
func (a *An) WhoMayCall(rule string, fn *ssa.Function, allowed ...string) {
	if fn == nil {
		return
	}
	allow := map[string]bool{}
	for _, s := range allowed {
		allow[s] = true
	}
	for _, cs := range a.CallSites(fn) {
		if a.C.isNew(fn) && a.C.owner(fn) != fn {
			continue // a new single-use helper: judged as part of its caller
		}
		caller := a.C.Name(a.C.owner(cs.Parent()))
		key := "call|" + a.C.Name(fn) + "|from|" + caller
		a.R.Check(allow[caller], rule, key, "call of "+a.C.Name(fn)+" only from "+strings.Join(allowed, ", "), a.C.InstrPos(cs),
			caller+" calls "+a.C.Name(fn)+" but is not one of the designated callers")
	}
}

// ordinalKey renders "fn|what#k" keys for the k-th matching construct in a function.
func ordinalKey(prefix string, counts map[string]int) string {
	counts[prefix]++
	if counts[prefix] == 1 {
		return prefix
	}
	return fmt.Sprintf("%s#%d", prefix, counts[prefix])
}

// reachableFrom: CFG blocks reachable from the given start blocks.
func reachableFrom(starts ...*ssa.BasicBlock) map[*ssa.BasicBlock]bool {
	seen := map[*ssa.BasicBlock]bool{}
	var st []*ssa.BasicBlock
	st = append(st, starts...)
	for len(st) > 0 {
		b := st[len(st)-1]
		st = st[:len(st)-1]
		if seen[b] {
			continue
		}
		seen[b] = true
		st = append(st, b.Succs...)
	}
	return seen
}

func instrIndex(in ssa.Instruction) int {
	for i, x := range in.Block().Instrs {
		if x == in {
			return i
		}
	}
	return -1
}

// canReach: can control flow from instruction x to instruction y (x strictly before y on some path)?
func canReach(x, y ssa.Instruction) bool {
	if x.Parent() != y.Parent() {
		if theCtx == nil {
			return false
		}
		if cs := theCtx.soleCall(y.Parent()); cs != nil {
			return ssa.Instruction(cs) == x || canReach(x, cs)
		}
		if cs := theCtx.soleCall(x.Parent()); cs != nil {
			return canReach(cs, y)
		}
		return false
	}
	if x.Block() == y.Block() && instrIndex(x) < instrIndex(y) {
		return true
	}
	r := reachableFrom(x.Block().Succs...)
	return r[y.Block()]
}

// WhoMayWriteDirect: like WhoMayWrite but only stores addressed at the field itself (not whole-struct replacements).
func (a *An) WhoMayWriteDirect(rule string, target *types.Var, allowed ...string) {
	if target == nil {
		return
	}
	allow := map[string]bool{}
	for _, s := range allowed {
		allow[s] = true
	}
	for _, st := range a.DirectStoresTo(target) {
		fn := a.C.Name(a.C.owner(st.Parent()))
		key := "write|" + target.Name() + "|" + fn
		a.R.Check(allow[fn], rule, key, "store to "+target.Name()+" only in "+strings.Join(allowed, ", "), a.C.InstrPos(st),
			fn+" writes "+target.Name()+" but is not one of the designated writers")
	}
}

// walkWithHelpers visits the instructions of f in block order; the body of a new single-use helper is visited at the
// place of its call (at most three levels).
func (a *An) walkWithHelpers(f *ssa.Function, depth int, visit func(ssa.Instruction)) {
	for _, b := range f.Blocks {
		for _, in := range b.Instrs {
			visit(in)
			if call, ok := in.(ssa.CallInstruction); ok && depth < 3 {
				if g := call.Common().StaticCallee(); g != nil && g != f && g.Blocks != nil && a.C.isNew(g) && a.C.soleCall(g) == call {
					a.walkWithHelpers(g, depth+1, visit)
				}
			}
		}
	}
}
