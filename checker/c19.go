package main

import (
	"fmt"
	"sort"
	"strings"

	"golang.org/x/tools/go/ssa"
)

var stateTypes = map[string]bool{"Conversation": true, "keyManagementContext": true, "macKeyHistory": true, "counterHistory": true, "resendContext": true,
	"fragmentationContext": true, "smp": true, "ake": true, "injections": true, "heartbeatContext": true, "dhKeyPair": true, "keyPairCounter": true, "macKeyUsage": true}

func init() {
	register("C19", "Structural clause decided: every append (or map insert) whose base is memory reachable from a conversation is one of a closed table of growth sites, and each site has the structural partner that makes it history-independent: drained on every API return (injections), drained by every emitted data message (disclosure queue), find-or-add per key pair with eviction when the generation is retired (MAC-key and counter histories), in-place filter (eviction itself), replaced-not-extended by encrypted sends (resend queue; extended only by sends waiting for encryption, which the statement allows), the fragment buffer (allowed by the statement). A new growth site, or a removed partner, is reported. Not decided: actual byte sizes; growth hidden inside library objects.",
		func(a *An) {
			a.c19Growth()
			a.c19More()
			a.addKeysSearchesAll("B.growth")
			a.c18Resend()
		})
}

type growthSite struct {
	fn   *ssa.Function
	call *ssa.Call
	base string // absolute path of the appended-to slice
}

func (a *An) growthSites() []growthSite {
	var out []growthSite
	for _, f := range a.C.FuncSeq {
		for _, b := range f.Blocks {
			for _, in := range b.Instrs {
				switch x := in.(type) {
				case *ssa.Call:
					bi, ok := x.Call.Value.(*ssa.Builtin)
					if !ok || bi.Name() != "append" {
						continue
					}
					p := a.C.pathOf(x.Call.Args[0])
					rel := a.C.rel(p)
					if !strings.HasPrefix(rel, "$") || p.Suffix == "" {
						continue
					}
					abs := a.C.abs(f, rel)
					root := strings.SplitN(abs, ".", 2)[0]
					if !stateTypes[root] {
						continue
					}
					out = append(out, growthSite{f, x, abs})
				case *ssa.Store:
					// a slice field of the conversation state that receives the result of an append whose base is
					// something else (prepending to the old contents, concatenating a collected list with it)
					call, ok := x.Val.(*ssa.Call)
					if !ok {
						continue
					}
					bi, isB := call.Call.Value.(*ssa.Builtin)
					if !isB || bi.Name() != "append" {
						continue
					}
					p := a.C.pathOf(x.Addr)
					rel := a.C.rel(p)
					if !strings.HasPrefix(rel, "$") || p.Suffix == "" {
						continue
					}
					abs := a.C.abs(f, rel)
					if !stateTypes[strings.SplitN(abs, ".", 2)[0]] {
						continue
					}
					bp := a.C.pathOf(call.Call.Args[0])
					if brel := a.C.rel(bp); strings.HasPrefix(brel, "$") && bp.Suffix != "" && stateTypes[strings.SplitN(a.C.abs(f, brel), ".", 2)[0]] {
						continue // base is conversation state: counted at the append itself
					}
					out = append(out, growthSite{f, call, abs + "<-append"})
				case *ssa.MapUpdate:
					p := a.C.pathOf(x.Map)
					rel := a.C.rel(p)
					if strings.HasPrefix(rel, "$") {
						abs := a.C.abs(f, rel)
						if stateTypes[strings.SplitN(abs, ".", 2)[0]] {
							out = append(out, growthSite{f, nil, abs + "[map]"})
						}
					}
				}
			}
		}
	}
	sort.Slice(out, func(i, j int) bool {
		if a.C.Name(out[i].fn) != a.C.Name(out[j].fn) {
			return a.C.Name(out[i].fn) < a.C.Name(out[j].fn)
		}
		return out[i].base < out[j].base
	})
	return out
}

func (a *An) reaches(from *ssa.Function, target string) bool {
	for _, f := range a.reachableFnsFrom(from) {
		if a.C.Name(f) == target {
			return true
		}
	}
	return false
}

func (a *An) reachableFnsFrom(root *ssa.Function) []*ssa.Function {
	seen := map[*ssa.Function]bool{}
	st := []*ssa.Function{root}
	for len(st) > 0 {
		f := st[len(st)-1]
		st = st[:len(st)-1]
		if seen[f] {
			continue
		}
		seen[f] = true
		for _, b := range f.Blocks {
			for _, in := range b.Instrs {
				if call, ok := in.(ssa.CallInstruction); ok {
					for _, g := range a.C.Callees(call) {
						g = a.C.unwrap(g)
						if a.C.IsLib(g) && !seen[g] {
							st = append(st, g)
						}
					}
				}
			}
		}
	}
	var out []*ssa.Function
	for f := range seen {
		out = append(out, f)
	}
	return out
}

func (a *An) c19Growth() {
	R := a.R
	rule := "B.growth"
	sites := a.growthSites()
	R.Extra["growth_sites"] = len(sites)
	type partner func(s growthSite) (bool, string)
	// find-or-add: a return that hands back / skips on an existing record under equality of both ids
	findOrAdd := func(s growthSite) (bool, string) {
		for _, r := range a.returnsOf(s.fn) {
			if canReach(s.call, r) && !canReach(r, s.call) {
				// returns after the append are fine; we look for an early return before it
			}
			fs := a.F.LocalAt(r)
			our, their := false, false
			for _, f := range fs.List() {
				if strings.HasPrefix(f, "passed:(") && strings.Contains(f, " == ") {
					if strings.Contains(f, "$ourKeyID") && strings.Contains(f, ".ourKeyID") {
						our = true
					}
					if strings.Contains(f, "$theirKeyID") && strings.Contains(f, ".theirKeyID") {
						their = true
					}
				}
			}
			if our && their && !instrDominates(s.call, r) {
				return true, ""
			}
		}
		return false, "no early return for an existing record matching both key ids: the append is not find-or-add"
	}
	evictedOnRotation := func(evictor string) partner {
		return func(s growthSite) (bool, string) {
			for _, rot := range []string{"(*keyManagementContext).rotateOurKeys", "(*keyManagementContext).rotateTheirKey"} {
				f := a.MustFn(rot)
				if f == nil || !a.reaches(f, evictor) {
					return false, evictor + " is not reachable from " + rot + ": records of retired generations are never removed"
				}
			}
			return true, ""
		}
	}
	both := func(ps ...partner) partner {
		return func(s growthSite) (bool, string) {
			for _, p := range ps {
				if ok, d := p(s); !ok {
					return false, d
				}
			}
			return true, ""
		}
	}
	table := map[string]struct {
		why string
		chk partner
	}{
		"(*Conversation).injectMessage|Conversation.injections.messages": {"drained by withInjects on every API return", func(s growthSite) (bool, string) {
			wi := a.MustFn("(*Conversation).withInjects")
			if wi == nil {
				return false, "withInjects missing"
			}
			reset := false
			for _, st := range a.StoresTo(a.MustField("injections", "messages")) {
				if a.C.within(st, wi) && strings.Contains(a.C.Term(st.Val), "[0:0]") {
					reset = true
				}
			}
			if !reset {
				return false, "withInjects does not reset the list"
			}
			// every return of Send / receiveUnit that can follow an injection goes through withInjects
			for _, root := range []string{"(*Conversation).Send", "(*Conversation).receiveUnit"} {
				f := a.MustFn(root)
				if f == nil {
					continue
				}
				for _, r := range a.returnsDeep(f, 0) {
					through := false
					for _, rv := range r.Results {
						v := rv
						if u, ok := v.(*ssa.UnOp); ok {
							if sv := localStore(u); sv != nil {
								v = sv
							}
						}
						if ex, ok := v.(*ssa.Extract); ok {
							if c, ok := ex.Tuple.(*ssa.Call); ok && strings.HasPrefix(a.F.callName(c), "(*Conversation).withInjections") {
								through = true
							}
						}
					}
					if through {
						continue
					}
					for _, b := range r.Parent().Blocks {
						for _, in := range b.Instrs {
							for _, ef := range a.E.InstrEffects(in) {
								if strings.HasPrefix(a.C.abs(r.Parent(), ef.Path), "Conversation.injections.messages") && canReach(in, r) {
									return false, root + " has a return at " + a.C.InstrPos(r) + " that can follow an injection without draining it"
								}
							}
						}
					}
				}
			}
			return true, ""
		}},
		"(fragmentationContext).appendFragment|fragmentationContext.frag": {"the message being reassembled (allowed by the statement); reset on completion is rule S.fragment-reset", func(s growthSite) (bool, string) { return true, "" }},
		"(*keyManagementContext).revealMACKeysForOurPreviousKeyID|keyManagementContext.oldMACKeys": {"fed only from the bounded MAC-key history, drained by every emitted data message", func(s growthSite) (bool, string) {
			g := a.MustFn("(*Conversation).genDataMsgWithFlag")
			if g == nil || len(a.CallsIn(g, "(*keyManagementContext).revealMACKeys")) != 1 {
				return false, "genDataMsgWithFlag does not drain the disclosure queue"
			}
			return true, ""
		}},
		"(*keyManagementContext).revealMACKeysForTheirPreviousKeyID|keyManagementContext.oldMACKeys": {"fed only from the bounded MAC-key history, drained by every emitted data message", func(s growthSite) (bool, string) {
			g := a.MustFn("(*Conversation).genDataMsgWithFlag")
			if g == nil || len(a.CallsIn(g, "(*keyManagementContext).revealMACKeys")) != 1 {
				return false, "genDataMsgWithFlag does not drain the disclosure queue"
			}
			return true, ""
		}},
		"(*macKeyHistory).addKeys|macKeyHistory.items":             {"one record per key pair (find-or-add), removed when either generation is retired", both(findOrAdd, evictedOnRotation("(*macKeyHistory).deleteKeysAt"))},
		"(*counterHistory).findCounterFor|counterHistory.counters": {"one record per key pair (find-or-add), removed when either generation is retired", both(findOrAdd, evictedOnRotation("(*counterHistory).forgetCounters"))},
		"(*counterHistory).forgetCounters|counterHistory.counters": {"in-place filter: appends into counters[:0] while ranging over counters, never longer than before", func(s growthSite) (bool, string) {
			t := a.C.Term(s.call.Call.Args[0])
			if !strings.Contains(t, "counterHistory.counters[:0]") {
				return false, "base of the append is " + t + ", not counters[:0]"
			}
			return true, ""
		}},
		"(*resendContext).later|resendContext.messages.m": {"extended only by sends waiting for encryption (allowed by the statement); encrypted sends go through last(), which clears first", func(s growthSite) (bool, string) {
			later := s.fn
			for _, cs := range a.CallSites(later) {
				caller := a.C.Name(cs.Parent())
				switch caller {
				case "(*Conversation).lastMessage":
					lm := cs.Parent()
					for _, cs2 := range a.CallSites(lm) {
						if c2 := a.C.Name(cs2.Parent()); c2 != "(*Conversation).sendMessageOnPlaintext" {
							return false, c2 + " extends the queue through lastMessage: only texts queued while waiting for encryption may accumulate"
						}
					}
				case "(*resendContext).last":
					ok := false
					for _, cl := range a.CallsIn(cs.Parent(), "(*resendContext).clear") {
						if instrDominates(cl, cs) {
							ok = true
						}
					}
					if !ok {
						return false, "last() does not clear the queue before remembering the message"
					}
				default:
					return false, caller + " appends to the resend queue"
				}
			}
			return true, ""
		}},
	}
	seen := map[string]bool{}
	for _, s := range sites {
		key := a.C.Name(s.fn) + "|" + s.base
		pos := a.C.Pos(s.fn.Pos())
		if s.call != nil {
			pos = a.C.InstrPos(s.call)
		}
		e, ok := table[key]
		if !ok {
			R.Viol(rule, "site|"+key, "every append on memory retained by a conversation has a structural bound", pos,
				"unclassified growth site: "+a.C.Name(s.fn)+" appends to "+s.base+"; no bounding partner (drain, find-or-add with eviction, replace) is known for it")
			continue
		}
		if seen[key] {
			continue
		}
		seen[key] = true
		good, d := e.chk(s)
		R.Check(good, rule, "site|"+key, "growth site bounded: "+e.why, pos, d)
	}
	for k := range table {
		if !seen[k] {
			R.Note("growth-site table entry %s no longer matches any site", k)
		}
	}
	R.Check(len(seen) >= 7, rule, "sites", "the known growth sites are still recognised", "", fmt.Sprintf("%d of %d table entries matched", len(seen), len(table)))
	// an emitted data message discloses the queue only (no other unbounded collection)
	if fn := a.MustFn("(dataMsg).serialize"); fn != nil {
		for _, b := range fn.Blocks {
			for _, in := range b.Instrs {
				if rng, ok := in.(*ssa.Range); ok {
					_ = rng
				}
			}
		}
	}
	R.Floor(rule, 8)
}

// c19More: rules added after seeded changes C19-v1..v3.
func (a *An) c19More() {
	R := a.R
	auth, _ := a.dataAuthFacts()
	// growth of the per-key-pair histories is driven only by authenticated messages or by our own sends
	if f := a.MustFn("(*counterHistory).findCounterFor"); f != nil {
		cnt := map[string]int{}
		for _, cs := range a.CallSites(f) {
			caller := a.C.Name(a.C.owner(cs.Parent()))
			key := ordinalKey(caller+"|call findCounterFor", cnt)
			if caller == "(*Conversation).genDataMsgWithFlag" {
				args := cs.Common().Args
				ok := a.C.Term(args[1]) == "(Conversation.keys.ourKeyID - 1)" && a.C.Term(args[2]) == "Conversation.keys.theirKeyID"
				R.Check(ok, "G.growth-auth", key, "on the sending side the counter record is looked up for our own current key ids", a.C.InstrPos(cs), "ids "+a.C.Term(args[1])+", "+a.C.Term(args[2]))
				continue
			}
			a.Gate("G.growth-auth", key, cs, "find-or-add of a counter record with ids taken from a received message", auth...)
		}
	}
	if f := a.MustFn("(*macKeyHistory).addKeys"); f != nil {
		cnt := map[string]int{}
		for _, cs := range a.CallSites(f) {
			a.GateLocal("G.growth-auth", ordinalKey(a.C.Name(cs.Parent())+"|call addKeys", cnt), cs, "adding a MAC key record", "ok:(*keyManagementContext).pickOurKeys", "ok:(*keyManagementContext).pickTheirKey")
		}
	}
	R.Floor("G.growth-auth", 6)
	a.drainUnconditional("S.drain")
}

// drainUnconditional: every data message that is generated takes the whole disclosure queue.
func (a *An) drainUnconditional(rule string) {
	fn := a.MustFn("(*Conversation).genDataMsgWithFlag")
	if fn == nil {
		return
	}
	si := statusIndex(fn.Signature)
	n := 0
	for _, r := range a.returnsOf(fn) {
		ev := resolveLocal(r.Results[si])
		if !isNilConst(ev) {
			continue
		}
		n++
		a.R.Check(a.F.LocalAt(r).Has("called:(*keyManagementContext).revealMACKeys"), rule, "genDataMsgWithFlag|drain-on-every-message", "every generated data message (whatever its flag or content) drains the disclosure queue", a.C.InstrPos(r),
			"a data message can be generated without draining the queue of MAC keys to reveal: under traffic that only produces such messages the queue (and the next message that does drain it) grows without bound, and retired keys are not disclosed")
	}
	a.R.Check(n >= 1, rule, "genDataMsgWithFlag|success-return", "success return found", a.C.Pos(fn.Pos()), "none")
}
