package main

import (
	"fmt"
	"go/types"
	"sort"
	"strings"

	"golang.org/x/tools/go/ssa"
)

// Closed tables over the whole state and the whole failure surface (tables_gen.go, regenerated only deliberately with
// -gentables): for every field of the conversation's state types, which functions store to it; for every function
// with an error result that is reachable from the API, which failure reasons it can report (errleaves.go). A function
// that newly writes a piece of session state, or newly refuses something, changes behaviour in exactly the way the
// properties talk about (state moved at a different moment or in a different place; a message, key or TLV the honest
// peer produces is no longer accepted). New single-use helpers count as the function they belong to.

var closedStateTypes = []string{"Conversation", "ake", "akeKeys", "keyManagementContext", "dhKeyPair", "macKeyHistory", "macKeyUsage", "counterHistory", "keyPairCounter",
	"resendContext", "fragmentationContext", "smp", "smp1State", "smp2State", "smp3State", "smp4State", "heartbeatContext", "injections"}

// fieldProps: which properties a field of the state concerns (prefix match on "Type.field").
var fieldProps = []struct {
	prefix string
	props  string
}{
	{"Conversation.msgState", "C02 C03 C18"},
	{"Conversation.ake", "C01 C06 C07 C08"},
	{"ake.", "C01 C06 C07 C08 C13"},
	{"akeKeys.", "C01 C08"},
	{"Conversation.keys", "C04 C05 C08 C09"},
	{"keyManagementContext.", "C04 C05 C08 C09 C10"},
	{"dhKeyPair.", "C04 C08"},
	{"macKeyHistory.", "C09 C19"},
	{"macKeyUsage.", "C09"},
	{"counterHistory.", "C05 C19"},
	{"keyPairCounter.", "C04 C05 C10"},
	{"Conversation.theirKey", "C01 C11"},
	{"Conversation.ourCurrentKey", "C01 C11"},
	{"Conversation.ourKeys", "C01 C11"},
	{"Conversation.ssid", "C01 C11"},
	{"Conversation.sentRevealSig", "C01"},
	{"Conversation.theirInstanceTag", "C15"},
	{"Conversation.ourInstanceTag", "C15"},
	{"Conversation.version", "C16"},
	{"Conversation.Policies", "C03 C16 C18"},
	{"Conversation.whitespaceState", "C16"},
	{"Conversation.fragment", "C14"},
	{"fragmentationContext.", "C14"},
	{"Conversation.smp", "C11 C12 C13"},
	{"smp.", "C11 C12 C13"},
	{"smp1State.", "C11 C12 C13"},
	{"smp2State.", "C11 C12 C13"},
	{"smp3State.", "C11 C12 C13"},
	{"smp4State.", "C11 C12 C13"},
	{"Conversation.resend", "C03 C06 C18 C19"},
	{"resendContext.", "C03 C06 C18 C19"},
	{"Conversation.injections", "C06 C19"},
	{"injections.", "C06 C19"},
	{"Conversation.heartbeat", "C04 C06 C19"},
	{"heartbeatContext.", "C04 C06 C19"},
	{"Conversation.lastMessageStateChange", "C07"},
}

func propsOfField(key string) string {
	for _, fp := range fieldProps {
		if strings.HasPrefix(key, fp.prefix) {
			return fp.props
		}
	}
	return ""
}

// fieldCanRetain: whether a value of the field's type can hold bytes or a reference to other storage (anything but
// booleans, numbers, strings of the program's own constants excluded: strings can hold user text, so they count).
func (a *An) fieldCanRetain(key string) bool {
	i := strings.Index(key, ".")
	if i < 0 {
		return true
	}
	obj := a.C.Otr.Pkg.Scope().Lookup(key[:i])
	if obj == nil {
		return true
	}
	st, ok := obj.Type().Underlying().(*types.Struct)
	if !ok {
		return true
	}
	for j := 0; j < st.NumFields(); j++ {
		if st.Field(j).Name() != key[i+1:] {
			continue
		}
		var retains func(t types.Type, d int) bool
		retains = func(t types.Type, d int) bool {
			if d > 4 {
				return true
			}
			switch u := t.Underlying().(type) {
			case *types.Basic:
				return u.Info()&types.IsString != 0
			case *types.Struct:
				if t.String() == "time.Time" {
					return false
				}
				for k := 0; k < u.NumFields(); k++ {
					if retains(u.Field(k).Type(), d+1) {
						return true
					}
				}
				return false
			case *types.Array:
				return true
			}
			return true
		}
		return retains(st.Field(j).Type(), 0)
	}
	return true
}

// currentWriters: "Type.field" → sorted owner names of the functions with a direct store to the field.
func (a *An) currentWriters() map[string][]string {
	out := map[string][]string{}
	for _, tn := range closedStateTypes {
		obj := a.C.Otr.Pkg.Scope().Lookup(tn)
		if obj == nil {
			continue
		}
		st, ok := obj.Type().Underlying().(*types.Struct)
		if !ok {
			continue
		}
		for i := 0; i < st.NumFields(); i++ {
			fld := st.Field(i)
			key := tn + "." + fld.Name()
			set := map[string]bool{}
			for _, s := range a.DirectStoresTo(fld) {
				for _, o := range a.ownersOf(s.Parent(), 0) {
					set[o] = true
				}
			}
			// in-place mutation of slices/maps held in the field (append results are stores; element stores and map
			// updates are not): count them as writes of the field
			for _, f := range a.C.FuncSeq {
				for _, b := range f.Blocks {
					for _, in := range b.Instrs {
						var addr ssa.Value
						switch x := in.(type) {
						case *ssa.MapUpdate:
							addr = x.Map
						case *ssa.Store:
							if ia, isIA := x.Addr.(*ssa.IndexAddr); isIA {
								addr = ia.X
							}
						}
						if addr == nil {
							continue
						}
						if ld, isLd := addr.(*ssa.UnOp); isLd {
							if fa, isFA := ld.X.(*ssa.FieldAddr); isFA && fieldOf(fa) == fld {
								for _, o := range a.ownersOf(f, 0) {
									set[o] = true
								}
							}
						}
					}
				}
			}
			out[key] = sortedKeys(set)
		}
	}
	return out
}

// apiRoots: the exported entry points whose reachable functions make up the failure surface.
var apiRoots = []string{"(*Conversation).Receive", "(*Conversation).Send", "(*Conversation).End", "(*Conversation).StartAuthenticate", "(*Conversation).ProvideAuthenticationSecret",
	"(*Conversation).AbortAuthentication", "(*Conversation).UseExtraSymmetricKey", "ExtractInstanceTags", "ParsePublicKey", "ImportKeys"}

// currentErrLeaves: function → sorted failure reasons, for functions with an error result reachable from the API.
func (a *An) currentErrLeaves() map[string][]string {
	out := map[string][]string{}
	el := a.newErrLeaves()
	for _, f := range a.reachableFns(apiRoots...) {
		if f.Blocks == nil || f.Parent() != nil {
			continue
		}
		si := statusIndex(f.Signature)
		if si < 0 || !isErrorType(f.Signature.Results().At(si).Type()) {
			continue
		}
		if a.C.isNew(f) && a.C.owner(f) != f {
			continue // judged as part of its caller
		}
		out[a.C.alias(f)] = sortedKeys(el.of(f))
	}
	return out
}

// fnProps: which properties a new failure reason in a function concerns, by where the function is reached from.
func (a *An) fnProps() map[*ssa.Function]string {
	out := map[*ssa.Function]string{}
	add := func(props string, roots ...string) {
		for _, f := range a.reachableFns(roots...) {
			if !strings.Contains(out[f], props) {
				out[f] = strings.TrimSpace(out[f] + " " + props)
			}
		}
	}
	add("C01 C07", "(*Conversation).processAKE", "(*Conversation).receiveQueryMessage", "(*Conversation).startAKEFromWhitespaceTag")
	add("C02 C04", "(*Conversation).processDataMessageWithRawErrors", "(*Conversation).genDataMsgWithFlag")
	add("C11 C12", "(*Conversation).receiveSMP", "(*Conversation).processSMPTLV", "(*Conversation).StartAuthenticate", "(*Conversation).ProvideAuthenticationSecret", "(tlv).smpMessage")
	add("C14", "(*Conversation).receiveFragment", "(*Conversation).parseFragmentPrefix", "(*Conversation).fragment")
	add("C15", "(otrV3).verifyInstanceTags", "(*Conversation).generateInstanceTag", "ExtractInstanceTags")
	add("C16", "(*Conversation).checkVersion", "(*Conversation).commitToVersionFrom", "(*Conversation).processWhitespaceTag", "(*Conversation).receiveQueryMessage")
	add("C17", "ParsePublicKey", "ImportKeys", "(*dataMsg).deserialize", "(*plainDataMsg).deserialize", "(*dhCommit).deserialize", "(*dhKey).deserialize", "(*revealSig).deserialize", "(*sig).deserialize",
		"(*tlv).deserialize", "(tlv).smpMessage", "(dataMsg).serialize", "(plainDataMsg).serialize", "(dhCommit).serialize", "(dhKey).serialize", "(revealSig).serialize", "(sig).serialize", "(tlv).serialize",
		"(*DSAPrivateKey).Parse", "(*DSAPrivateKey).Serialize", "(*DSAPublicKey).Parse", "(*DSAPublicKey).serialize", "ParsePrivateKey", "ExtractMPIs", "AppendMPIs", "ExtractData", "AppendData",
		"(smp1Message).tlv", "(smp2Message).tlv", "(smp3Message).tlv", "(smp4Message).tlv", "(smpMessageAbort).tlv")
	add("C03 C18", "(*Conversation).Send", "(*Conversation).End")
	return out
}

func (a *An) closedTables(prop string) {
	R := a.R
	// state writers
	cur := a.currentWriters()
	nf := 0
	for _, key := range sortedKeys(func() map[string]bool {
		m := map[string]bool{}
		for k := range cur {
			m[k] = true
		}
		return m
	}()) {
		props := propsOfField(key)
		if _, known := frozenWriters[key]; props == "" && !known && a.fieldCanRetain(key) {
			// a new field of a state type that can hold bytes (text, key material) or a reference to them: the
			// conversation now keeps something it did not keep before
			props = "C08"
		}
		if !strings.Contains(props, prop) {
			continue
		}
		nf++
		frozen, known := frozenWriters[key]
		if !known && len(cur[key]) == 0 {
			R.Ok("W.state", "field|"+key, "a field that is not in the frozen table and that nothing writes", "")
			continue
		}
		if !known {
			R.Viol("W.state", "field|"+key, "every field of the session state has a reviewed set of writers", "", "the field "+key+" is not in the frozen table: a new piece of session state (regenerate tables_gen.go after review)")
			continue
		}
		allow := map[string]bool{}
		for _, w := range frozen {
			allow[w] = true
		}
		var extra []string
		for _, w := range cur[key] {
			if !allow[w] {
				extra = append(extra, w)
			}
		}
		R.Check(len(extra) == 0, "W.state", "writers|"+key, "the functions that store to "+key+" are the reviewed ones", "",
			"new writer(s): "+strings.Join(extra, ", ")+" — session state is now changed in a place (or at a moment) where it was not changed before")
	}
	R.Extra["state_fields_with_closed_writer_sets"] = nf
	// failure reasons
	leaves := a.currentErrLeaves()
	fp := a.fnProps()
	nfn := 0
	for _, f := range a.reachableFns(apiRoots...) {
		name := a.C.alias(f)
		cl, ok := leaves[name]
		if !ok || !strings.Contains(fp[f], prop) {
			continue
		}
		nfn++
		frozen, known := frozenErrLeaves[name]
		if !known {
			if a.C.isNew(f) {
				// a new function with an error result that several callers share: its reasons show up in its callers' sets
				continue
			}
			R.Viol("P.failure-reasons", "fn|"+name, "every function with an error result has a reviewed set of failure reasons", a.C.Pos(f.Pos()), "not in the frozen table (regenerate tables_gen.go after review)")
			continue
		}
		allow := map[string]bool{}
		for _, w := range frozen {
			allow[w] = true
		}
		var extra []string
		for _, w := range cl {
			if !allow[w] {
				extra = append(extra, w)
			}
		}
		// report a new reason where it arises, not again in every caller
		if len(extra) > 0 {
			inCallee := map[string]bool{}
			for _, b := range f.Blocks {
				for _, in := range b.Instrs {
					call, isCall := in.(ssa.CallInstruction)
					if !isCall {
						continue
					}
					for _, g := range a.C.Callees(call) {
						g = a.C.unwrap(g)
						gl, has := leaves[a.C.alias(g)]
						if !has || g == f {
							continue
						}
						gAllow := map[string]bool{}
						for _, w := range frozenErrLeaves[a.C.alias(g)] {
							gAllow[w] = true
						}
						for _, w := range gl {
							if !gAllow[w] {
								inCallee[w] = true
							}
						}
					}
				}
			}
			var own []string
			for _, w := range extra {
				if !inCallee[w] {
					own = append(own, w)
				}
			}
			if len(own) == 0 {
				R.Ok("P.failure-reasons", "fn|"+name, "new reasons are reported in the callee they arise in", a.C.Pos(f.Pos()))
				continue
			}
			extra = own
		}
		R.Check(len(extra) == 0, "P.failure-reasons", "fn|"+name, "the reasons for which "+name+" can fail are the reviewed ones", a.C.Pos(f.Pos()),
			"new failure reason(s): "+strings.Join(extra, "; ")+" — something the honest peer (or the user) produces can now be refused where it was accepted")
	}
	if nfn > 0 {
		R.Floor("P.failure-reasons", 2)
	}
}

func genTables(a *An) {
	fmt.Println("// Code generated by otrcheck -gentables from the reviewed tree. DO NOT EDIT by hand; regenerate deliberately.")
	fmt.Println()
	fmt.Println("package main")
	fmt.Println()
	fmt.Println("var frozenWriters = map[string][]string{")
	w := a.currentWriters()
	var keys []string
	for k := range w {
		keys = append(keys, k)
	}
	sort.Strings(keys)
	for _, k := range keys {
		var q []string
		for _, x := range w[k] {
			q = append(q, fmt.Sprintf("%q", x))
		}
		fmt.Printf("\t%q: {%s},\n", k, strings.Join(q, ", "))
	}
	fmt.Println("}")
	fmt.Println()
	fmt.Println("var frozenErrLeaves = map[string][]string{")
	l := a.currentErrLeaves()
	keys = keys[:0]
	for k := range l {
		keys = append(keys, k)
	}
	sort.Strings(keys)
	for _, k := range keys {
		var q []string
		for _, x := range l[k] {
			q = append(q, fmt.Sprintf("%q", x))
		}
		fmt.Printf("\t%q: {%s},\n", k, strings.Join(q, ", "))
	}
	fmt.Println("}")
	fmt.Println()
	fmt.Println("var frozenStateCallers = map[string][]string{")
	sc, _ := a.currentStateCallers()
	keys = keys[:0]
	for k := range sc {
		keys = append(keys, k)
	}
	sort.Strings(keys)
	for _, k := range keys {
		var q []string
		for _, x := range sc[k] {
			q = append(q, fmt.Sprintf("%q", x))
		}
		fmt.Printf("\t%q: {%s},\n", k, strings.Join(q, ", "))
	}
	fmt.Println("}")
	fmt.Println()
	fmt.Println("var frozenEvents = map[string][]string{")
	ev := a.currentEvents()
	keys = keys[:0]
	for k := range ev {
		keys = append(keys, k)
	}
	sort.Strings(keys)
	for _, k := range keys {
		var q []string
		for _, x := range ev[k] {
			q = append(q, fmt.Sprintf("%q", x))
		}
		fmt.Printf("\t%q: {%s},\n", k, strings.Join(q, ", "))
	}
	fmt.Println("}")
	genGates(a)
	genEraseSites(a)
	genConstArgs(a)
	genReturns(a)
	genBigOps(a)
	genCalls(a)
	genRandAtomic(a)
}

// ---- events ---------------------------------------------------------------------------------------------------
// Which events each function raises (kind and constant) is a closed table too: an event that is no longer raised, a
// different one, or one raised in a new place changes what the user is told about the session.

var eventFns = map[string]string{
	"(*Conversation).messageEvent":            "message",
	"(*Conversation).messageEventWithError":   "message",
	"(*Conversation).messageEventWithMessage": "message",
	"(*Conversation).smpEvent":                "smp",
	"(*Conversation).smpEventWithQuestion":    "smp",
	"(*Conversation).securityEvent":           "security",
	"(*Conversation).signalSecurityEventIf":   "security",
}

var eventProps = map[string]string{"message": "C02 C03 C16 C18", "smp": "C11 C12", "security": "C18"}

// currentEvents: owner function → sorted list of "kind:value" (with multiplicity as #n when raised in several places).
func (a *An) currentEvents() map[string][]string {
	cnt := map[string]map[string]int{}
	for _, f := range a.C.FuncSeq {
		for _, b := range f.Blocks {
			for _, in := range b.Instrs {
				call, ok := in.(ssa.CallInstruction)
				if !ok {
					continue
				}
				kind, isEv := eventFns[a.F.callName(call)]
				if !isEv {
					continue
				}
				if _, self := eventFns[a.C.alias(f)]; self {
					continue // the delivery functions calling each other
				}
				args := call.Common().Args
				idx := 1
				if a.F.callName(call) == "(*Conversation).signalSecurityEventIf" {
					idx = 2
				}
				v := "?"
				if idx < len(args) {
					v = a.C.Term(args[idx])
				}
				// a new helper raises on behalf of the functions that call it (each of them, when it is shared)
				for _, o := range a.ownersOf(f, 0) {
					if cnt[o] == nil {
						cnt[o] = map[string]int{}
					}
					cnt[o][kind+":"+v]++
				}
			}
		}
	}
	out := map[string][]string{}
	for o, m := range cnt {
		var l []string
		for k, n := range m {
			if n > 1 {
				k = fmt.Sprintf("%s#%d", k, n)
			}
			l = append(l, k)
		}
		sort.Strings(l)
		out[o] = l
	}
	return out
}

func (a *An) closedEvents(prop string) {
	R := a.R
	cur := a.currentEvents()
	names := map[string]bool{}
	for k := range cur {
		names[k] = true
	}
	for k := range frozenEvents {
		names[k] = true
	}
	n := 0
	for _, fn := range sortedKeys(names) {
		c, f := cur[fn], frozenEvents[fn]
		relevant := false
		for _, e := range append(append([]string{}, c...), f...) {
			kind := e[:strings.Index(e, ":")]
			if strings.Contains(eventProps[kind], prop) {
				relevant = true
			}
		}
		if !relevant {
			continue
		}
		n++
		R.Check(strings.Join(c, " ") == strings.Join(f, " "), "P.events-closed", "events|"+fn, "the events "+fn+" raises are the reviewed ones", "",
			"raises ["+strings.Join(c, " ")+"], reviewed ["+strings.Join(f, " ")+"]: an event is missing, added or different — the user is told something else about the session")
	}
	R.Extra["functions_with_closed_event_sets"] = n
}

// ownersOf: the functions a write inside f is attributed to: f itself when it is a function of the reviewed tree; for a
// new function, the functions that call it (a helper shared by several callers writes on behalf of each of them).
func (a *An) ownersOf(f *ssa.Function, depth int) []string {
	if !a.C.isNew(f) || depth > 3 {
		return []string{a.C.alias(f)}
	}
	sites := a.CallSites(f)
	if len(sites) == 0 {
		return []string{a.C.alias(f)}
	}
	set := map[string]bool{}
	for _, cs := range sites {
		if cs.Parent() == f {
			continue
		}
		for _, o := range a.ownersOf(cs.Parent(), depth+1) {
			set[o] = true
		}
	}
	if len(set) == 0 {
		return []string{a.C.alias(f)}
	}
	return sortedKeys(set)
}

// ---- callers of functions that change session state ---------------------------------------------------------------
// For every function of the two packages whose effects include a write to a field of the session state, the set of
// functions that call it is a closed table as well: a new call of such a function moves session state in a new place
// or at a new moment (a wipe where none was, a timer reset on an error path, a handler invoked out of turn).

// stateFieldsWritten: the "Type.field" keys (closedStateTypes) a function writes, transitively, by its effect summary.
func (a *An) stateFieldsWritten(f *ssa.Function) []string {
	set := map[string]bool{}
	for _, ef := range a.E.Of(f) {
		p := a.C.abs(f, ef.Path)
		parts := strings.Split(p, ".")
		if len(parts) < 2 {
			continue
		}
		// walk the path from its root type, collecting every Type.field step that belongs to a state type
		obj := a.C.Otr.Pkg.Scope().Lookup(parts[0])
		if obj == nil {
			continue
		}
		t := obj.Type()
		for i := 1; i < len(parts); i++ {
			name := parts[i]
			if j := strings.IndexAny(name, "[#"); j >= 0 {
				name = name[:j]
			}
			for {
				if pt, ok := t.Underlying().(*types.Pointer); ok {
					t = pt.Elem()
					continue
				}
				if sl, ok := t.Underlying().(*types.Slice); ok {
					t = sl.Elem()
					continue
				}
				break
			}
			st, ok := t.Underlying().(*types.Struct)
			if !ok {
				break
			}
			tn := ""
			if n, isN := t.(*types.Named); isN {
				tn = n.Obj().Name()
			}
			var ft types.Type
			for k := 0; k < st.NumFields(); k++ {
				if st.Field(k).Name() == name {
					ft = st.Field(k).Type()
				}
			}
			if ft == nil {
				break
			}
			for _, ct := range closedStateTypes {
				if ct == tn {
					set[tn+"."+name] = true
				}
			}
			t = ft
		}
	}
	return sortedKeys(set)
}

// currentStateCallers: callee (a function that writes session state) → sorted names of the functions that call it.
func (a *An) currentStateCallers() (map[string][]string, map[string][]string) {
	callers := map[string][]string{}
	fields := map[string][]string{}
	for _, g := range a.C.FuncSeq {
		if g.Blocks == nil || g.Parent() != nil || (a.C.isNew(g) && len(a.CallSites(g)) > 0) {
			continue
		}
		fw := a.stateFieldsWritten(g)
		if len(fw) == 0 {
			continue
		}
		set := map[string]bool{}
		for _, cs := range a.CallSites(g) {
			if cs.Parent() == g {
				continue
			}
			for _, o := range a.ownersOf(cs.Parent(), 0) {
				if o != a.C.alias(g) {
					set[o] = true
				}
			}
		}
		name := a.C.alias(g)
		callers[name] = sortedKeys(set)
		fields[name] = fw
	}
	return callers, fields
}

func (a *An) closedStateCallers(prop string) {
	R := a.R
	cur, fields := a.currentStateCallers()
	n := 0
	for _, callee := range sortedKeys(func() map[string]bool {
		m := map[string]bool{}
		for k := range cur {
			m[k] = true
		}
		return m
	}()) {
		relevant := false
		for _, fk := range fields[callee] {
			if strings.Contains(propsOfField(fk), prop) {
				relevant = true
			}
		}
		if !relevant {
			continue
		}
		frozen, known := frozenStateCallers[callee]
		if !known {
			continue // a function that newly writes state is reported by W.state
		}
		n++
		allow := map[string]bool{}
		for _, w := range frozen {
			allow[w] = true
		}
		var extra []string
		for _, w := range cur[callee] {
			if !allow[w] {
				extra = append(extra, w)
			}
		}
		R.Check(len(extra) == 0, "W.state-calls", "callers|"+callee, "the functions that call "+callee+" (which writes session state) are the reviewed ones", "",
			"new caller(s): "+strings.Join(extra, ", ")+" — "+callee+" writes "+strings.Join(fields[callee], ", ")+"; that state now changes in a place or at a moment where it did not change before")
	}
	R.Extra["state_writing_functions_with_closed_caller_sets"] = n
}
