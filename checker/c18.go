package main

import (
	"fmt"
	"go/types"
	"strings"

	"golang.org/x/tools/go/ssa"
)

func init() {
	register("C18", "Structural clause decided: the message state has exactly three writers with constant values (akeHasFinished→encrypted, End→plaintext, processDisconnectedTLV→finished); each raises exactly the specified security event under the specified condition on the state loaded before the store; End emits the disconnect TLV only while encrypted; Send dispatches on the state (finished: error, no use of the text; plaintext/encrypted: the respective sender); retransmission is armed only by the three specified events, the queue is replaced (not extended) by encrypted sends and extended only by sends waiting for encryption, retransmit takes the queue once, marks re-sent texts iff armed by an error message, does not re-queue what it sends and forgets the queue on success; maybeRetransmit runs only after a Reveal-Signature/Signature handler accepted its message. Not decided: event sequences along whole multi-session histories, timing.",
		func(a *An) {
			a.combinedHandlers("P.combined-handlers")
			a.c18StateWriters()
			a.c18Events()
			a.c18SendDispatch("P.send-dispatch")
			a.c18Resend()
			a.endForgetsLastText("P.resend")
			a.eventsDelivered("P.events-delivered")
			a.transitionsUnconditional("W.msg-state")
			a.tlvParseLoopComplete("S.tlv-loop")
			a.handlersOnlyThroughTable("S.tlv-loop")
			// the session ends when the user says so (or the peer disconnects): nothing inside the library calls End
			if end := a.MustFn("(*Conversation).End"); end != nil {
				n := 0
				for _, cs := range a.CallSites(end) {
					n++
					a.R.Viol("W.end", "call|End|from|"+a.C.Name(a.C.owner(cs.Parent())), "End is called by the user only", a.C.InstrPos(cs), a.C.Name(cs.Parent())+" calls End: the conversation leaves the finished state (or an encrypted session) without the user's doing, and Send stops refusing text")
				}
				a.R.Check(n == 0, "W.end", "End|internal-callers", "no internal caller of End", a.C.Pos(end.Pos()), fmt.Sprintf("%d", n))
			}
			a.policiesImmutable("W.policies")
			a.tlvLoopComplete("S.tlv-loop")
		})
}

func (a *An) c18StateWriters() {
	R := a.R
	fld := a.MustField("Conversation", "msgState")
	if fld == nil {
		return
	}
	want := map[string]string{
		"(*Conversation).akeHasFinished":         a.MustConst("encrypted"),
		"(*Conversation).End":                    a.MustConst("plainText"),
		"(*Conversation).processDisconnectedTLV": a.MustConst("finished"),
	}
	seen := map[string]bool{}
	for _, st := range a.StoresTo(fld) {
		fn := a.C.Name(a.C.owner(st.Parent()))
		v := a.C.Term(st.Val)
		w, ok := want[fn]
		R.Check(ok && v == w, "W.msg-state", "store msgState|"+fn, "message state written only by the three lifecycle functions with their constant", a.C.InstrPos(st), fn+" stores "+v)
		if ok && v == w {
			seen[fn] = true
		}
	}
	R.Check(len(seen) == 3, "W.msg-state", "store msgState|all-three", "all three lifecycle writers exist", "", fmt.Sprintf("found %d", len(seen)))
	R.Floor("W.msg-state", 4)
}

func (a *An) c18Events() {
	R := a.R
	rule := "P.security-events"
	enc := a.MustConst("encrypted")
	type ev struct{ cond, event string }
	want := map[string][]ev{
		"(*Conversation).akeHasFinished":         {{"(Conversation.msgState != " + enc + ")", a.MustConst("GoneSecure")}, {"(Conversation.msgState == " + enc + ")", a.MustConst("StillSecure")}},
		"(*Conversation).End":                    {{"(Conversation.msgState == " + enc + ")", a.MustConst("GoneInsecure")}},
		"(*Conversation).processDisconnectedTLV": {{"(Conversation.msgState == " + enc + ")", a.MustConst("GoneInsecure")}},
	}
	sig := a.MustFn("(*Conversation).signalSecurityEventIf")
	fld := a.MustField("Conversation", "msgState")
	if sig == nil || fld == nil {
		return
	}
	got := map[string][]ev{}
	for _, cs := range a.CallSites(sig) {
		fn := a.C.Name(cs.Parent())
		args := cs.Common().Args
		e := ev{a.C.Term(args[1]), a.C.Term(args[2])}
		got[fn] = append(got[fn], e)
		// the condition reads the state before this function overwrites it
		okBefore := false
		if bo, ok := args[1].(*ssa.BinOp); ok {
			for _, op := range []ssa.Value{bo.X, bo.Y} {
				if ld, isLd := op.(*ssa.UnOp); isLd {
					for _, st := range a.DirectStoresTo(fld) {
						if st.Parent() == cs.Parent() && instrDominates(ld, st) {
							okBefore = true
						}
					}
				}
			}
		}
		// and it is raised on every path on which this function changed the state (also when a later step fails)
		for _, st := range a.DirectStoresTo(fld) {
			if st.Parent() != cs.Parent() {
				continue
			}
			always := true
			for _, r := range a.returnsOf(cs.Parent()) {
				if !canReach(st, r) {
					continue
				}
				_, isDefer := cs.(*ssa.Defer)
				if isDefer && instrDominates(cs, r) {
					continue
				}
				if !isDefer && !reachesAvoiding(st, r, []ssa.Instruction{cs}, nil) {
					continue
				}
				always = false
			}
			R.Check(always, rule, fn+"|always-raised|"+e.event, "whenever the message state was changed the event call is executed before the function returns, on error paths too", a.C.InstrPos(cs),
				"a return is reachable after the state change without passing the event call: the state changes silently (a later GoneInsecure has no matching GoneSecure)")
		}
		R.Check(okBefore, rule, fn+"|previous-state|"+e.event, "the event condition uses the state loaded before the transition", a.C.InstrPos(cs), "condition "+e.cond+" is not computed from a load that precedes the store of the new state")
	}
	for fn, ws := range want {
		for _, w := range ws {
			found := false
			for _, g := range got[fn] {
				if g == w {
					found = true
				}
			}
			R.Check(found, rule, fn+"|event|"+w.event, "raises event "+w.event+" iff "+w.cond, "", fmt.Sprintf("events raised by this function: %v", got[fn]))
		}
		R.Check(len(got[fn]) == len(ws), rule, fn+"|event-count", "no other security event is raised here", "", fmt.Sprintf("%v", got[fn]))
	}
	for fn := range got {
		if _, ok := want[fn]; !ok {
			R.Viol(rule, fn+"|unexpected", "security events are raised only by the three lifecycle functions", "", fmt.Sprintf("%s raises %v", fn, got[fn]))
		}
	}
	a.WhoMayCall("W.security-event", a.MustFn("(*Conversation).securityEvent"), "(*Conversation).signalSecurityEventIf")
	// End emits the disconnect message only while encrypted
	if end := a.MustFn("(*Conversation).End"); end != nil {
		if c := a.uniqueCall(rule, end, "(*Conversation).createSerializedDataMessage"); c != nil {
			a.GateLocal(rule, "End|disconnect-tlv", c, "the disconnect message", "passed:(Conversation.msgState == "+enc+")")
			a.TermIs(rule, "End|disconnect-flag", "flag of the disconnect message", c, c.Call.Args[2], a.MustConst("messageFlagIgnoreUnreadable"))
		}
	}
	a.akeContextDropped(rule)
	R.Floor(rule, 10)
}

// akeContextDropped: ending a session (End, peer disconnect) drops the key exchange context, so that no
// stale exchange state or timestamp influences how the next exchange is started.
func (a *An) akeContextDropped(rule string) {
	fld := a.MustField("Conversation", "ake")
	for _, name := range []string{"(*Conversation).End", "(*Conversation).processDisconnectedTLV"} {
		fn := a.MustFn(name)
		if fn == nil || fld == nil {
			continue
		}
		ok := a.dropsField(fn, fld, 0)
		a.R.Check(ok, rule, name+"|drops-ake", "the key exchange context is dropped (c.ake = nil) on every path", a.C.Pos(fn.Pos()), "no dominating store of nil to Conversation.ake")
	}
}

func (a *An) c18SendDispatch(rule string) {
	R := a.R
	fn := a.MustFn("(*Conversation).Send")
	if fn == nil {
		return
	}
	en := "(*policies).isOTREnabled(&Conversation.Policies)"
	wantCall := map[int64]string{0: "(*Conversation).sendMessageOnPlaintext", 1: "(*Conversation).sendMessageOnEncrypted", 2: ""}
	senders := map[string]bool{"(*Conversation).sendMessageOnPlaintext": true, "(*Conversation).sendMessageOnEncrypted": true, "(*Conversation).createSerializedDataMessage": true,
		"(*Conversation).genDataMsg": true, "(*Conversation).genDataMsgWithFlag": true, "(*Conversation).appendWhitespaceTag": true, "(*Conversation).lastMessage": true}
	for ms := int64(0); ms < 4; ms++ {
		paths, complete := a.C.Paths(fn, a.C.valOracle(valCase{"Conversation.msgState": ms}, map[string]bool{en: true, "Conversation.debug": false}), 128)
		key := fmt.Sprintf("Send|msgState=%d", ms)
		if !complete || len(paths) == 0 {
			R.Undec(rule, key, "enumerate paths", a.C.Pos(fn.Pos()), "incomplete")
			continue
		}
		ok, detail := true, ""
		for _, p := range paths {
			var called []string
			for _, in := range p.Instrs {
				if call, isCall := in.(*ssa.Call); isCall {
					if n := a.F.callName(call); senders[n] {
						called = append(called, n)
					}
				}
			}
			w := wantCall[ms]
			if ms >= 2 {
				if len(called) > 0 {
					ok, detail = false, "calls "+strings.Join(called, ",")+" although no text may be sent in this state"
				}
				if p.Ret != nil && a.F.ErrTri(p, p.Ret.Results[1]) != False {
					ok, detail = false, "Send does not report an error in this state"
				}
				if p.Ret != nil {
					t := a.C.Term(p.Resolve(p.Ret.Results[0]))
					if strings.Contains(t, "$m") || strings.Contains(t, "makeCopy") {
						ok, detail = false, "the returned messages derive from the text: "+t
					}
				}
			} else if len(called) != 1 || called[0] != w {
				ok, detail = false, "calls ["+strings.Join(called, ",")+"], specified "+w
			}
		}
		R.Check(ok, rule, key, "Send dispatch for this state", a.C.Pos(fn.Pos()), detail)
	}
	R.Floor(rule, 4)
}

func (a *An) c18Resend() {
	R := a.R
	rule := "P.resend"
	enc := a.MustConst("encrypted")
	// who arms retransmission, with what
	upd := a.MustFn("(*Conversation).updateMayRetransmitTo")
	want := map[string]string{
		"(*Conversation).sendMessageOnPlaintext": a.MustConst("retransmitExact"),
		"(*Conversation).genDataMsgWithFlag":     a.MustConst("noRetransmit"),
		"(*Conversation).receiveErrorMessage":    a.MustConst("retransmitWithPrefix"),
	}
	for _, cs := range a.CallSites(upd) {
		fn := a.C.Name(cs.Parent())
		v := a.C.Term(cs.Common().Args[1])
		w, ok := want[fn]
		R.Check(ok && v == w, rule, "arm|"+fn, "retransmission flag set only by the three specified events with their value", a.C.InstrPos(cs), fn+" sets "+v)
		if fn == "(*Conversation).receiveErrorMessage" {
			a.GateLocal(rule, "arm|receiveErrorMessage|guard", cs, "arming resend-with-prefix", "passed:(Conversation.msgState == "+enc+")")
		}
		if fn == "(*Conversation).sendMessageOnPlaintext" {
			a.GateLocal(rule, "arm|sendMessageOnPlaintext|guard", cs, "arming exact resend", "ok:(*policies).has(_,"+a.MustConst("requireEncryption")+")")
		}
	}
	a.WhoMayWrite("W.may-retransmit", a.MustField("resendContext", "mayRetransmit"), "(*Conversation).updateMayRetransmitTo")
	// the queue: extended only while waiting for encryption, replaced by encrypted sends
	a.WhoMayCall("W.resend-queue", a.MustFn("(*resendContext).later"), "(*Conversation).lastMessage", "(*resendContext).last")
	a.WhoMayCall("W.resend-queue", a.MustFn("(*Conversation).lastMessage"), "(*Conversation).sendMessageOnPlaintext")
	a.WhoMayCall("W.resend-queue", a.MustFn("(*resendContext).last"), "(*Conversation).genDataMsgWithFlag")
	if last := a.MustFn("(*resendContext).last"); last != nil {
		cl := a.uniqueCall(rule, last, "(*resendContext).clear")
		lt := a.uniqueCall(rule, last, "(*resendContext).later")
		if cl != nil && lt != nil {
			R.Check(instrDominates(cl, lt), rule, "last|replace", "remembering the last message replaces the queue (clear before later)", a.C.InstrPos(lt), "clear does not dominate later")
			a.GateLocal(rule, "last|not-while-retransmitting", cl, "replacing the queue", "passed:!resendContext.retransmitting")
		}
	}
	if later := a.MustFn("(*resendContext).later"); later != nil {
		n := 0
		for _, b := range later.Blocks {
			for _, in := range b.Instrs {
				if st, ok := in.(*ssa.Store); ok && strings.HasSuffix(a.C.AddrPath(st.Addr), ".messages.m") {
					if call, isCall := st.Val.(*ssa.Call); isCall {
						if bi, isB := call.Call.Value.(*ssa.Builtin); isB && bi.Name() == "append" {
							n++
							a.GateLocal(rule, "later|not-while-retransmitting", st, "queueing a text", "passed:!resendContext.retransmitting")
						}
					}
				}
			}
		}
		R.Check(n == 1, rule, "later|append", "later appends to the queue in one place", a.C.Pos(later.Pos()), fmt.Sprintf("%d", n))
	}
	// retransmit
	if rt := a.MustFn("(*Conversation).retransmit"); rt != nil {
		pend := a.uniqueCall(rule, rt, "(*resendContext).pending")
		clr := a.uniqueCall(rule, rt, "(*resendContext).clear")
		start := a.uniqueCall(rule, rt, "(*resendContext).startRetransmitting")
		gens := a.CallsIn(rt, "(*Conversation).genDataMsg")
		if pend != nil && clr != nil && start != nil && len(gens) == 1 {
			g := gens[0]
			R.Check(instrDominates(pend, g) && instrDominates(start, g), rule, "retransmit|order", "the queue is taken and the retransmitting flag set before anything is generated", a.C.InstrPos(g), "pending/startRetransmitting do not dominate genDataMsg")
			// every success return passed clear exactly via one site; clear is never before the loop is done unless nothing can fail after it
			for _, r := range a.returnsOf(rt) {
				if ev := resolveLocal(r.Results[1]); a.F.provablyNonNil(ev) || !isNilConst(ev) {
					continue
				}
				R.Check(a.F.LocalAt(r).Has("called:(*resendContext).clear"), rule, "retransmit|forget-on-success", "a successful retransmission forgets the queue (texts are sent once)", a.C.InstrPos(r), "success return without clear()")
			}
			// the deferred end
			hasDefer := false
			for _, b := range rt.Blocks {
				for _, in := range b.Instrs {
					if d, ok := in.(*ssa.Defer); ok && a.F.callName(d) == "(*resendContext).endRetransmitting" {
						hasDefer = true
					}
				}
			}
			R.Check(hasDefer, rule, "retransmit|end", "the retransmitting flag is cleared on exit", a.C.Pos(rt.Pos()), "no deferred endRetransmitting")
			// prefix iff armed by an error message
			pre := a.MustConst("retransmitWithPrefix")
			for _, cs := range a.CallsIn(rt, "(*Conversation).resendMessageTransformer") {
				a.GateLocal(rule, "retransmit|prefix-iff-resending", cs, "marking a text as resent", "passed:(Conversation.resend.mayRetransmit == "+pre+")")
			}
			// what is generated is the queued text (possibly transformed)
			t := a.C.Term(g.Common().Args[1])
			R.Check(strings.Contains(t, "messageToResend).m") || strings.Contains(t, "(*resendContext).pending[].m"), rule, "retransmit|payload", "the generated message carries the queued text", a.C.InstrPos(g), "payload "+t)
		} else if len(gens) != 1 {
			R.Viol(rule, "retransmit|gen", "retransmit generates data messages in one place", a.C.Pos(rt.Pos()), fmt.Sprintf("%d", len(gens)))
		}
	}
	if mr := a.MustFn("(*Conversation).maybeRetransmit"); mr != nil {
		a.WhoMayCall("W.retransmit", mr, "(*Conversation).processAKE")
		a.WhoMayCall("W.retransmit", a.MustFn("(*Conversation).retransmit"), "(*Conversation).maybeRetransmit")
		for i, cs := range a.CallSites(mr) {
			fs := a.F.LocalAt(cs)
			ok := fs.Has("ok:authState.receiveRevealSigMessage") || fs.Has("ok:authState.receiveSigMessage")
			R.Check(ok, rule, fmt.Sprintf("maybeRetransmit|after-accepted#%d", i+1), "queued texts are released only after a Reveal-Signature/Signature handler accepted its message", a.C.InstrPos(cs), "reachable without a successful handler")
		}
		if c := a.uniqueCall(rule, mr, "(*Conversation).retransmit"); c != nil {
			fs := a.F.LocalAt(c)
			R.Check(fs.Has("ok:(*resendContext).shouldRetransmit") || fs.Has("ok:(*Conversation).shouldRetransmit"), rule, "maybeRetransmit|guard", "retransmission only when the resend context says so (texts waiting, retransmission armed)", a.C.InstrPos(c),
				"retransmit is called without the shouldRetransmit test having succeeded")
		}
	}
	if sr := a.MustFn("(*resendContext).shouldRetransmit"); sr != nil {
		a.SuccessRequires(rule, sr, "passed:(len(resendContext.messages.m) > 0)", "passed:(resendContext.mayRetransmit != "+a.MustConst("noRetransmit")+")")
	}
	R.Floor(rule, 14)
}

// dropsField: every return of f is dominated by a store of nil to the field (through a path rooted at a parameter), made
// in f itself or in a function of the two packages that f calls with that property (a helper shared by several callers).
func (a *An) dropsField(f *ssa.Function, fld *types.Var, depth int) bool {
	if f == nil || f.Blocks == nil || depth > 2 {
		return false
	}
	var droppers []ssa.Instruction
	for _, b := range f.Blocks {
		for _, in := range b.Instrs {
			switch x := in.(type) {
			case *ssa.Store:
				if fa, ok := x.Addr.(*ssa.FieldAddr); ok && fieldOf(fa) == fld && isNilConst(x.Val) {
					droppers = append(droppers, in)
				}
			case *ssa.Call:
				if g := x.Call.StaticCallee(); g != nil && a.C.IsLib(g) && g != f && a.dropsField(g, fld, depth+1) {
					droppers = append(droppers, in)
				}
			}
		}
	}
	rets := a.returnsOf(f)
	if len(rets) == 0 {
		return false
	}
	for _, r := range rets {
		dom := false
		for _, d := range droppers {
			if instrDominates(d, r) {
				dom = true
			}
		}
		if !dom {
			// or the field is known to be nil already on this path
			if !a.F.LocalAt(r).Has("passed:(" + typeName(fld.Pkg().Scope().Lookup("Conversation").Type()) + "." + fld.Name() + " == nil)") {
				return false
			}
		}
	}
	return true
}
