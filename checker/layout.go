package main

import (
	"fmt"
	"go/token"
	"strings"

	"golang.org/x/tools/go/ssa"
)

// ---- writer side: the ordered fields appended to one buffer -----------------------------------------

type WField struct {
	Kind  string // BYTE SHORT WORD LONG DATA MPI MPIS BYTES(raw bytes of a slice) BASE(start value)
	Term  string // provenance of the value written
	Width int    // bytes; -1 = variable
	At    ssa.Instruction
}

func (f WField) String() string { return f.Kind + "(" + f.Term + ")" }

var appendKinds = map[string]struct {
	kind  string
	width int
}{
	"AppendShort": {"SHORT", 2}, "AppendWord": {"WORD", 4}, "AppendLong": {"LONG", 8},
	"AppendData": {"DATA", -1}, "AppendMPI": {"MPI", -1}, "AppendMPIs": {"MPIS", -1},
}

// WriterFields follows the buffer value backwards through Append*/append calls.
func (c *Ctx) WriterFields(v ssa.Value) []WField { return c.writerFields(v, 0) }

func (c *Ctx) writerFields(v ssa.Value, d int) []WField {
	if d > 40 {
		return []WField{{Kind: "BASE", Term: "?deep", Width: -1}}
	}
	switch x := v.(type) {
	case *ssa.Const:
		if x.Value == nil {
			return nil
		}
	case *ssa.ChangeType:
		return c.writerFields(x.X, d+1)
	case *ssa.Convert:
		return c.writerFields(x.X, d+1)
	case *ssa.Call:
		if sc := x.Call.StaticCallee(); sc != nil {
			if ak, ok := appendKinds[sc.Name()]; ok && sc.Pkg != nil && sc.Pkg.Pkg.Path() == otrPath {
				base := c.writerFields(x.Call.Args[0], d+1)
				if ak.kind == "MPIS" {
					// variadic: list the elements when they are given explicitly
					elems := c.variadicElems(x.Call.Args[1])
					if elems != nil {
						for _, e := range elems {
							base = append(base, WField{Kind: "MPI", Term: c.Term(e), Width: -1, At: x})
						}
						return base
					}
				}
				return append(base, WField{Kind: ak.kind, Term: c.Term(x.Call.Args[1]), Width: ak.width, At: x})
			}
		}
		if b, ok := x.Call.Value.(*ssa.Builtin); ok && b.Name() == "append" && len(x.Call.Args) == 2 {
			base := c.writerFields(x.Call.Args[0], d+1)
			if elems := c.variadicElems(x.Call.Args[1]); elems != nil {
				for _, e := range elems {
					base = append(base, WField{Kind: "BYTE", Term: c.Term(e), Width: 1, At: x})
				}
				return base
			}
			return append(base, WField{Kind: "BYTES", Term: c.Term(x.Call.Args[1]), Width: -1, At: x})
		}
	case *ssa.Slice:
		// x[:] of something
		if x.Low == nil && x.High == nil {
			return c.writerFields(x.X, d+1)
		}
	}
	return []WField{{Kind: "BASE", Term: c.Term(v), Width: -1}}
}

// variadicElems: for `slice-of-fresh-array` arguments (f(a, b, c...) expanded by go/ssa) return the elements.
func (c *Ctx) variadicElems(v ssa.Value) []ssa.Value {
	sl, ok := v.(*ssa.Slice)
	if !ok {
		return nil
	}
	al, ok := sl.X.(*ssa.Alloc)
	if !ok || al.Referrers() == nil {
		return nil
	}
	type el struct {
		idx int64
		v   ssa.Value
	}
	var els []el
	for _, ref := range *al.Referrers() {
		ia, ok := ref.(*ssa.IndexAddr)
		if !ok {
			continue
		}
		k, ok := ia.Index.(*ssa.Const)
		if !ok {
			return nil
		}
		i, _ := constInt(k)
		for _, r2 := range *ia.Referrers() {
			if st, ok := r2.(*ssa.Store); ok {
				els = append(els, el{i, st.Val})
			}
		}
	}
	if len(els) == 0 {
		return nil
	}
	out := make([]ssa.Value, len(els))
	for _, e := range els {
		if int(e.idx) >= len(out) {
			return nil
		}
		out[e.idx] = e.v
	}
	for _, o := range out {
		if o == nil {
			return nil
		}
	}
	return out
}

func fieldsStr(fs []WField) string {
	var s []string
	for _, f := range fs {
		s = append(s, f.String())
	}
	return strings.Join(s, " ‖ ")
}

func kindsStr(fs []WField) string {
	var s []string
	for _, f := range fs {
		s = append(s, f.Kind)
	}
	return strings.Join(s, " ")
}

// ---- reader side: constant offsets of Extract* calls relative to a base value ------------------------

type ROffset struct {
	Base ssa.Value
	Off  int
	Var  bool // a variable-length field was skipped: offset no longer constant
}

var extractWidths = map[string]int{"ExtractByte": 1, "ExtractShort": 2, "ExtractWord": 4, "ExtractLong": 8, "ExtractData": -1, "ExtractMPI": -1, "ExtractMPIs": -1, "ExtractTime": 8}

// ByteOffset computes where a []byte value starts relative to the value it was derived from.
func (c *Ctx) ByteOffset(v ssa.Value) ROffset { return c.byteOffset(v, 0) }

func (c *Ctx) byteOffset(v ssa.Value, d int) ROffset {
	if d > 30 {
		return ROffset{Base: v}
	}
	switch x := v.(type) {
	case *ssa.ChangeType:
		return c.byteOffset(x.X, d+1)
	case *ssa.Convert:
		return c.byteOffset(x.X, d+1)
	case *ssa.Slice:
		r := c.byteOffset(x.X, d+1)
		if x.Low != nil {
			if k, ok := x.Low.(*ssa.Const); ok {
				i, _ := constInt(k)
				r.Off += int(i)
			} else {
				r.Var = true
			}
		}
		return r
	case *ssa.Extract:
		if call, ok := x.Tuple.(*ssa.Call); ok && x.Index == 0 {
			if sc := call.Call.StaticCallee(); sc != nil && sc.Pkg != nil && sc.Pkg.Pkg.Path() == otrPath {
				if w, ok := extractWidths[sc.Name()]; ok {
					r := c.byteOffset(call.Call.Args[0], d+1)
					if w < 0 {
						r.Var = true
					} else {
						r.Off += w
					}
					return r
				}
			}
		}
	case *ssa.UnOp:
		if x.Op == token.MUL {
			if sv := localStore(x); sv != nil {
				return c.byteOffset(sv, d+1)
			}
		}
	}
	return ROffset{Base: v}
}

// ReadAt describes an Extract* value result: which primitive, from which base, at which offset.
func (c *Ctx) ReadAt(v ssa.Value) (kind string, off ROffset, ok bool) {
	ex, isEx := v.(*ssa.Extract)
	if !isEx || ex.Index != 1 {
		return "", ROffset{}, false
	}
	call, isCall := ex.Tuple.(*ssa.Call)
	if !isCall {
		return "", ROffset{}, false
	}
	sc := call.Call.StaticCallee()
	if sc == nil || sc.Pkg == nil || sc.Pkg.Pkg.Path() != otrPath {
		return "", ROffset{}, false
	}
	if _, known := extractWidths[sc.Name()]; !known {
		return "", ROffset{}, false
	}
	return sc.Name(), c.byteOffset(call.Call.Args[0], 0), true
}

func (r ROffset) String(c *Ctx) string {
	s := fmt.Sprintf("%s+%d", c.Term(r.Base), r.Off)
	if r.Var {
		s += "+var"
	}
	return s
}

// sprintfWidth: fixed width of a Printf format up to and including the first occurrence of stop
// (supports %s with known string length, %0Nd / %0Nx, literals). ok=false when not fixed.
func sprintfWidth(format string, strLens []int, stop byte) (int, bool) {
	w := 0
	si := 0
	for i := 0; i < len(format); i++ {
		ch := format[i]
		if ch != '%' {
			w++
			if ch == stop {
				return w, true
			}
			continue
		}
		j := i + 1
		n := 0
		zero := false
		if j < len(format) && format[j] == '0' {
			zero = true
			j++
		}
		for j < len(format) && format[j] >= '0' && format[j] <= '9' {
			n = n*10 + int(format[j]-'0')
			j++
		}
		if j >= len(format) {
			return 0, false
		}
		switch format[j] {
		case 's':
			if si >= len(strLens) {
				return 0, false
			}
			w += strLens[si]
			si++
		case 'd', 'x', 'X':
			if !zero || n == 0 {
				return 0, false
			}
			w += n
		default:
			return 0, false
		}
		i = j
	}
	return w, stop == 0
}
