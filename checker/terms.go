package main

import (
	"fmt"
	"go/constant"
	"go/token"
	"go/types"
	"sort"
	"strings"

	"golang.org/x/tools/go/ssa"
)

// typeName renders a (possibly pointer) named type without package qualification.
func typeName(t types.Type) string {
	for {
		if p, ok := t.(*types.Pointer); ok {
			t = p.Elem()
			continue
		}
		break
	}
	if n, ok := t.(*types.Named); ok {
		if n.Obj().Pkg() != nil && n.Obj().Pkg().Path() == sexpPath {
			return "sexp." + n.Obj().Name()
		}
		return n.Obj().Name()
	}
	s := types.TypeString(t, func(p *types.Package) string { return "" })
	return s
}

func fieldOf(v *ssa.FieldAddr) *types.Var {
	st := v.X.Type().Underlying().(*types.Pointer).Elem().Underlying().(*types.Struct)
	return st.Field(v.Field)
}

func fieldOfVal(v *ssa.Field) *types.Var {
	st := v.X.Type().Underlying().(*types.Struct)
	return st.Field(v.Field)
}

// AddrPath gives a type-rooted access path for an address (or pointer) value:
// FieldAddr chains are followed through pointer loads; the root is the pointee type name of a
// parameter ("Conversation"), "new(T)" for a local allocation, "global:x" for a package variable.
func (c *Ctx) AddrPath(v ssa.Value) string { return c.addrPath(v, 0) }

func (c *Ctx) addrPath(v ssa.Value, d int) string {
	if d > 12 {
		return "?deep"
	}
	switch x := v.(type) {
	case *ssa.FieldAddr:
		return c.addrPath(x.X, d+1) + "." + fieldOf(x).Name()
	case *ssa.IndexAddr:
		// an element of a slice of x is an element of x
		return strings.TrimSuffix(c.addrPath(x.X, d+1), "[:]") + "[]"
	case *ssa.Alloc:
		if sp := spilledParam(x); sp != nil {
			// a by-value parameter of a new helper: the caller's variable it was copied from
			if arg, env, ok := c.lookThrough(sp); ok {
				if ld, isLd := arg.(*ssa.UnOp); isLd && ld.Op == token.MUL {
					save := c.tenv
					c.tenv = env
					s := c.addrPath(ld.X, d+1)
					c.tenv = save
					return s
				}
			}
			return typeName(x.Type())
		}
		// a local that is nothing but a copy of a structure reachable from a parameter reads as that structure
		if src := localCopyOf(x); src != nil {
			if p := c.addrPath(src, d+1); !strings.HasPrefix(p, "new(") && !strings.HasPrefix(p, "?") {
				return p
			}
		}
		return "new(" + typeName(x.Type()) + ")"
	case *ssa.Parameter:
		if arg, env, ok := c.lookThrough(x); ok && pointerLike(x.Type()) {
			save := c.tenv
			c.tenv = env
			s := c.addrPath(arg, d+1)
			c.tenv = save
			return s
		}
		return typeName(x.Type())
	case *ssa.FreeVar:
		return "free:" + c.freeVarName(x)
	case *ssa.Global:
		if x.Pkg != nil && x.Pkg.Pkg.Path() == sexpPath {
			return "global:sexp." + x.Name()
		}
		return "global:" + x.Name()
	case *ssa.UnOp:
		if x.Op == token.MUL {
			return c.addrPath(x.X, d+1)
		}
	case *ssa.ChangeType:
		return c.addrPath(x.X, d+1)
	case *ssa.Convert:
		return c.addrPath(x.X, d+1)
	case *ssa.Slice:
		return c.addrPath(x.X, d+1) + "[:]"
	case *ssa.Phi:
		var alts []string
		seen := map[string]bool{}
		for _, e := range x.Edges {
			p := c.addrPath(e, d+1)
			if !seen[p] {
				seen[p] = true
				alts = append(alts, p)
			}
		}
		if len(alts) == 1 {
			return alts[0]
		}
		sort.Strings(alts)
		return "phi(" + strings.Join(alts, "|") + ")"
	case *ssa.Call:
		if sc := x.Call.StaticCallee(); sc != nil {
			return "ret:" + c.Name(sc)
		}
		return "ret:dyn"
	case *ssa.Extract:
		return c.addrPath(x.Tuple, d+1) + "#" + fmt.Sprint(x.Index)
	case *ssa.Field:
		return c.addrPath(x.X, d+1) + "." + fieldOfVal(x).Name()
	case *ssa.MakeInterface:
		return c.addrPath(x.X, d+1)
	case *ssa.Const:
		return "const"
	}
	return "?" + v.Name()
}

// Term gives a canonical, position-independent rendering of a value (straight-line def-use only).
func (c *Ctx) Term(v ssa.Value) string { return c.term(v, 0) }

func constStr(k *ssa.Const) string {
	if k.Value == nil {
		return "nil"
	}
	if k.Value.Kind() == constant.String {
		return fmt.Sprintf("%q", constant.StringVal(k.Value))
	}
	return k.Value.ExactString()
}

func (c *Ctx) term(v ssa.Value, d int) string {
	if d > 10 {
		return "?deep"
	}
	switch x := v.(type) {
	case *ssa.Const:
		return constStr(x)
	case *ssa.Parameter:
		if arg, env, ok := c.lookThrough(x); ok {
			save := c.tenv
			c.tenv = env
			s := c.term(arg, d+1)
			c.tenv = save
			return s
		}
		return "$" + c.paramName(x)
	case *ssa.FreeVar:
		return "free:" + c.freeVarName(x)
	case *ssa.Global:
		return c.addrPath(x, d)
	case *ssa.Alloc:
		return "new(" + typeName(x.Type()) + ")"
	case *ssa.UnOp:
		switch x.Op {
		case token.MUL:
			if ia, ok := x.X.(*ssa.IndexAddr); ok {
				if _, isConst := ia.Index.(*ssa.Const); isConst {
					return c.term(ia.X, d+1) + "[" + c.term(ia.Index, d+1) + "]"
				}
			}
			if al, ok := x.X.(*ssa.Alloc); ok {
				// a local kept in memory (a named result with a deferred call around, say): the value stored last
				if spilledParam(al) == nil {
					if sv := localStore(x); sv != nil && d < 9 {
						return c.term(sv, d+1)
					}
				}
				if sp := spilledParam(al); sp != nil {
					// the whole of a by-value parameter that happens to be address-taken reads as the parameter
					if _, _, lt := c.lookThrough(sp); !lt {
						return "$" + c.paramName(sp)
					}
				}
			}
			return c.addrPath(x.X, d+1)
		case token.NOT:
			return "!" + c.term(x.X, d+1)
		case token.SUB:
			return "-" + c.term(x.X, d+1)
		case token.XOR:
			return "^" + c.term(x.X, d+1)
		case token.ARROW:
			return "<-" + c.term(x.X, d+1)
		}
	case *ssa.BinOp:
		return "(" + c.term(x.X, d+1) + " " + x.Op.String() + " " + c.term(x.Y, d+1) + ")"
	case *ssa.Call:
		var args []string
		for _, a := range x.Call.Args {
			args = append(args, c.term(a, d+1))
		}
		if b, ok := x.Call.Value.(*ssa.Builtin); ok {
			if b.Name() == "len" && len(x.Call.Args) == 1 {
				// the length of x[:k] (or x[j:k] with constants) is k (k-j): it would have panicked otherwise
				if sl, isSl := resolveLocal(x.Call.Args[0]).(*ssa.Slice); isSl && sl.High != nil && sl.Max == nil {
					if hk, isK := sl.High.(*ssa.Const); isK && hk.Value != nil {
						if sl.Low == nil {
							return constStr(hk)
						}
						if lk, isLK := sl.Low.(*ssa.Const); isLK && lk.Value != nil {
							h, _ := constant.Int64Val(hk.Value)
							l, _ := constant.Int64Val(lk.Value)
							return fmt.Sprint(h - l)
						}
					}
				}
				// the length of a slice made here is the length it was made with
				if ms, isMS := resolveLocal(x.Call.Args[0]).(*ssa.MakeSlice); isMS {
					return c.term(ms.Len, d+1)
				}
			}
			return b.Name() + "(" + strings.Join(args, ", ") + ")"
		}
		if sc := x.Call.StaticCallee(); sc != nil {
			if sc.Signature.Results().Len() == 1 && d < 8 {
				// the only result of a new single-use helper: what the helper returns
				if rv := c.helperResult(x, 0); rv != nil && c.inlinable(sc) == nil {
					return c.term(rv, d+1)
				}
			}
			if rv := c.inlinable(sc); rv != nil && len(sc.Params) == len(x.Call.Args) && d < 8 {
				bind := map[*ssa.Parameter]ssa.Value{}
				for i, p := range sc.Params {
					bind[p] = x.Call.Args[i]
				}
				save := c.tenv
				c.tenv = &termEnv{bind: bind, up: save}
				s := c.term(rv, d+1)
				c.tenv = save
				return s
			}
			return c.Name(sc) + "(" + strings.Join(args, ", ") + ")"
		}
		if x.Call.IsInvoke() {
			return typeName(x.Call.Value.Type()) + "." + x.Call.Method.Name() + "(" + strings.Join(append([]string{c.term(x.Call.Value, d+1)}, args...), ", ") + ")"
		}
		return "dyn(" + c.term(x.Call.Value, d+1) + ")(" + strings.Join(args, ", ") + ")"
	case *ssa.Extract:
		// a result of a new single-use helper: what the helper returns there, when all its returns agree
		if call, ok := x.Tuple.(*ssa.Call); ok && d < 8 {
			if rv := c.helperResult(call, x.Index); rv != nil {
				return c.term(rv, d+1)
			}
			if rvs := c.helperResults(call, x.Index); len(rvs) > 1 {
				// several returns with different values: reads as the merge the inlined code would have
				seen := map[string]bool{}
				var alts []string
				for _, rv := range rvs {
					for _, p := range splitPhi(c.term(rv, d+2)) {
						if !seen[p] {
							seen[p] = true
							alts = append(alts, p)
						}
					}
				}
				sort.Strings(alts)
				return "phi(" + strings.Join(alts, " / ") + ")"
			}
		}
		return c.term(x.Tuple, d+1) + "#" + fmt.Sprint(x.Index)
	case *ssa.Field:
		return c.term(x.X, d+1) + "." + fieldOfVal(x).Name()
	case *ssa.FieldAddr:
		return "&" + c.addrPath(x, d)
	case *ssa.IndexAddr:
		return "&" + c.addrPath(x.X, d+1) + "[" + c.term(x.Index, d+1) + "]"
	case *ssa.Index:
		return c.term(x.X, d+1) + "[" + c.term(x.Index, d+1) + "]"
	case *ssa.Lookup:
		return c.term(x.X, d+1) + "[" + c.term(x.Index, d+1) + "]"
	case *ssa.Slice:
		lo, hi := "", ""
		if x.Low != nil {
			lo = c.term(x.Low, d+1)
		}
		if x.High != nil {
			hi = c.term(x.High, d+1)
		}
		if (lo == "" || lo == "0") && x.High == nil && x.Max == nil {
			// s[:] and s[0:] of a slice or a string are s (of an array: the conversion to a slice, kept)
			switch u := x.X.Type().Underlying().(type) {
			case *types.Slice:
				return c.term(x.X, d+1)
			case *types.Basic:
				if u.Info()&types.IsString != 0 {
					return c.term(x.X, d+1)
				}
			}
		}
		s := c.term(x.X, d+1) + "[" + lo + ":" + hi
		if x.Max != nil {
			s += ":" + c.term(x.Max, d+1)
		}
		return s + "]"
	case *ssa.ChangeType:
		return c.term(x.X, d+1)
	case *ssa.ChangeInterface:
		return c.term(x.X, d+1)
	case *ssa.Convert:
		from, to := x.X.Type().Underlying(), x.Type().Underlying()
		if bf, ok := from.(*types.Basic); ok {
			if bt, ok := to.(*types.Basic); ok && bf.Kind() != bt.Kind() {
				return bt.Name() + "(" + c.term(x.X, d+1) + ")"
			}
		}
		return c.term(x.X, d+1)
	case *ssa.MakeInterface:
		if k, ok := x.X.(*ssa.Const); ok && k.Value == nil {
			return "make(" + typeName(x.X.Type()) + ")"
		}
		return c.term(x.X, d+1)
	case *ssa.MakeSlice:
		return "makeslice(" + c.term(x.Len, d+1) + ")"
	case *ssa.MakeClosure:
		if f, ok := x.Fn.(*ssa.Function); ok {
			return "closure:" + c.Name(f)
		}
	case *ssa.Function:
		return "func:" + c.Name(x)
	case *ssa.Builtin:
		return "builtin:" + x.Name()
	case *ssa.Phi:
		// a loop-carried value refers to itself: the reference back reads "↺" instead of being unrolled to the depth limit
		if c.phiOn[x] {
			return "↺"
		}
		if c.phiOn == nil {
			c.phiOn = map[*ssa.Phi]bool{}
		}
		c.phiOn[x] = true
		defer delete(c.phiOn, x)
		var alts []string
		seen := map[string]bool{}
		for _, e := range x.Edges {
			if e == v {
				continue
			}
			// a merge of merges reads as one merge
			for _, p := range splitPhi(c.term(e, d+2)) {
				if !seen[p] {
					seen[p] = true
					alts = append(alts, p)
				}
			}
		}
		if len(alts) == 1 {
			return alts[0]
		}
		sort.Strings(alts)
		return "phi(" + strings.Join(alts, " / ") + ")"
	case *ssa.TypeAssert:
		return c.term(x.X, d+1) + ".(" + typeName(x.AssertedType) + ")"
	}
	return "?" + v.Name()
}

// localStore finds, for a load from a local Alloc, the unique store that reaches it: the last store before the load
// in its block, else the store that reaches the end of every predecessor (the same stored value on all of them). Only
// for variables whose address is used by nothing but plain loads and stores.
func localStore(load *ssa.UnOp) ssa.Value {
	al, ok := load.X.(*ssa.Alloc)
	if !ok {
		return nil
	}
	b := load.Block()
	idx := -1
	for i, in := range b.Instrs {
		if in == ssa.Instruction(load) {
			idx = i
			break
		}
	}
	for i := idx - 1; i >= 0; i-- {
		if st, ok := b.Instrs[i].(*ssa.Store); ok && st.Addr == ssa.Value(al) {
			return st.Val
		}
	}
	if al.Referrers() == nil {
		return nil
	}
	for _, r := range *al.Referrers() {
		switch x := r.(type) {
		case *ssa.Store:
			if x.Addr != ssa.Value(al) {
				return nil // the address itself is stored somewhere
			}
		case *ssa.UnOp:
		case *ssa.DebugRef:
		default:
			return nil // handed to a call or a closure
		}
	}
	seen := map[*ssa.BasicBlock]bool{b: true}
	var out func(bb *ssa.BasicBlock, d int) ssa.Value
	out = func(bb *ssa.BasicBlock, d int) ssa.Value {
		if d > 12 || seen[bb] {
			return nil
		}
		seen[bb] = true
		for i := len(bb.Instrs) - 1; i >= 0; i-- {
			if st, ok := bb.Instrs[i].(*ssa.Store); ok && st.Addr == ssa.Value(al) {
				return st.Val
			}
		}
		if len(bb.Preds) == 0 {
			return nil
		}
		var v ssa.Value
		for _, p := range bb.Preds {
			pv := out(p, d+1)
			if pv == nil || (v != nil && pv != v) {
				return nil
			}
			v = pv
		}
		return v
	}
	var v ssa.Value
	if len(b.Preds) == 0 {
		return nil
	}
	for _, p := range b.Preds {
		pv := out(p, 0)
		if pv == nil || (v != nil && pv != v) {
			return nil
		}
		v = pv
	}
	return v
}

// statusIndex returns the index of the status result of a signature: the last error result, else the
// bool result named like "ok", else the only bool result; -1 when there is none.
func statusIndex(sig *types.Signature) int {
	res := sig.Results()
	n := res.Len()
	for i := n - 1; i >= 0; i-- {
		if isErrorType(res.At(i).Type()) {
			return i
		}
	}
	okIdx, nbool, lastBool := -1, 0, -1
	for i := 0; i < n; i++ {
		if b, ok := res.At(i).Type().Underlying().(*types.Basic); ok && b.Kind() == types.Bool {
			nbool++
			lastBool = i
			nm := strings.ToLower(res.At(i).Name())
			if strings.Contains(nm, "ok") {
				okIdx = i
			}
		}
	}
	if okIdx >= 0 {
		return okIdx
	}
	if nbool == 1 {
		return lastBool
	}
	if nbool > 1 {
		return lastBool
	}
	return -1
}

func isErrorType(t types.Type) bool {
	n, ok := t.(*types.Named)
	return ok && n.Obj().Pkg() == nil && n.Obj().Name() == "error"
}

func isBoolType(t types.Type) bool {
	b, ok := t.Underlying().(*types.Basic)
	return ok && b.Kind() == types.Bool
}

func negOp(op token.Token) token.Token {
	switch op {
	case token.EQL:
		return token.NEQ
	case token.NEQ:
		return token.EQL
	case token.LSS:
		return token.GEQ
	case token.GEQ:
		return token.LSS
	case token.GTR:
		return token.LEQ
	case token.LEQ:
		return token.GTR
	}
	return token.ILLEGAL
}

func flipOp(op token.Token) token.Token {
	switch op {
	case token.LSS:
		return token.GTR
	case token.GTR:
		return token.LSS
	case token.LEQ:
		return token.GEQ
	case token.GEQ:
		return token.LEQ
	}
	return op
}

// cmpTerm renders a comparison with the given truth value in a canonical orientation
// (constant on the right; otherwise lexicographically smaller term on the left).
func (c *Ctx) cmpTerm(b *ssa.BinOp, truth bool) (string, bool) {
	op := b.Op
	switch op {
	case token.EQL, token.NEQ, token.LSS, token.LEQ, token.GTR, token.GEQ:
	default:
		return "", false
	}
	if !truth {
		op = negOp(op)
	}
	l, r := c.Term(b.X), c.Term(b.Y)
	_, lc := b.X.(*ssa.Const)
	_, rc := b.Y.(*ssa.Const)
	if (lc && !rc) || (!lc && !rc && r < l) {
		l, r = r, l
		op = flipOp(op)
	}
	return "(" + l + " " + op.String() + " " + r + ")", true
}

// spilledParam: a local Alloc that only holds a by-value parameter (go/ssa spills value receivers whose
// address is taken); returns that parameter.
func spilledParam(a *ssa.Alloc) *ssa.Parameter {
	if a.Referrers() == nil {
		return nil
	}
	var p *ssa.Parameter
	n := 0
	for _, r := range *a.Referrers() {
		if st, ok := r.(*ssa.Store); ok && st.Addr == ssa.Value(a) {
			n++
			if pp, ok := st.Val.(*ssa.Parameter); ok {
				p = pp
			}
		}
	}
	if n == 1 && p != nil {
		return p
	}
	return nil
}

// canonCmp renders "l op r" for two non-constant terms in the orientation cmpTerm uses.
func canonCmp(l, op, r string) string {
	flip := map[string]string{"<": ">", ">": "<", "<=": ">=", ">=": "<=", "==": "==", "!=": "!="}
	if r < l {
		l, r = r, l
		op = flip[op]
	}
	return "(" + l + " " + op + " " + r + ")"
}

// resolveLocal: a load from a local variable with a unique reaching store in the same block → the stored value.
func resolveLocal(v ssa.Value) ssa.Value {
	if u, ok := v.(*ssa.UnOp); ok && u.Op == token.MUL {
		if sv := localStore(u); sv != nil {
			return sv
		}
	}
	return v
}

// Parameter names in terms. The rules were written against the parameter names of the tree they were developed on;
// renaming a parameter is not a change of behaviour, so a parameter is rendered by the name recorded for its
// position in frozenParams (paramnames_gen.go, regenerated only deliberately with -genparams) and by its current
// name only when the function or the position is not in the table (a new function, a changed signature).
func (c *Ctx) paramName(p *ssa.Parameter) string {
	f := p.Parent()
	if f != nil {
		if names, ok := frozenParams[c.Name(f)]; ok && len(names) == len(f.Params) {
			for i, q := range f.Params {
				if q == p {
					return names[i]
				}
			}
		}
	}
	return p.Name()
}

func (c *Ctx) freeVarName(v *ssa.FreeVar) string {
	f := v.Parent()
	if f != nil {
		if names, ok := frozenParams[c.Name(f)+"#free"]; ok && len(names) == len(f.FreeVars) {
			for i, q := range f.FreeVars {
				if q == v {
					return names[i]
				}
			}
		}
	}
	return v.Name()
}

func genParamNames(c *Ctx) {
	fmt.Println("// Code generated by otrcheck -genparams; parameter names of the tree the rules were written against. DO NOT EDIT.")
	fmt.Println()
	fmt.Println("package main")
	fmt.Println()
	fmt.Println("var frozenParams = map[string][]string{")
	var lines []string
	for _, f := range c.FuncSeq {
		if len(f.Params) == 0 && f.Blocks != nil {
			lines = append(lines, fmt.Sprintf("\t%q: {},", c.Name(f)))
		}
		if len(f.Params) > 0 {
			var n []string
			for _, p := range f.Params {
				n = append(n, fmt.Sprintf("%q", p.Name()))
			}
			lines = append(lines, fmt.Sprintf("\t%q: {%s},", c.Name(f), strings.Join(n, ", ")))
		}
		if len(f.FreeVars) > 0 {
			var n []string
			for _, p := range f.FreeVars {
				n = append(n, fmt.Sprintf("%q", p.Name()))
			}
			lines = append(lines, fmt.Sprintf("\t%q: {%s},", c.Name(f)+"#free", strings.Join(n, ", ")))
		}
	}
	sort.Strings(lines)
	for _, l := range lines {
		fmt.Println(l)
	}
	fmt.Println("}")
}

// ---- functions that did not exist when the rules were written -------------------------------------------------
//
// A function that is not in frozenParams is new: typically a helper extracted from a function the rules are anchored
// on. Moving code into a helper is not a change of behaviour, so such helpers are looked through: their parameters
// render as the caller's arguments (one call site) and a call of a straight-line, effect-free one renders as its
// result expression; facts established before the call hold inside; who-may tables treat the helper as its caller.

func (c *Ctx) isNew(f *ssa.Function) bool {
	if f == nil || f.Blocks == nil || !c.IsLib(f) || f.Synthetic != "" {
		return false
	}
	_, known := frozenParams[c.alias(f)]
	return !known
}

// alias: the name under which a function is known to the frozen tables. A function that is not in them but carries
// the simple name of exactly one function of the reviewed tree that no longer exists is that function under a new
// receiver (a function turned into a method or the reverse, a receiver type renamed): the old name.
func (c *Ctx) alias(f *ssa.Function) string {
	n := c.Name(f)
	if _, known := frozenParams[n]; known || f.Parent() != nil {
		return n
	}
	if c.aliases == nil {
		c.aliases = map[*ssa.Function]string{}
	}
	if a, ok := c.aliases[f]; ok {
		return a
	}
	base := func(s string) string {
		if i := strings.LastIndex(s, "."); i >= 0 {
			return s[i+1:]
		}
		return s
	}
	var cands []string
	for old := range frozenParams {
		if strings.HasSuffix(old, "#free") || strings.Contains(old, "$") || base(old) != f.Name() {
			continue
		}
		if _, still := c.Funcs[old]; still {
			continue
		}
		cands = append(cands, old)
	}
	res := n
	if len(cands) == 1 {
		// and no other new function claims the same old name
		others := 0
		for _, g := range c.FuncSeq {
			if g != f && g.Parent() == nil && g.Name() == f.Name() {
				if _, known := frozenParams[c.Name(g)]; !known {
					others++
				}
			}
		}
		if others == 0 {
			res = cands[0]
		}
	}
	c.aliases[f] = res
	return res
}

// soleCall: the only call site (in the two packages) of a new function; nil when there are several, none, or the
// function is used as a value.
func (c *Ctx) soleCall(f *ssa.Function) ssa.CallInstruction {
	if c.soleCalls == nil {
		c.soleCalls = map[*ssa.Function]ssa.CallInstruction{}
		count := map[*ssa.Function]int{}
		for _, g := range c.FuncSeq {
			for _, b := range g.Blocks {
				for _, in := range b.Instrs {
					// used as a value?
					for _, op := range in.Operands(nil) {
						if op == nil || *op == nil {
							continue
						}
						if fv, ok := (*op).(*ssa.Function); ok {
							if call, isCall := in.(ssa.CallInstruction); isCall && call.Common().Value == ssa.Value(fv) && !call.Common().IsInvoke() {
								continue
							}
							count[fv] += 2
						}
					}
					call, ok := in.(ssa.CallInstruction)
					if !ok {
						continue
					}
					if sc := call.Common().StaticCallee(); sc != nil {
						count[sc]++
						c.soleCalls[sc] = call
					}
				}
			}
		}
		for f, n := range count {
			if n != 1 {
				delete(c.soleCalls, f)
			}
		}
	}
	if !c.isNew(f) {
		return nil
	}
	return c.soleCalls[f]
}

// owner: the function a new single-call-site helper belongs to (itself otherwise).
func (c *Ctx) owner(f *ssa.Function) *ssa.Function {
	for i := 0; i < 4 && f != nil; i++ {
		cs := c.soleCall(f)
		if cs == nil {
			return f
		}
		f = cs.Parent()
	}
	return f
}

// within: the instruction lies in fn, or in a new helper that is (transitively) called only from fn.
func (c *Ctx) within(in ssa.Instruction, fn *ssa.Function) bool {
	return in.Parent() == fn || c.owner(in.Parent()) == fn
}

type termEnv struct {
	bind map[*ssa.Parameter]ssa.Value
	up   *termEnv
}

// inlinable: a new function whose body is one straight-line block without effects, returning one value.
func (c *Ctx) inlinable(f *ssa.Function) ssa.Value {
	if f == nil || len(f.Blocks) != 1 || len(f.FreeVars) > 0 {
		return nil
	}
	if !c.isNew(f) && !c.arithOld(f) {
		return nil
	}
	var ret *ssa.Return
	for _, in := range f.Blocks[0].Instrs {
		switch x := in.(type) {
		case *ssa.Return:
			ret = x
		case *ssa.Store:
			// only the spill of a value parameter into its local
			al, ok := x.Addr.(*ssa.Alloc)
			if !ok || spilledParam(al) == nil {
				return nil
			}
		case *ssa.Call:
			if _, isB := x.Call.Value.(*ssa.Builtin); !isB {
				g := x.Call.StaticCallee()
				if g == nil || (c.inlinable(g) == nil && !c.pureNumeric(g)) {
					return nil
				}
			}
		case *ssa.MapUpdate, *ssa.Send, *ssa.Go, *ssa.Defer, *ssa.Panic, *ssa.RunDefers:
			return nil
		}
	}
	if ret == nil || len(ret.Results) != 1 {
		return nil
	}
	return ret.Results[0]
}

// arithOld: a reviewed function of the library that only names an expression over its parameters — one straight-line
// block of arithmetic, comparisons, conversions, slicing and builtins, no call of anything else, no store: fragmentStart(i,
// n) = i*n. Calling it and writing the expression out are the same thing, so it is rendered as the expression.
func (c *Ctx) arithOld(f *ssa.Function) bool {
	if c.arith == nil {
		c.arith = map[*ssa.Function]bool{}
	}
	if v, ok := c.arith[f]; ok {
		return v
	}
	c.arith[f] = false
	if !c.IsLib(f) || len(f.Blocks) != 1 || len(f.FreeVars) > 0 || f.Signature.Results().Len() != 1 || f.Recover != nil || f.Signature.Recv() != nil {
		return false
	}
	if isBoolType(f.Signature.Results().At(0).Type()) {
		return false // predicates keep their names: the rules and the facts speak of them
	}
	if len(f.Params) == 0 || f.Name() == "fragmentData" {
		return false // constructors of empty values, and the splitter the fragment rules are anchored on, keep their names
	}
	switch t := f.Signature.Results().At(0).Type().Underlying().(type) {
	case *types.Basic:
	case *types.Slice:
		if b, ok := t.Elem().Underlying().(*types.Basic); !ok || b.Kind() != types.Byte {
			return false
		}
	default:
		return false
	}
	for _, in := range f.Blocks[0].Instrs {
		switch x := in.(type) {
		case *ssa.BinOp, *ssa.Slice, *ssa.Convert, *ssa.ChangeType, *ssa.Return, *ssa.DebugRef:
		case *ssa.UnOp:
			if x.Op == token.MUL || x.Op == token.ARROW {
				if _, isG := x.X.(*ssa.Global); !isG {
					return false
				}
			}
		case *ssa.Call:
			if _, isB := x.Call.Value.(*ssa.Builtin); !isB {
				g := x.Call.StaticCallee()
				if g == nil || g == f || (!c.arithOld(g) && !c.pureNumeric(g)) {
					return false
				}
			}
		default:
			return false
		}
	}
	c.arith[f] = true
	return true
}

// pureNumeric: a function of the library over numbers only (min, max): parameters and result of basic type, nothing but
// arithmetic, comparisons and branches inside.
func (c *Ctx) pureNumeric(f *ssa.Function) bool {
	if !c.IsLib(f) || len(f.FreeVars) > 0 || f.Signature.Results().Len() != 1 || f.Recover != nil || f.Signature.Recv() != nil {
		return false
	}
	basic := func(t types.Type) bool {
		b, ok := t.Underlying().(*types.Basic)
		return ok && b.Info()&types.IsNumeric != 0
	}
	if !basic(f.Signature.Results().At(0).Type()) {
		return false
	}
	for _, p := range f.Params {
		if !basic(p.Type()) {
			return false
		}
	}
	for _, b := range f.Blocks {
		for _, in := range b.Instrs {
			switch x := in.(type) {
			case *ssa.BinOp, *ssa.Convert, *ssa.Return, *ssa.DebugRef, *ssa.If, *ssa.Jump, *ssa.Phi:
			case *ssa.UnOp:
				if x.Op == token.MUL || x.Op == token.ARROW {
					return false
				}
			default:
				return false
			}
		}
	}
	return true
}

// lookThrough: what a parameter of a new function stands for: the argument bound by the call being inlined in the
// current rendering (with the environment of that call's context), else the argument at the function's only call site.
func (c *Ctx) lookThrough(p *ssa.Parameter) (ssa.Value, *termEnv, bool) {
	for e := c.tenv; e != nil; e = e.up {
		if b, ok := e.bind[p]; ok {
			return b, e.up, true
		}
	}
	if cs := c.soleCall(p.Parent()); cs != nil {
		args := cs.Common().Args
		if i := paramIndex(p); i >= 0 && i < len(args) && !cs.Common().IsInvoke() {
			return args[i], nil, true
		}
	}
	return nil, nil, false
}

// resolveParam: a parameter of a new single-use helper stands for the argument at its call site.
func (c *Ctx) resolveParam(v ssa.Value) ssa.Value {
	for i := 0; i < 4; i++ {
		p, ok := v.(*ssa.Parameter)
		if !ok {
			return v
		}
		cs := c.soleCall(p.Parent())
		if cs == nil || cs.Common().IsInvoke() {
			return v
		}
		args := cs.Common().Args
		idx := paramIndex(p)
		if idx < 0 || idx >= len(args) {
			return v
		}
		v = resolveLocal(args[idx])
	}
	return v
}

// localCopyOf: the address a struct-typed local was copied from, when its only whole-variable store is `local = *addr`
// and nothing else writes the local as a whole.
func localCopyOf(al *ssa.Alloc) ssa.Value {
	if al.Referrers() == nil {
		return nil
	}
	if _, isStruct := al.Type().Underlying().(*types.Pointer).Elem().Underlying().(*types.Struct); !isStruct {
		return nil
	}
	var src ssa.Value
	n := 0
	for _, r := range *al.Referrers() {
		if st, ok := r.(*ssa.Store); ok && st.Addr == ssa.Value(al) {
			n++
			if ld, isLd := st.Val.(*ssa.UnOp); isLd && ld.Op == token.MUL {
				src = ld.X
			}
		}
	}
	if n != 1 {
		return nil
	}
	return src
}

// helperResult: result idx of a call of a new single-use helper, as a value of the helper's body, when every return of
// the helper that does not hand back a zero value for it returns the same value there.
func (c *Ctx) helperResult(call *ssa.Call, idx int) ssa.Value {
	if rvs := c.helperResults(call, idx); len(rvs) == 1 {
		return rvs[0]
	}
	return nil
}

// splitPhi: the alternatives of a term that is a merge as a whole ("phi(a / b)"), else the term itself.
func splitPhi(t string) []string {
	if !strings.HasPrefix(t, "phi(") || !strings.HasSuffix(t, ")") {
		return []string{t}
	}
	body := t[4 : len(t)-1]
	var out []string
	depth, start := 0, 0
	for i := 0; i < len(body); i++ {
		switch body[i] {
		case '(', '[', '{':
			depth++
		case ')', ']', '}':
			depth--
			if depth < 0 {
				return []string{t} // "phi(a) op (b)": not a merge as a whole
			}
		case ' ':
			if depth == 0 && strings.HasPrefix(body[i:], " / ") {
				out = append(out, body[start:i])
				start = i + 3
				i += 2
			}
		}
	}
	out = append(out, body[start:])
	return out
}

// helperResults: the distinct values a new single-use helper returns at a result position. A nil or zero constant counts
// only when the helper has no status result (error or bool as its last result) that would mark that return as failing.
func (c *Ctx) helperResults(call *ssa.Call, idx int) []ssa.Value {
	g := call.Call.StaticCallee()
	if g == nil || !c.isNew(g) || c.soleCall(g) != ssa.CallInstruction(call) || g.Recover != nil {
		return nil
	}
	res := g.Signature.Results()
	status := false
	if n := res.Len(); n > 0 {
		lt := res.At(n - 1).Type()
		if lt.String() == "error" {
			status = true
		} else if b, ok := lt.Underlying().(*types.Basic); ok && b.Kind() == types.Bool && n > 1 {
			status = true
		}
	}
	var out []ssa.Value
	var zero ssa.Value
	seen := map[ssa.Value]bool{}
	for _, b := range g.Blocks {
		r, ok := b.Instrs[len(b.Instrs)-1].(*ssa.Return)
		if !ok || idx >= len(r.Results) || (b != g.Blocks[0] && len(b.Preds) == 0) {
			continue
		}
		v := resolveLocal(r.Results[idx])
		if k, isK := v.(*ssa.Const); isK && (k.Value == nil || k.IsNil()) && status {
			zero = v // counts only when nothing else is ever returned there
			continue
		}
		if !seen[v] {
			seen[v] = true
			out = append(out, v)
		}
	}
	if len(out) == 0 && zero != nil {
		return []ssa.Value{zero}
	}
	return out
}

// throughHelper: a value that is a result of a new single-use helper stands for what the helper returns there; a
// parameter of such a helper for the argument it is called with.
func (c *Ctx) throughHelper(v ssa.Value) ssa.Value {
	for i := 0; i < 6; i++ {
		v = resolveLocal(v)
		switch x := v.(type) {
		case *ssa.Extract:
			if call, ok := x.Tuple.(*ssa.Call); ok {
				if rv := c.helperResult(call, x.Index); rv != nil {
					v = rv
					continue
				}
			}
		case *ssa.Call:
			if rv := c.helperResult(x, 0); rv != nil && x.Call.StaticCallee() != nil && x.Call.StaticCallee().Signature.Results().Len() == 1 {
				v = rv
				continue
			}
		case *ssa.Parameter:
			if arg, _, ok := c.lookThrough(x); ok {
				v = arg
				continue
			}
		}
		break
	}
	return v
}
