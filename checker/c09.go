package main

import (
	"fmt"
	"strings"

	"golang.org/x/tools/go/ssa"
)

func init() {
	register("C09", "Structural clause decided: the disclosure queue (oldMACKeys) is written only by the two retire functions, the drain and the wipes; what is queued are the receiving MAC keys recorded for key id (current-1) on the respective axis, computed before the id is incremented and only under the guard that the message acknowledges/uses the newest key; every record matching the retired id is both returned and deleted; every emitted data message takes the whole queue (and empties it) and serialises all of it as one DATA field after the MAC; the history records the receiving (not the sending) MAC key under the ids of the pair it was computed for. Not decided: the joint two-party claim beyond the local retirement order; disclosure of keys still live when a session is replaced or ended.",
		func(a *An) {
			a.c09Writers()
			a.retireOrder("S.retire-order")
			a.c09Forget()
			a.c09Emit()
			a.c09More()
			a.drainUnconditional("S.drain")
			a.drainedKeysGoOut("S.drained-emitted")
			a.everySignedMessageDrains("S.drain")
			a.addKeysSearchesAll("P.forget")
			// a disclosed key is one we no longer accept: acceptance of a data message is behind the test that both key ids
			// are current or previous (a pair retired on either axis fails it), and that test accepts exactly id and id-1
			if cs := a.MustFn("(dataMsg).checkSign"); cs != nil {
				cnt := map[string]int{}
				for _, site := range a.CallSites(cs) {
					a.Gate("G.accept-current-keys", ordinalKey(a.C.Name(a.C.owner(site.Parent()))+"|call checkSign", cnt), site, "verification of a data message", "ok:(*keyManagementContext).pickOurKeys", "ok:(*keyManagementContext).pickTheirKey")
				}
			}
			for _, sink := range []string{"(*Conversation).processTLVs", "(*plainDataMsg).decrypt"} {
				cnt := map[string]int{}
				for _, site := range a.CallSites(a.MustFn(sink)) {
					a.Gate("G.accept-current-keys", ordinalKey(a.C.Name(a.C.owner(site.Parent()))+"|call "+sink, cnt), site, "acceptance of a data message", "ok:(*keyManagementContext).pickOurKeys", "ok:(*keyManagementContext).pickTheirKey", "ok:(dataMsg).checkSign")
				}
			}
			a.pickKeysTable()
		})
}

func (a *An) c09Writers() {
	a.WhoMayWriteDirect("W.disclosure-queue", a.MustField("keyManagementContext", "oldMACKeys"),
		"(*keyManagementContext).revealMACKeysForOurPreviousKeyID", "(*keyManagementContext).revealMACKeysForTheirPreviousKeyID",
		"(*keyManagementContext).revealMACKeys", "(*keyManagementContext).wipe", "(*keyManagementContext).wipeAndKeepRevealKeys")
	a.R.Floor("W.disclosure-queue", 4)
	a.WhoMayCall("W.mac-history", a.MustFn("(*macKeyHistory).addKeys"), "(*keyManagementContext).calculateDHSessionKeys")
	a.WhoMayCall("W.mac-history", a.MustFn("(*keyManagementContext).revealMACKeysForOurPreviousKeyID"), "(*keyManagementContext).rotateOurKeys")
	a.WhoMayCall("W.mac-history", a.MustFn("(*keyManagementContext).revealMACKeysForTheirPreviousKeyID"), "(*keyManagementContext).rotateTheirKey")
	a.WhoMayCall("W.mac-history", a.MustFn("(*macKeyHistory).forgetMACKeysForOurKey"), "(*keyManagementContext).revealMACKeysForOurPreviousKeyID")
	a.WhoMayCall("W.mac-history", a.MustFn("(*macKeyHistory).forgetMACKeysForTheirKey"), "(*keyManagementContext).revealMACKeysForTheirPreviousKeyID")
	// records leave the history only through the two retire functions (which queue them for disclosure) and the wipes
	a.WhoMayCall("W.mac-history", a.MustFn("(*macKeyHistory).deleteKeysAt"), "(*macKeyHistory).forgetMACKeysForOurKey", "(*macKeyHistory).forgetMACKeysForTheirKey")
	a.WhoMayWriteDirect("W.mac-history", a.MustField("macKeyHistory", "items"), "(*macKeyHistory).addKeys", "(*macKeyHistory).deleteKeysAt", "(*macKeyHistory).wipe")
	// MAC key bytes are zeroed only by the wipes of their containers (the recorded key shares its backing array with
	// the freshly computed session keys, so zeroing a computed key zeroes the record that is disclosed later)
	a.WhoMayCall("W.mac-wipe", a.MustFn("(*macKey).wipe"), "(*keyManagementContext).wipe", "(*macKeyUsage).wipe", "(*akeKeys).wipe")
	a.WhoMayCall("W.mac-wipe", a.MustFn("(*macKeyUsage).wipe"), "(*macKeyHistory).wipe")
	a.WhoMayCall("W.mac-wipe", a.MustFn("(*macKeyHistory).wipe"), "(*keyManagementContext).wipe")
	a.macKeyByteWipes("W.mac-wipe")
	a.R.Floor("W.mac-history", 8)
	a.R.Floor("W.mac-wipe", 3)
}

// macKeyByteWipes: direct zeroing (wipeBytes, clear-style helpers) of a value of type macKey or of a MAC key field of
// the computed session keys happens nowhere but in (*macKey).wipe.
func (a *An) macKeyByteWipes(rule string) {
	R := a.R
	for _, f := range a.C.FuncSeq {
		if f.Blocks == nil {
			continue
		}
		fn := a.C.Name(f)
		for _, b := range f.Blocks {
			for _, in := range b.Instrs {
				call, ok := in.(ssa.CallInstruction)
				if !ok {
					continue
				}
				isWipe := false
				for _, g := range a.C.Callees(call) {
					if wipePrims[a.C.Name(a.C.unwrap(g))] {
						isWipe = true
					}
				}
				if !isWipe || len(call.Common().Args) == 0 {
					continue
				}
				arg := call.Common().Args[0]
				// look through the conversion []byte(macKey)
				for {
					if cv, isC := arg.(*ssa.ChangeType); isC {
						arg = cv.X
						continue
					}
					if cv, isC := arg.(*ssa.Convert); isC {
						arg = cv.X
						continue
					}
					break
				}
				t := arg.Type().String()
				term := a.C.Term(arg)
				if !strings.HasSuffix(t, ".macKey") && !strings.Contains(term, "MACKey") && !strings.Contains(term, "receivingKey") {
					continue
				}
				R.Check(fn == "(*macKey).wipe", rule, "bytes|"+fn, "MAC key bytes are zeroed only by (*macKey).wipe", a.C.InstrPos(in), fn+" zeroes "+term)
			}
		}
	}
}

// retireOrder: on both axes the generation (current-1) is retired before the id moves on, under the right guard.
func (a *An) retireOrder(rule string) {
	R := a.R
	for _, ax := range []struct{ reveal, forget, id, rotate, guardArg string }{
		{"(*keyManagementContext).revealMACKeysForOurPreviousKeyID", "(*macKeyHistory).forgetMACKeysForOurKey", "ourKeyID", "(*keyManagementContext).rotateOurKeys", "$recipientKeyID"},
		{"(*keyManagementContext).revealMACKeysForTheirPreviousKeyID", "(*macKeyHistory).forgetMACKeysForTheirKey", "theirKeyID", "(*keyManagementContext).rotateTheirKey", "$senderKeyID"},
	} {
		rv := a.MustFn(ax.reveal)
		rot := a.MustFn(ax.rotate)
		if rv == nil || rot == nil {
			continue
		}
		retired := "(keyManagementContext." + ax.id + " - 1)"
		if c := a.uniqueCall(rule, rv, ax.forget); c != nil {
			a.TermIs(rule, ax.reveal+"|retired-id", "retired generation", c, c.Call.Args[1], retired)
			// the queue is extended by exactly what was forgotten
			fld := a.MustField("keyManagementContext", "oldMACKeys")
			n := 0
			for _, st := range a.DirectStoresTo(fld) {
				if !a.C.within(st, rv) {
					continue
				}
				n++
				t := a.C.Term(st.Val)
				R.Check(t == "append(keyManagementContext.oldMACKeys, "+a.C.Term(c)+")", rule, ax.reveal+"|queued", "the forgotten keys are appended to the disclosure queue", a.C.InstrPos(st), "stores "+t)
			}
			R.Check(n == 1, rule, ax.reveal+"|queue-store", "one store to the queue", a.C.Pos(rv.Pos()), fmt.Sprintf("%d", n))
		}
		// counters of the retired generation go with it, identified by the same (pre-increment) id
		for _, cs := range a.CallsIn(rv, "(*counterHistory).forgetCounters") {
			cl, ok := cs.Common().Args[1].(*ssa.MakeClosure)
			if !ok {
				R.Undec(rule, ax.reveal+"|counter-predicate", "retire predicate is a closure over the retired id", a.C.InstrPos(cs), a.C.Term(cs.Common().Args[1]))
				continue
			}
			bound := ""
			if len(cl.Bindings) == 1 {
				bound = a.C.Term(cl.Bindings[0])
				if al, isAl := cl.Bindings[0].(*ssa.Alloc); isAl && al.Referrers() != nil {
					var vals []string
					for _, ref := range *al.Referrers() {
						if st, isSt := ref.(*ssa.Store); isSt && st.Addr == ssa.Value(al) {
							vals = append(vals, a.C.Term(st.Val))
						}
					}
					if len(vals) == 1 {
						bound = vals[0]
					}
				}
			}
			R.Check(bound == retired, rule, ax.reveal+"|counter-retired-id", "counters are retired for the same generation (current-1)", a.C.InstrPos(cs), "closure binds "+bound)
			if f, isF := cl.Fn.(*ssa.Function); isF {
				for _, r := range a.returnsOf(f) {
					t := a.C.Term(r.Results[0])
					R.Check(strings.Contains(t, "keyPairCounter."+ax.id) && strings.Contains(t, "free:retiredID") && strings.Contains(t, "=="), rule, ax.reveal+"|counter-predicate", "the predicate matches the counter's id on this axis with the retired id", a.C.InstrPos(r), "predicate "+t)
				}
			}
		}
		// in the rotate function: guard, and the retire step precedes everything that moves the id
		guard := "passed:" + canonCmp(ax.guardArg, "==", "keyManagementContext."+ax.id)
		rc := a.uniqueCall(rule, rot, ax.reveal)
		if rc == nil {
			continue
		}
		a.GateLocal(rule, ax.rotate+"|guard", rc, "retiring a generation", guard)
		idFld := a.MustField("keyManagementContext", ax.id)
		moved := 0
		for _, b := range rot.Blocks {
			for _, in := range b.Instrs {
				moves := false
				for _, ef := range a.E.InstrEffects(in) {
					if a.C.abs(rot, ef.Path) == "keyManagementContext."+ax.id {
						moves = true
					}
				}
				if !moves || in == ssa.Instruction(rc) {
					continue
				}
				moved++
				desc := "store"
				if call, ok := in.(ssa.CallInstruction); ok {
					desc = a.F.callName(call)
				}
				R.Check(instrDominates(rc, in), rule, ax.rotate+"|retire-before-increment|"+desc, "the old generation is retired before the key id is incremented", a.C.InstrPos(in), "the id is moved by "+desc+" without the retire step before it")
				// and nothing retires after the id moved
				for _, b2 := range rot.Blocks {
					for _, in2 := range b2.Instrs {
						if in2 == in || in2 == ssa.Instruction(rc) {
							continue
						}
						touches := false
						for _, ef := range a.E.InstrEffects(in2) {
							abs := a.C.abs(rot, ef.Path)
							if strings.HasPrefix(abs, "keyManagementContext.macKeyHistory") || strings.HasPrefix(abs, "keyManagementContext.counterHistory") || strings.HasPrefix(abs, "keyManagementContext.oldMACKeys") {
								touches = true
							}
						}
						if touches && canReach(in, in2) {
							d2 := "store"
							if call, ok := in2.(ssa.CallInstruction); ok {
								d2 = a.F.callName(call)
							}
							R.Viol(rule, ax.rotate+"|retire-after-increment|"+d2, "no history/queue update happens after the id moved (it would address the wrong generation)", a.C.InstrPos(in2), d2+" updates the histories after "+desc+" incremented the id")
						}
					}
				}
			}
		}
		_ = idFld
		R.Check(moved >= 1, rule, ax.rotate+"|moves-id", "the rotate function moves the key id", a.C.Pos(rot.Pos()), "no instruction changes "+ax.id)
	}
	R.Floor(rule, 10)
}

func (a *An) c09Forget() {
	R := a.R
	rule := "P.forget"
	for _, ax := range []struct{ fn, fld, arg string }{
		{"(*macKeyHistory).forgetMACKeysForOurKey", "ourKeyID", "$ourKeyID"},
		{"(*macKeyHistory).forgetMACKeysForTheirKey", "theirKeyID", "$theirKeyID"},
	} {
		fn := a.MustFn(ax.fn)
		if fn == nil {
			continue
		}
		var appRet, appDel *ssa.Call
		for _, b := range fn.Blocks {
			for _, in := range b.Instrs {
				call, ok := in.(*ssa.Call)
				if !ok {
					continue
				}
				if bi, isB := call.Call.Value.(*ssa.Builtin); isB && bi.Name() == "append" {
					if strings.Contains(call.Type().String(), "macKey") {
						appRet = call
					} else {
						appDel = call
					}
				}
			}
		}
		if appRet == nil || appDel == nil {
			R.Viol(rule, ax.fn+"|appends", "matching records are collected and marked for deletion", a.C.Pos(fn.Pos()), "append sites not found")
			continue
		}
		R.Check(appRet.Block() == appDel.Block(), rule, ax.fn+"|same-branch", "every record that is returned is also deleted (same branch)", a.C.InstrPos(appRet), "the two appends are in different branches")
		fs := a.F.LocalAt(appRet)
		found := false
		for _, f := range fs.List() {
			if strings.HasPrefix(f, "passed:(") && strings.Contains(f, " == ") && strings.Contains(f, ax.arg) && strings.Contains(f, "."+ax.fld) {
				found = true
			}
		}
		R.Check(found, rule, ax.fn+"|match", "records are selected by equality of the id on this axis with the retired id", a.C.InstrPos(appRet), "facts: "+strings.Join(filterFacts(fs.List()), "; "))
		if elems := a.C.variadicElems(appRet.Call.Args[1]); len(elems) == 1 {
			R.Check(strings.HasSuffix(a.C.Term(elems[0]), ".receivingKey"), rule, ax.fn+"|what", "the receiving MAC key of the record is returned", a.C.InstrPos(appRet), "returns "+a.C.Term(elems[0]))
		} else {
			R.Viol(rule, ax.fn+"|what", "exactly the receiving MAC key of the record is returned", a.C.InstrPos(appRet), "returns "+a.C.Term(appRet.Call.Args[1])+": anything else that is disclosed (a sending MAC key, say) lets a reader of the wire forge messages the peer still accepts")
		}
		if c := a.uniqueCall(rule, fn, "(*macKeyHistory).deleteKeysAt"); c != nil {
			for _, r := range a.returnsOf(fn) {
				R.Check(instrDominates(c, r), rule, ax.fn+"|delete", "the collected records are deleted before returning", a.C.InstrPos(r), "return not dominated by deleteKeysAt")
			}
		}
	}
	// what is recorded
	if fn := a.MustFn("(*keyManagementContext).calculateDHSessionKeys"); fn != nil {
		if c := a.uniqueCall(rule, fn, "(*macKeyHistory).addKeys"); c != nil {
			a.TermIs(rule, "calculateDHSessionKeys|record-our", "recorded our id", c, c.Call.Args[1], "$ourKeyID")
			a.TermIs(rule, "calculateDHSessionKeys|record-their", "recorded their id", c, c.Call.Args[2], "$theirKeyID")
			R.Check(strings.HasSuffix(a.C.Term(c.Call.Args[3]), ".receivingMACKey"), rule, "calculateDHSessionKeys|record-key", "the recorded key is the receiving MAC key", a.C.InstrPos(c), "records "+a.C.Term(c.Call.Args[3]))
		}
	}
	R.Floor(rule, 9)
}

func (a *An) c09Emit() {
	R := a.R
	rule := "P.disclose"
	if fn := a.MustFn("(*keyManagementContext).revealMACKeys"); fn != nil {
		for _, r := range a.returnsOf(fn) {
			a.TermIs(rule, "revealMACKeys|returns", "the whole queue is handed out", r, r.Results[0], "keyManagementContext.oldMACKeys")
		}
		n := 0
		for _, st := range a.DirectStoresTo(a.MustField("keyManagementContext", "oldMACKeys")) {
			if !a.C.within(st, fn) {
				continue
			}
			n++
			t := a.C.Term(st.Val)
			R.Check(!strings.Contains(t, "oldMACKeys"), rule, "revealMACKeys|drain", "the queue is replaced by an empty one", a.C.InstrPos(st), "stores "+t)
		}
		R.Check(n == 1, rule, "revealMACKeys|drain-store", "the drain empties the queue", a.C.Pos(fn.Pos()), fmt.Sprintf("%d stores", n))
	}
	if fn := a.MustFn("(*Conversation).genDataMsgWithFlag"); fn != nil {
		if c := a.uniqueCall(rule, fn, "(*keyManagementContext).revealMACKeys"); c != nil {
			a.TermIs(rule, "genDataMsgWithFlag|queue", "queue drained", c, c.Call.Args[0], "&Conversation.keys")
			used := false
			for _, ref := range *c.Referrers() {
				if st, ok := ref.(*ssa.Store); ok {
					if fa, isFA := st.Addr.(*ssa.FieldAddr); isFA && fieldOf(fa).Name() == "oldMACKeys" {
						used = true
					}
				}
			}
			R.Check(used, rule, "genDataMsgWithFlag|disclosed", "the drained keys become the message's disclosed keys", a.C.InstrPos(c), "the result of revealMACKeys is not stored into dataMsg.oldMACKeys")
		}
	}
	a.WhoMayCall("W.drain", a.MustFn("(*keyManagementContext).revealMACKeys"), "(*Conversation).genDataMsgWithFlag")
	a.serializeAllDisclosedKeys(rule)
	R.Floor(rule, 6)
}

// c09More: rules added after seeded changes C09-v1..v3.
func (a *An) c09More() {
	R := a.R
	// (1) the disclosed keys of an outgoing message are set once, from the drained queue, and not touched again
	fld := a.MustField("dataMsg", "oldMACKeys")
	if fld != nil {
		for _, st := range a.StoresTo(fld) {
			fn := a.C.Name(a.C.owner(st.Parent()))
			if _, direct := st.Addr.(*ssa.FieldAddr); !direct {
				continue // whole-struct stores (construction / copies)
			}
			switch fn {
			case "(*Conversation).genDataMsgWithFlag":
				R.Check(strings.HasPrefix(a.C.Term(st.Val), "(*keyManagementContext).revealMACKeys("), "W.disclosed", "write|dataMsg.oldMACKeys|"+fn, "the disclosed keys of a message are the drained queue", a.C.InstrPos(st), "stores "+a.C.Term(st.Val))
			case "(*dataMsg).deserialize":
				R.Ok("W.disclosed", "write|dataMsg.oldMACKeys|"+fn, "parser fills the received keys", a.C.InstrPos(st))
			default:
				R.Viol("W.disclosed", "write|dataMsg.oldMACKeys|"+fn, "only the message generator (from the drained queue) and the parser write a message's disclosed keys", a.C.InstrPos(st),
					fn+" overwrites the disclosed keys of a message after the queue was already drained: those keys are never disclosed")
			}
		}
		R.Floor("W.disclosed", 2)
	}
	// (2) one record per key pair: the duplicate test of addKeys compares both ids of the record with both arguments
	if fn := a.MustFn("(*macKeyHistory).addKeys"); fn != nil {
		ok := false
		for _, r := range a.returnsOf(fn) {
			fs := a.F.LocalAt(r)
			our, their := false, false
			for _, f := range fs.List() {
				if strings.HasPrefix(f, "passed:(") && strings.Contains(f, " == ") {
					if strings.Contains(f, "$ourKeyID") && strings.Contains(f, ".ourKeyID") {
						our = true
					}
					if strings.Contains(f, "$theirKeyID") && strings.Contains(f, ".theirKeyID") {
						their = true
					}
				}
			}
			if our && their {
				ok = true
			}
		}
		R.Check(ok, "P.forget", "addKeys|per-pair", "a key pair already recorded is recognised by both of its ids (so every distinct pair gets its record and its key is disclosed later)", a.C.Pos(fn.Pos()),
			"no early return under equality of both the record's our/their ids with the arguments")
	}
	a.retireImpliesMove()
}

// retireImpliesMove: retiring a generation and moving the key id go together, and nothing fails in between.
func (a *An) retireImpliesMove() {
	R := a.R
	// successful exit passes the increment of the id
	for _, ax := range []struct{ rotate, reveal, id string }{
		{"(*keyManagementContext).rotateTheirKey", "(*keyManagementContext).revealMACKeysForTheirPreviousKeyID", "theirKeyID"},
		{"(*keyManagementContext).rotateOurKeys", "(*keyManagementContext).revealMACKeysForOurPreviousKeyID", "ourKeyID"},
	} {
		rot := a.MustFn(ax.rotate)
		if rot == nil {
			continue
		}
		cs := a.CallsIn(rot, ax.reveal)
		if len(cs) != 1 {
			continue
		}
		// what moves the id: a store to it, or a call of a function that moves it on every one of its paths (a call that
		// may return without having moved it does not count)
		var moversOf func(f *ssa.Function, depth int) []ssa.Instruction
		moversOf = func(f *ssa.Function, depth int) []ssa.Instruction {
			var out []ssa.Instruction
			for _, b := range f.Blocks {
				for _, in := range b.Instrs {
					moves := false
					for _, ef := range a.E.InstrEffects(in) {
						if a.C.abs(f, ef.Path) == "keyManagementContext."+ax.id {
							moves = true
						}
					}
					if !moves {
						continue
					}
					if call, isCall := in.(ssa.CallInstruction); isCall {
						g := call.Common().StaticCallee()
						if g == nil || g.Blocks == nil || depth > 3 || len(g.Blocks[0].Instrs) == 0 {
							continue
						}
						inner := moversOf(g, depth+1)
						always := len(inner) > 0
						for _, r := range a.returnsOf(g) {
							if reachesAvoiding(g.Blocks[0].Instrs[0], r, inner, nil) {
								always = false
							}
						}
						if !always {
							continue
						}
					}
					out = append(out, in)
				}
			}
			return out
		}
		movers := moversOf(rot, 0)
		ok := true
		for _, r := range a.returnsOf(rot) {
			if !canReach(cs[0], r) {
				continue
			}
			if reachesAvoiding(cs[0], r, movers, nil) {
				ok = false
			}
			// nothing can fail any more once the generation was retired (the new key is drawn before): a failing
			// randomness source must not leave the counters forgotten and the MAC keys queued while the id stays
			if len(r.Results) > 0 && isErrorType(r.Results[len(r.Results)-1].Type()) && !isNilConst(resolveLocal(r.Results[len(r.Results)-1])) {
				R.Viol("S.retire-order", ax.rotate+"|no-failure-after-retire", "after the retire step the rotation cannot fail", a.C.InstrPos(r),
					"a return with a possibly non-nil error ("+a.C.Term(r.Results[len(r.Results)-1])+") is reachable after the MAC keys and counters of generation id-1 were retired: if drawing the new key fails the id does not move, our next message restarts its counter (refused by the peer as regressed) and keys of a live generation are disclosed")
			}
		}
		R.Ok("S.retire-order", ax.rotate+"|no-failure-after-retire-checked", "returns after the retire step examined", a.C.Pos(rot.Pos()))
		R.Check(ok && len(movers) > 0, "S.retire-order", ax.rotate+"|retire-implies-move", "whenever a generation's MAC keys are queued for disclosure the key id moves on (the generation really is retired)", a.C.InstrPos(cs[0]),
			"there is a path on which the MAC keys of generation id-1 are queued for disclosure but the id is not incremented: the keys are disclosed while messages under them are still accepted")
	}
}

// drainedKeysGoOut: a data message generator that succeeded has taken the queued MAC keys with it, so the function that
// called it hands the message on: every return reached after the generator succeeded is a success, or fails only for
// a reason from the reviewed table (the randomness source while the own instance tag is drawn).
func (a *An) drainedKeysGoOut(rule string) {
	R := a.R
	el := a.newErrLeaves()
	allowed := []string{"lib:io.ReadFull", "var:errShortRandomRead"}
	gens := []string{"(*Conversation).genDataMsgWithFlag", "(*Conversation).genDataMsg", "(*Conversation).createSerializedDataMessage"}
	n := 0
	for _, gname := range gens {
		g := a.MustFn(gname)
		if g == nil {
			continue
		}
		for _, cs := range a.CallSites(g) {
			f := cs.Parent()
			si := statusIndex(f.Signature)
			if si < 0 || cs.Value() == nil {
				continue
			}
			n++
			var extra []string
			var at ssa.Instruction
			for _, r := range a.returnsOf(f) {
				if !canReach(cs, r) || a.F.LocalAt(r).Has("@fail:"+instKey(cs)) || len(r.Results) <= si {
					continue
				}
				leaves := map[string]bool{}
				// the generator's own failure is not a failure after it succeeded
				skip := map[ssa.Value]bool{}
				if v := cs.Value(); v != nil && v.Referrers() != nil {
					gsi := statusIndex(cs.Common().Signature())
					for _, ref := range *v.Referrers() {
						if ex, isEx := ref.(*ssa.Extract); isEx && ex.Index == gsi {
							skip[ex] = true
						}
					}
				}
				var expand func(v ssa.Value, d int)
				expand = func(v ssa.Value, d int) {
					v = resolveLocal(v)
					if phi, isPhi := v.(*ssa.Phi); isPhi && d < 6 {
						for i, ed := range phi.Edges {
							// an incoming value that was tested and found nil on its way here
							if sc := statusCall(resolveLocal(ed)); sc != nil && a.F.endFacts(phi.Block().Preds[i]).Has("@ok:"+instKey(sc)) {
								continue
							}
							expand(ed, d+1)
						}
						return
					}
					el.val(v, 0, leaves, skip)
				}
				expand(r.Results[si], 0)
				for _, k := range sortedKeys(leaves) {
					ok := false
					for _, w := range allowed {
						if strings.HasPrefix(k, w) {
							ok = true
						}
					}
					if !ok {
						extra = append(extra, k)
						at = r
					}
				}
			}
			pos := a.C.InstrPos(cs)
			if at != nil {
				pos = a.C.InstrPos(at)
			}
			R.Check(len(extra) == 0, rule, ordinalKey(a.C.Name(a.C.owner(f))+"|after "+gname, map[string]int{}), "after a data message was generated (and took the queued MAC keys) its caller does not fail for a new reason", pos,
				"can still fail with: "+strings.Join(extra, "; ")+" — the generated message is dropped together with the MAC keys it was going to disclose, which are then never disclosed")
		}
	}
	R.Check(n >= 5, rule, "sites", "generator call sites found", "", fmt.Sprintf("%d", n))
}

// serializeAllDisclosedKeys: what dataMsg.serialize writes after the MAC is every disclosed key of the message, one after
// the other — the reader hands all of them back, so anything less does not survive the round trip.
func (a *An) serializeAllDisclosedKeys(rule string) {
	R := a.R
	if fn := a.MustFn("(dataMsg).serialize"); fn != nil {
		for _, r := range a.returnsOf(fn) {
			fs := a.C.WriterFields(r.Results[0])
			n := len(fs)
			okL := n >= 3 && fs[n-1].Kind == "DATA" && fs[n-2].Kind == "BYTES" && strings.Contains(fs[n-2].Term, "authenticator")
			R.Check(okL, rule, "dataMsg.serialize|layout", "… ‖ MAC ‖ DATA(disclosed keys)", a.C.InstrPos(r), "fields: "+fieldsStr(fs))
			if okL {
				// the DATA payload accumulates every disclosed key
				t := fs[n-1].Term
				R.Check(strings.Contains(t, "append(") && strings.Contains(t, "oldMACKeys") || strings.Contains(t, "phi("), rule, "dataMsg.serialize|all-keys", "all disclosed keys are concatenated into the DATA field", a.C.InstrPos(r), "payload "+t)
			}
		}
	}
}
