package main

import (
	"bufio"
	"bytes"
	"fmt"
	"go/ast"
	"go/token"
	"go/types"
	"golang.org/x/tools/go/ssa"
	"os"
	"os/exec"
	"path/filepath"
	"sort"
	"strconv"
	"strings"
)

// BCESite is a bounds check the gc prove pass could not eliminate.
type BCESite struct {
	File string
	Line int
	Col  int
	Kind string // IsInBounds | IsSliceInBounds
	Func string // enclosing function (canonical-ish: recv.name)
	Expr string // normalised text of the index/slice expression (normExpr)
	Src  string // source text
}

// unprovenBounds runs the compiler's own prove pass over the two packages of the working tree and
// returns the bounds checks it could not discharge (static: nothing of otr3 is executed).
func unprovenBounds(c *Ctx) ([]BCESite, error) {
	if c.bceDone {
		return append([]BCESite(nil), c.bceSites...), c.bceErr
	}
	s, err := unprovenBounds1(c)
	c.bceDone, c.bceSites, c.bceErr = true, s, err
	return append([]BCESite(nil), s...), err
}

func unprovenBounds1(c *Ctx) ([]BCESite, error) {
	cmd := exec.Command("go", "build", "-gcflags=-d=ssa/check_bce/debug=1", ".", "./sexp")
	cmd.Dir = c.RepoDir
	cmd.Env = append(os.Environ(), "GOFLAGS=-mod=mod", "GOPROXY=off", "GOSUMDB=off", "GOTOOLCHAIN=local", "GOWORK=off", "CGO_ENABLED=0")
	if c.GOARCH != "" {
		cmd.Env = append(cmd.Env, "GOARCH="+c.GOARCH)
	}
	var out bytes.Buffer
	cmd.Stdout = &out
	cmd.Stderr = &out
	err := cmd.Run()
	var sites []BCESite
	sc := bufio.NewScanner(&out)
	for sc.Scan() {
		line := sc.Text()
		if strings.HasPrefix(line, "#") {
			continue
		}
		i := strings.Index(line, ": Found ")
		if i < 0 {
			if err != nil {
				return nil, fmt.Errorf("go build failed: %s", line)
			}
			continue
		}
		pos, kind := line[:i], strings.TrimSpace(line[i+len(": Found "):])
		parts := strings.Split(pos, ":")
		if len(parts) < 3 {
			continue
		}
		ln, _ := strconv.Atoi(parts[len(parts)-2])
		col, _ := strconv.Atoi(parts[len(parts)-1])
		file := filepath.Clean(strings.Join(parts[:len(parts)-2], ":"))
		sites = append(sites, BCESite{File: file, Line: ln, Col: col, Kind: kind})
	}
	if err != nil && len(sites) == 0 {
		return nil, fmt.Errorf("go build: %v: %s", err, out.String())
	}
	// map to enclosing functions and expressions through the syntax trees
	for i := range sites {
		s := &sites[i]
		for _, p := range c.Pkgs {
			for _, f := range p.Syntax {
				fn := c.Fset.Position(f.Pos()).Filename
				rel, _ := filepath.Rel(c.RepoDir, fn)
				if rel != s.File {
					continue
				}
				ast.Inspect(f, func(n ast.Node) bool {
					fd, ok := n.(*ast.FuncDecl)
					if !ok {
						return true
					}
					a, b := c.Fset.Position(fd.Pos()), c.Fset.Position(fd.End())
					if s.Line < a.Line || s.Line > b.Line {
						return false
					}
					name := fd.Name.Name
					if fd.Recv != nil && len(fd.Recv.List) > 0 {
						name = exprStr(fd.Recv.List[0].Type) + "." + name
					}
					if p.PkgPath == sexpPath {
						name = "sexp." + name
					}
					s.Func = name
					// innermost index/slice expression at that position
					ast.Inspect(fd, func(m ast.Node) bool {
						switch e := m.(type) {
						case *ast.IndexExpr:
							if pp := c.Fset.Position(e.Lbrack); pp.Line == s.Line && pp.Column == s.Col {
								s.Expr = normExpr(c, p.TypesInfo, p.Types, e)
								s.Src = nodeSrc(c, e)
							}
						case *ast.SliceExpr:
							if pp := c.Fset.Position(e.Lbrack); pp.Line == s.Line && pp.Column == s.Col {
								s.Expr = normExpr(c, p.TypesInfo, p.Types, e)
								s.Src = nodeSrc(c, e)
							}
						}
						return true
					})
					return false
				})
			}
		}
	}
	sort.Slice(sites, func(i, j int) bool {
		if sites[i].File != sites[j].File {
			return sites[i].File < sites[j].File
		}
		if sites[i].Line != sites[j].Line {
			return sites[i].Line < sites[j].Line
		}
		return sites[i].Col < sites[j].Col
	})
	return sites, nil
}

func exprStr(e ast.Expr) string {
	switch x := e.(type) {
	case *ast.StarExpr:
		return "*" + exprStr(x.X)
	case *ast.Ident:
		return x.Name
	}
	return "?"
}

func nodeSrc(c *Ctx, n ast.Node) string {
	a, b := c.Fset.Position(n.Pos()), c.Fset.Position(n.End())
	data, err := os.ReadFile(a.Filename)
	if err != nil || a.Offset < 0 || b.Offset > len(data) {
		return ""
	}
	s := string(data[a.Offset:b.Offset])
	return strings.Join(strings.Fields(s), " ")
}

var _ = token.NoPos

// normExpr renders an index/slice expression independently of naming and layout: local variables and parameters
// become "_", named constants their value, white space is dropped. Fields, functions and package-level variables
// keep their names.
func normExpr(c *Ctx, info *types.Info, pkg *types.Package, n ast.Node) string {
	a, b := c.Fset.Position(n.Pos()), c.Fset.Position(n.End())
	data, err := os.ReadFile(a.Filename)
	if err != nil || a.Offset < 0 || b.Offset > len(data) {
		return ""
	}
	type rep struct {
		from, to int
		with     string
	}
	var reps []rep
	ast.Inspect(n, func(m ast.Node) bool {
		if call, isCall := m.(*ast.CallExpr); isCall && info != nil {
			// len/cap of an array: a compile-time constant, read as its value
			if tv, has := info.Types[call]; has && tv.Value != nil {
				from, to := c.Fset.Position(call.Pos()).Offset, c.Fset.Position(call.End()).Offset
				reps = append(reps, rep{from, to, tv.Value.ExactString()})
				return false
			}
		}
		id, ok := m.(*ast.Ident)
		if !ok || info == nil {
			return true
		}
		off := c.Fset.Position(id.Pos()).Offset
		curLen := len(id.Name)
		r, renamed := renamedAt[c.Fset.Position(id.Pos()).Filename][off]
		if renamed && r.old == id.Name {
			curLen = r.n
		} else {
			renamed = false
		}
		obj := info.Uses[id]
		if obj == nil {
			obj = info.Defs[id]
		}
		switch o := obj.(type) {
		case *types.Var:
			if !o.IsField() && (pkg == nil || o.Parent() != pkg.Scope()) {
				reps = append(reps, rep{off, off + curLen, "_"})
				return true
			}
		case *types.Const:
			if o.Val() != nil && o.Pkg() == pkg {
				reps = append(reps, rep{off, off + curLen, o.Val().ExactString()})
				return true
			}
		}
		if renamed {
			reps = append(reps, rep{off, off + curLen, r.old})
		}
		return true
	})
	sort.Slice(reps, func(i, j int) bool { return reps[i].from > reps[j].from })
	buf := append([]byte{}, data[a.Offset:b.Offset]...)
	for _, r := range reps {
		f, t := r.from-a.Offset, r.to-a.Offset
		if f < 0 || t > len(buf) {
			continue
		}
		buf = append(buf[:f], append([]byte(r.with), buf[t:]...)...)
	}
	return strings.Join(strings.Fields(string(buf)), "")
}

// bceInstr: the SSA instruction (slice, index address, index, string lookup) at the position the compiler reported.
func (c *Ctx) bceInstr(s BCESite) ssa.Instruction {
	var found ssa.Instruction
	for _, f := range c.FuncSeq {
		for _, b := range f.Blocks {
			for _, in := range b.Instrs {
				switch in.(type) {
				case *ssa.Slice, *ssa.IndexAddr, *ssa.Index, *ssa.Lookup:
				default:
					continue
				}
				if !in.Pos().IsValid() {
					continue
				}
				p := c.Fset.Position(in.Pos())
				if p.Line != s.Line || p.Column != s.Col || !strings.HasSuffix(p.Filename, "/"+s.File) {
					continue
				}
				if found != nil {
					return nil // ambiguous
				}
				found = in
			}
		}
	}
	return found
}

// bceTerm: the indexed/sliced operand and its bounds as terms (parameters of new single-use helpers looked through).
func (c *Ctx) bceTerm(in ssa.Instruction) string {
	opt := func(v ssa.Value) string {
		if v == nil {
			return ""
		}
		return c.Term(v)
	}
	switch x := in.(type) {
	case *ssa.Slice:
		s := c.Term(x.X) + "[" + opt(x.Low) + ":" + opt(x.High)
		if x.Max != nil {
			s += ":" + opt(x.Max)
		}
		return s + "]"
	case *ssa.IndexAddr:
		return c.Term(x.X) + "[" + c.Term(x.Index) + "]"
	case *ssa.Index:
		return c.Term(x.X) + "[" + c.Term(x.Index) + "]"
	case *ssa.Lookup:
		return c.Term(x.X) + "[" + c.Term(x.Index) + "]"
	}
	return ""
}
