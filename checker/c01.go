package main

import (
	"fmt"
	"math/big"
	"strings"

	"golang.org/x/tools/go/ssa"
)

// TermIs: the canonical term of v must equal one of want.
func (a *An) TermIs(rule, key, what string, at ssa.Instruction, v ssa.Value, want ...string) bool {
	got := a.C.Term(v)
	for _, w := range want {
		if got == w {
			a.R.Ok(rule, key, what+" = "+w, a.C.InstrPos(at))
			return true
		}
	}
	a.R.Viol(rule, key, what+" = "+strings.Join(want, " or "), a.C.InstrPos(at), "it is "+got)
	return false
}

// SuccessRequires: every return of fn that may report success passed the given facts.
func (a *An) SuccessRequires(rule string, fn *ssa.Function, facts ...string) {
	if fn == nil {
		return
	}
	mo := a.F.MustOK(fn)
	for _, f := range facts {
		a.R.Check(mo.Has(f), rule, a.C.Name(fn)+"|success|"+f, a.C.Name(fn)+" reports success only after "+f, a.C.Pos(fn.Pos()),
			"a return that may report success is reachable without it; established on success: "+strings.Join(filterFacts(mo.List()), "; "))
	}
}

func filterFacts(l []string) []string {
	var out []string
	for _, s := range l {
		if strings.HasPrefix(s, "called:") || strings.HasSuffix(s, ")") && strings.Contains(s, "(_") {
			continue
		}
		out = append(out, s)
	}
	return out
}

// firstCallIn: the unique call to callee inside fn (nil + obligation failure otherwise).
func (a *An) uniqueCall(rule string, fn *ssa.Function, callee string) *ssa.Call {
	if fn == nil {
		return nil
	}
	cs := a.CallsIn(fn, callee)
	if len(cs) != 1 {
		a.R.Viol(rule, a.C.Name(fn)+"|calls|"+callee, a.C.Name(fn)+" calls "+callee+" exactly once", a.C.Pos(fn.Pos()), fmt.Sprintf("%d call sites", len(cs)))
		return nil
	}
	c, _ := cs[0].(*ssa.Call)
	return c
}

func (a *An) returnsOf(fn *ssa.Function) []*ssa.Return {
	var out []*ssa.Return
	if fn == nil {
		return nil
	}
	for _, b := range fn.Blocks {
		if b != fn.Blocks[0] && len(b.Preds) == 0 {
			continue
		}
		if r, ok := b.Instrs[len(b.Instrs)-1].(*ssa.Return); ok {
			out = append(out, r)
		}
	}
	return out
}

const group5Prime = "FFFFFFFFFFFFFFFFC90FDAA22168C234C4C6628B80DC1CD129024E088A67CC74020BBEA63B139B22514A08798E3404DDEF9519B3CD3A431B302B0A6DF25F14374FE1356D6D51C245E485B576625E7EC6F44C42E9A637ED6B0BFF5CB6F406B7EDEE386BFB5A899FA5AE9F24117C4B1FE649286651ECE45B3DC2007CB8A163BF0598DA48361C55D39A69163FA8FD24CF5F83655D23DCA3AD961C62F356208552BB9ED529077096966D670C354E4ABC9804F1746C08CA237327FFFFFFFFFFFFFFFF"

func init() {
	register("C01", "Structural clause decided: (i) the only store of msgState=encrypted is in akeHasFinished, and each call of akeHasFinished is reached only through all verification steps of its chain (Reveal-Signature: parse, decrypt, commitment check, range check of g^x, MAC, key parse, DSA verify; Signature: parse, MAC, key parse, DSA verify), the DH shared secret is computed only from a range-checked peer value; (ii) each primitive tests the right operands with the right polarity (commitment: constant-time compare of hash2(decrypted g^x) with the stored hash; MAC over DATA(encrypted signature) under m2 truncated as specified; DSA verify of M_B with trailing bytes rejected; 2 <= n <= p-2 with the RFC 3526 group-5 prime); (iii) the signed MAC binds both DH values, the parsed key and key id in mirrored order, and the key reported by GetTheirKey is the very key whose signature was verified; (iv) a fresh exponent is drawn for every exchange and the SSID highlight follows sentRevealSig. Not decided: cryptographic strength, equality of both parties' SSIDs, readability of traffic.",
		func(a *An) {
			a.c01Gates()
			a.c01Primitives()
			a.c01Provenance()
			a.cipherBuffers("K.cipher-buffers")
			a.liveSessionUntouched("W.live-keys")
			a.c11SSID("W.ssid")
			a.sentRevealSigWriters("W.highlight")
			a.theirKeyAtomic("A.their-key")
			a.noSessionKeyCache("S.rotation")
			// what a public key is reported as (fingerprint) and whether a signature verifies under it depend on the
			// key alone: nothing on those paths writes memory shared between keys or conversations (a cache, say)
			pure := map[*ssa.Function]bool{}
			for _, f := range a.reachableFns("(*DSAPublicKey).Fingerprint", "(*DSAPublicKey).Verify", "(*DSAPublicKey).serialize", "(*DSAPublicKey).Parse", "parseTheirKey", "checkedSignatureVerification", "(*Conversation).GetTheirKey") {
				pure[f] = true
			}
			a.globalEffectsOn("E.key-pure", pure, 8)
		})
}

func (a *An) c01Gates() {
	R := a.R
	enc := a.MustConst("encrypted")
	// who writes msgState = encrypted
	if fld := a.MustField("Conversation", "msgState"); fld != nil {
		n := 0
		for _, st := range a.DirectStoresTo(fld) {
			if k, ok := st.Val.(*ssa.Const); ok && constStr(k) == enc {
				n++
				fn := a.C.Name(a.C.owner(st.Parent()))
				R.Check(fn == "(*Conversation).akeHasFinished", "W.encrypted", "store msgState=encrypted|"+fn, "msgState becomes encrypted only in akeHasFinished", a.C.InstrPos(st), fn+" sets msgState to encrypted")
			} else if !ok {
				R.Undec("W.encrypted", "store msgState|"+a.C.Name(st.Parent()), "stored message state is a constant", a.C.InstrPos(st), "non-constant value "+a.C.Term(st.Val))
			}
		}
		R.Check(n >= 1, "W.encrypted", "store msgState=encrypted|exists", "some store sets msgState to encrypted", "", "none found")
	}
	common := []string{"ok:(*Conversation).processEncryptedSig", "ok:verifyEncryptedSignatureMAC", "ok:decrypt", "ok:parseTheirKey", "ok:checkedSignatureVerification", "ok:PublicKey.Verify"}
	chainR := append([]string{"ok:(*Conversation).processRevealSig", "ok:(*revealSig).deserialize", "ok:checkDecryptedGx", "ok:extractGx", "ok:isGroupElement"}, common...)
	chainS := append([]string{"ok:(*Conversation).processSig", "ok:(*sig).deserialize"}, common...)
	fin := a.MustFn("(*Conversation).akeHasFinished")
	sites := a.CallSites(fin)
	for _, cs := range sites {
		fs := a.F.At(cs)
		caller := a.C.Name(cs.Parent())
		missR, missS := missing(fs, chainR), missing(fs, chainS)
		ok := len(missR) == 0 || len(missS) == 0
		d := ""
		if !ok {
			d = "neither chain is complete on every path: Reveal-Signature chain lacks " + strings.Join(missR, ", ") + "; Signature chain lacks " + strings.Join(missS, ", ")
		}
		R.Check(ok, "G.ake-finish", caller+"|call akeHasFinished", "akeHasFinished is reached only through every verification step of the Reveal-Signature or of the Signature chain", a.C.InstrPos(cs), d)
	}
	R.Check(len(sites) == 2, "G.ake-finish", "akeHasFinished|call-sites", "akeHasFinished has exactly the two specified call sites (AWAITING_REVEALSIG+Reveal-Signature, AWAITING_SIG+Signature)", "", fmt.Sprintf("%d call sites: %s", len(sites), strings.Join(a.Callers(fin), ", ")))
	want := map[string]bool{"(authStateAwaitingRevealSig).receiveRevealSigMessage": true, "(authStateAwaitingSig).receiveSigMessage": true}
	for _, c := range a.Callers(fin) {
		R.Check(want[c], "G.ake-finish", "akeHasFinished|caller|"+c, "only the two specified handler cells complete the exchange", "", c+" completes the exchange")
	}
	// the DH secret is computed only from a range-checked peer value
	if f := a.MustFn("(*Conversation).calcDHSharedSecret"); f != nil {
		cnt := map[string]int{}
		for _, cs := range a.CallSites(f) {
			a.Gate("G.dh-range", ordinalKey(a.C.Name(cs.Parent())+"|call calcDHSharedSecret", cnt), cs, "computation of the DH shared secret", "ok:isGroupElement")
		}
		R.Floor("G.dh-range", 2)
	}
	a.theirDHWriters()
	// AWAITING_SIG is entered only after the DH-Key was processed (range check) and the Reveal-Signature built
	for _, f := range a.C.FuncSeq {
		for _, b := range f.Blocks {
			for _, in := range b.Instrs {
				mi, ok := in.(*ssa.MakeInterface)
				if !ok || typeName(mi.X.Type()) != "authStateAwaitingSig" || typeName(mi.Type()) != "authState" {
					continue
				}
				if _, isParam := mi.X.(*ssa.Parameter); isParam {
					continue // a handler returning its own receiver
				}
				if u, isU := mi.X.(*ssa.UnOp); isU {
					if al, isAl := u.X.(*ssa.Alloc); isAl && spilledParam(al) != nil {
						continue
					}
				}
				a.GateLocal("G.awaiting-sig", a.C.Name(f)+"|construct authStateAwaitingSig", in, "construction of AWAITING_SIG", "ok:(*Conversation).processDHKey", "ok:(*Conversation).revealSigMessage")
			}
		}
	}
	R.Floor("G.awaiting-sig", 2)
}

func missing(fs Facts, want []string) []string {
	var m []string
	for _, w := range want {
		if !fs.Has(w) {
			m = append(m, w)
		}
	}
	return m
}

func (a *An) ctcCall(rule string, fn *ssa.Function) *ssa.Call {
	return a.uniqueCall(rule, fn, "crypto/subtle.ConstantTimeCompare")
}

func (a *An) c01Primitives() {
	R := a.R
	rule := "P.ake-checks"
	// commitment
	if fn := a.MustFn("checkDecryptedGx"); fn != nil {
		if cmp := a.ctcCall(rule, fn); cmp != nil {
			a.TermIs(rule, "checkDecryptedGx|operand0", "first compared value", cmp, cmp.Call.Args[0], "otrVersion.hash2($v, $decryptedGx)[:]", "otrVersion.hash2($v, $decryptedGx)")
			a.TermIs(rule, "checkDecryptedGx|operand1", "second compared value", cmp, cmp.Call.Args[1], "$hashedGx[:]", "$hashedGx")
			a.SuccessRequires(rule, fn, "passed:("+a.C.Term(cmp)+" != 0)")
		}
	}
	if fn := a.MustFn("(*Conversation).processRevealSig"); fn != nil {
		if c := a.uniqueCall(rule, fn, "checkDecryptedGx"); c != nil {
			a.TermIs(rule, "processRevealSig|commitment-hash", "hash handed to the commitment check", c, c.Call.Args[1], "Conversation.ake.xhashedGx")
			if d := a.uniqueCall(rule, fn, "decrypt"); d != nil {
				R.Check(c.Call.Args[0] == d.Call.Args[1], rule, "processRevealSig|commitment-input", "the commitment check runs on the buffer decrypt wrote into", a.C.InstrPos(c), "checked "+a.C.Term(c.Call.Args[0])+", decrypted into "+a.C.Term(d.Call.Args[1]))
				a.TermIs(rule, "processRevealSig|decrypt-src", "ciphertext decrypted", d, d.Call.Args[2], "Conversation.ake.encryptedGx")
				a.TermIs(rule, "processRevealSig|decrypt-key", "key used", d, d.Call.Args[0], "&new(revealSig).r[:]")
				if e := a.uniqueCall(rule, fn, "extractGx"); e != nil {
					R.Check(e.Call.Args[0] == d.Call.Args[1], rule, "processRevealSig|extract-input", "g^x is extracted from the same decrypted buffer", a.C.InstrPos(e), "extracted from "+a.C.Term(e.Call.Args[0]))
				}
			}
		}
	}
	if fn := a.MustFn("extractGx"); fn != nil {
		a.SuccessRequires(rule, fn, "ok:ExtractMPI", "ok:isGroupElement")
		// trailing bytes rejected, and the checked value is the extracted one
		mo := a.F.MustOK(fn)
		found := false
		for _, f := range mo.List() {
			if strings.HasPrefix(f, "passed:(len(ExtractMPI($decryptedGx)#0) <= 0)") {
				found = true
			}
		}
		R.Check(found, rule, "extractGx|no-trailing", "trailing bytes after g^x are rejected", a.C.Pos(fn.Pos()), "success facts: "+strings.Join(filterFacts(mo.List()), "; "))
		R.Check(mo.Has("passed:isGroupElement(ExtractMPI($decryptedGx)#1)"), rule, "extractGx|range-operand", "the range check is applied to the extracted value", a.C.Pos(fn.Pos()), "success facts: "+strings.Join(filterFacts(mo.List()), "; "))
	}
	// MAC of the encrypted signature
	if fn := a.MustFn("verifyEncryptedSignatureMAC"); fn != nil {
		if cmp := a.ctcCall(rule, fn); cmp != nil {
			my := "sumHMAC(akeKeys.m2, AppendData(nil, $encryptedSig), $v)[:otrVersion.truncateLength($v)]"
			a.TermIs(rule, "verifyEncryptedSignatureMAC|computed", "computed MAC", cmp, cmp.Call.Args[0], my)
			a.TermIs(rule, "verifyEncryptedSignatureMAC|received", "received MAC", cmp, cmp.Call.Args[1], "$theirMAC")
			a.SuccessRequires(rule, fn, "passed:("+a.C.Term(cmp)+" != 0)", "passed:"+canonCmp("len("+my+")", "==", "len($theirMAC)"))
		}
	}
	if fn := a.MustFn("sumHMAC"); fn != nil {
		var sum *ssa.Call
		for _, r := range a.returnsOf(fn) {
			if c, ok := r.Results[0].(*ssa.Call); ok {
				sum = c
			}
		}
		if sum == nil {
			R.Viol(rule, "sumHMAC|sum", "sumHMAC returns mac.Sum(nil)", a.C.Pos(fn.Pos()), "no such return")
		} else {
			a.checkHMACStream(rule, "sumHMAC", fn, sum, "(otrVersion).hash2Instance", "$key", []string{"$data"})
		}
	}
	for _, v := range []string{"(otrV2)", "(otrV3)"} {
		if fn := a.MustFn(v + ".truncateLength"); fn != nil {
			for _, r := range a.returnsOf(fn) {
				a.TermIs(rule, v+".truncateLength", "AKE MAC truncation (160 bits)", r, r.Results[0], "20")
			}
		}
	}
	// signature
	if fn := a.MustFn("checkedSignatureVerification"); fn != nil {
		if c := a.uniqueCall(rule, fn, "PublicKey.Verify"); c != nil {
			a.TermIs(rule, "checkedSignatureVerification|key", "key used to verify", c, c.Call.Value, "$theirKey")
			a.TermIs(rule, "checkedSignatureVerification|hash", "value verified", c, c.Call.Args[0], "$mb")
			a.TermIs(rule, "checkedSignatureVerification|sig", "signature verified", c, c.Call.Args[1], "$sig")
			t := a.C.Term(c)
			a.SuccessRequires(rule, fn, "ok:PublicKey.Verify", "passed:(len("+t+"#0) <= 0)")
		}
	}
	if fn := a.MustFn("(*DSAPublicKey).Verify"); fn != nil {
		if c := a.uniqueCall(rule, fn, "crypto/dsa.Verify"); c != nil {
			a.TermIs(rule, "DSAPublicKey.Verify|pub", "public key", c, c.Call.Args[0], "&DSAPublicKey.PublicKey")
			a.TermIs(rule, "DSAPublicKey.Verify|hash", "hash", c, c.Call.Args[1], "$hashed")
			a.TermIs(rule, "DSAPublicKey.Verify|r", "r", c, c.Call.Args[2], "(*math/big.Int).SetBytes(new(Int), $sig[:20])")
			a.TermIs(rule, "DSAPublicKey.Verify|s", "s", c, c.Call.Args[3], "(*math/big.Int).SetBytes(new(Int), $sig[20:40])")
			for _, r := range a.returnsOf(fn) {
				if r.Results[1] == ssa.Value(c) {
					a.TermIs(rule, "DSAPublicKey.Verify|rest", "returned rest", r, r.Results[0], "$sig[40:]")
					R.Check(a.F.LocalAt(r).Has("passed:(len($sig) >= 40)"), rule, "DSAPublicKey.Verify|length", "signature length tested before slicing", a.C.InstrPos(r), "length test missing")
				} else {
					a.TermIs(rule, "DSAPublicKey.Verify|reject", "other returns reject", r, r.Results[1], "false")
				}
			}
		}
	}
	// group membership
	if fn := a.MustFn("isGroupElement"); fn != nil {
		a.SuccessRequires(rule, fn, "passed:gte($n, global:g1)", "passed:lte($n, global:pMinusTwo)")
	}
	// the comparison helpers decide the ordering their name says (whether written "== -1" or "< 0")
	for name, want := range map[string]string{"gte": "ge", "lte": "le", "eq": "eq", "gt": "gt", "lt": "lt"} {
		if fn := a.MustFn(name); fn != nil {
			for _, r := range a.returnsOf(fn) {
				got := strings.Join(a.gateTerms(r.Results[0], true, 0), " & ")
				R.Check(got == "cmp[(*math/big.Int).Cmp($l, $r)] "+want, rule, name+"|definition", "comparison helper "+name, a.C.InstrPos(r), "it decides "+got)
			}
		}
	}
	a.groupConstants(rule)
	R.Floor(rule, 30)
}

// groupConstants: p is the RFC 3526 group-5 prime, q = (p-1)/2, g1 = 2, pMinusTwo = p-2.
func (a *An) groupConstants(rule string) {
	R := a.R
	init := a.MustFn("init#1")
	if init == nil {
		return
	}
	got := map[string]string{}
	for _, b := range init.Blocks {
		for _, in := range b.Instrs {
			st, ok := in.(*ssa.Store)
			if !ok {
				continue
			}
			g, ok := st.Addr.(*ssa.Global)
			if !ok {
				continue
			}
			got[g.Name()] = a.C.Term(st.Val)
		}
	}
	hexOf := func(t string) string {
		// (*math/big.Int).SetString(new(Int), "HEX", 16)#0
		i := strings.Index(t, "\"")
		j := strings.LastIndex(t, "\"")
		if i < 0 || j <= i || !strings.HasSuffix(t, ", 16)#0") {
			return ""
		}
		return t[i+1 : j]
	}
	ph, qh := hexOf(got["p"]), hexOf(got["q"])
	R.Check(ph == group5Prime, rule, "init|p", "p is the 1536-bit MODP group-5 prime of RFC 3526", "", "p = "+got["p"])
	pp, ok1 := new(big.Int).SetString(ph, 16)
	qq, ok2 := new(big.Int).SetString(qh, 16)
	okq := ok1 && ok2 && new(big.Int).Add(new(big.Int).Lsh(qq, 1), big.NewInt(1)).Cmp(pp) == 0
	R.Check(okq, rule, "init|q", "q = (p-1)/2", "", "q = "+got["q"])
	R.Check(got["g1"] == "math/big.NewInt(2)", rule, "init|g1", "g1 = 2", "", "g1 = "+got["g1"])
	R.Check(got["pMinusTwo"] == "sub(global:p, math/big.NewInt(2))", rule, "init|pMinusTwo", "pMinusTwo = p - 2", "", "pMinusTwo = "+got["pMinusTwo"])
	R.Check(got["pct"] == "(*github.com/coyim/constbn.Int).SetBigInt(new(Int), global:p)", rule, "init|pct", "constant-time modulus is p", "", "pct = "+got["pct"])
	R.Check(got["g1ct"] == "(*github.com/coyim/constbn.Int).SetBigInt(new(Int), global:g1)", rule, "init|g1ct", "constant-time generator is g1", "", "g1ct = "+got["g1ct"])
	if fn := a.MustFn("sub"); fn != nil {
		for _, r := range a.returnsOf(fn) {
			a.TermIs(rule, "sub|definition", "sub(l, r)", r, r.Results[0], "(*math/big.Int).Sub(new(Int), $l, $r)")
		}
	}
}

func (a *An) c01Provenance() {
	R := a.R
	rule := "V.ake-binding"
	if fn := a.MustFn("appendAll"); fn != nil {
		for _, r := range a.returnsOf(fn) {
			got := fieldsStr(a.C.WriterFields(r.Results[0]))
			want := "MPI($one) ‖ MPI($two) ‖ BYTES(PublicKey.serialize($publicKey)) ‖ WORD($keyID)"
			R.Check(got == want, rule, "appendAll|layout", "M_B input = MPI, MPI, public key, key id", a.C.InstrPos(r), "it is "+got)
		}
	}
	if fn := a.MustFn("(*Conversation).expectedMessageHMAC"); fn != nil {
		if c := a.uniqueCall(rule, fn, "appendAll"); c != nil {
			a.TermIs(rule, "expectedMessageHMAC|first", "first DH value (the signer's own)", c, c.Call.Args[0], "Conversation.ake.theirPublicValue")
			a.TermIs(rule, "expectedMessageHMAC|second", "second DH value", c, c.Call.Args[1], "Conversation.ake.ourPublicValue")
			a.TermIs(rule, "expectedMessageHMAC|key", "key bound", c, c.Call.Args[2], "$theirKey")
			a.TermIs(rule, "expectedMessageHMAC|keyid", "key id bound", c, c.Call.Args[3], "$keyID")
			for _, r := range a.returnsOf(fn) {
				a.TermIs(rule, "expectedMessageHMAC|mac", "M_B", r, r.Results[0], "sumHMAC(akeKeys.m1, "+a.C.Term(c)+", Conversation.version)")
			}
		}
	}
	if fn := a.MustFn("(*Conversation).generateEncryptedSignature"); fn != nil {
		if c := a.uniqueCall(rule, fn, "appendAll"); c != nil {
			a.TermIs(rule, "generateEncryptedSignature|first", "first DH value (our own)", c, c.Call.Args[0], "Conversation.ake.ourPublicValue")
			a.TermIs(rule, "generateEncryptedSignature|second", "second DH value", c, c.Call.Args[1], "Conversation.ake.theirPublicValue")
			a.TermIs(rule, "generateEncryptedSignature|key", "our key", c, c.Call.Args[2], "PrivateKey.PublicKey(Conversation.ourCurrentKey)")
			a.TermIs(rule, "generateEncryptedSignature|keyid", "our key id", c, c.Call.Args[3], "Conversation.ake.keys.ourKeyID")
		}
	}
	if fn := a.MustFn("(*Conversation).processEncryptedSig"); fn != nil {
		pk := a.uniqueCall(rule, fn, "parseTheirKey")
		hm := a.uniqueCall(rule, fn, "(*Conversation).expectedMessageHMAC")
		sv := a.uniqueCall(rule, fn, "checkedSignatureVerification")
		dc := a.uniqueCall(rule, fn, "decrypt")
		mc := a.uniqueCall(rule, fn, "verifyEncryptedSignatureMAC")
		if pk != nil && hm != nil && sv != nil && dc != nil && mc != nil {
			R.Check(instrDominates(mc, dc) && instrDominates(dc, pk) && instrDominates(pk, hm) && instrDominates(hm, sv), rule, "processEncryptedSig|order", "MAC check, decrypt, parse, expected MAC, signature verification in this order", a.C.Pos(fn.Pos()), "order differs")
			R.Check(a.C.throughHelper(pk.Call.Args[0]) == a.C.throughHelper(dc.Call.Args[1]), rule, "processEncryptedSig|parse-input", "the key is parsed from the decrypted signature block", a.C.InstrPos(pk), "parsed from "+a.C.Term(pk.Call.Args[0]))
			a.TermIs(rule, "processEncryptedSig|decrypt-key", "decryption key", dc, dc.Call.Args[0], "akeKeys.c")
			a.TermIs(rule, "processEncryptedSig|decrypt-src", "decrypted data", dc, dc.Call.Args[2], "$encryptedSig")
			a.TermIs(rule, "processEncryptedSig|mac-args", "MAC'd data", mc, mc.Call.Args[0], "$encryptedSig")
			a.TermIs(rule, "processEncryptedSig|mac-their", "received MAC", mc, mc.Call.Args[1], "$theirMAC")
			keyT := a.C.Term(pk) + "#0"
			a.TermIs(rule, "processEncryptedSig|hmac-key", "key bound into the expected MAC", hm, hm.Call.Args[1], keyT)
			a.TermIs(rule, "processEncryptedSig|hmac-keyid", "key id bound into the expected MAC", hm, hm.Call.Args[2], a.C.Term(pk)+"#2")
			a.TermIs(rule, "processEncryptedSig|verify-key", "key whose signature is verified", sv, sv.Call.Args[0], keyT)
			R.Check(sv.Call.Args[1] == ssa.Value(hm), rule, "processEncryptedSig|verify-mb", "the verified value is the expected MAC", a.C.InstrPos(sv), "verified "+a.C.Term(sv.Call.Args[1]))
			a.TermIs(rule, "processEncryptedSig|verify-sig", "signature", sv, sv.Call.Args[2], a.C.Term(pk)+"#1")
			// committed key = verified key
			if fld := a.MustField("Conversation", "theirKey"); fld != nil {
				n := 0
				for _, st := range a.DirectStoresTo(fld) {
					if !a.C.within(st, fn) {
						continue
					}
					n++
					a.TermIs(rule, "processEncryptedSig|committed-key", "the key stored for GetTheirKey", st, st.Val, keyT)
				}
				R.Check(n == 1, rule, "processEncryptedSig|commit", "processEncryptedSig commits the verified key", a.C.Pos(fn.Pos()), fmt.Sprintf("%d stores to theirKey", n))
			}
			a.WhoMayWrite("W.their-key", a.MustField("Conversation", "theirKey"), "(*Conversation).processEncryptedSig")
		}
	}
	if fn := a.MustFn("(*Conversation).calcDHSharedSecret"); fn != nil {
		for _, r := range a.returnsOf(fn) {
			a.TermIs(rule, "calcDHSharedSecret|formula", "shared secret", r, r.Results[0],
				"(*github.com/coyim/constbn.Int).GetBigInt(modExpPCT((*github.com/coyim/constbn.Int).SetBigInt(new(Int), Conversation.ake.theirPublicValue), Conversation.ake.secretExponent))")
		}
		for i, cs := range a.CallSites(a.MustFn("(*Conversation).calcAKEKeys")) {
			a.TermIs(rule, fmt.Sprintf("calcAKEKeys|arg#%d", i+1), "AKE keys derive from the DH shared secret", cs, cs.Common().Args[1], "(*Conversation).calcDHSharedSecret($c)")
		}
	}
	// fresh exponent per exchange
	for _, name := range []string{"(*Conversation).dhCommitMessage", "(*Conversation).dhKeyMessage"} {
		fn := a.MustFn(name)
		if c := a.uniqueCall(rule, fn, "(*Conversation).setSecretExponent"); c != nil {
			R.Check(a.F.LocalAt(c).Has("ok:(*Conversation).randSecret"), rule, name+"|fresh-exponent", "the exponent is set from a successful random draw", a.C.InstrPos(c), "no successful randSecret before")
			R.Check(strings.HasPrefix(a.C.Term(c.Call.Args[1]), "(*Conversation).randSecret("), rule, name+"|exponent-source", "the exponent is the drawn value", a.C.InstrPos(c), "exponent is "+a.C.Term(c.Call.Args[1]))
		}
	}
	a.freshExponentWriters("W.exponent")
	// reported values
	if fn := a.MustFn("(*Conversation).GetTheirKey"); fn != nil {
		for _, r := range a.returnsOf(fn) {
			a.TermIs(rule, "GetTheirKey", "reported peer key", r, r.Results[0], "Conversation.theirKey")
		}
	}
	if fn := a.MustFn("(*Conversation).GetSSID"); fn != nil {
		for _, r := range a.returnsOf(fn) {
			a.TermIs(rule, "GetSSID", "reported SSID", r, r.Results[0], "Conversation.ssid")
		}
	}
	if fn := a.MustFn("(*Conversation).SecureSessionID"); fn != nil {
		for _, sent := range []bool{true, false} {
			paths, _ := a.C.Paths(fn, a.C.valOracle(nil, map[string]bool{"Conversation.sentRevealSig": sent}), 16)
			ok := len(paths) > 0
			d := ""
			for _, p := range paths {
				if p.Ret == nil {
					continue
				}
				ix := a.C.Term(p.Resolve(p.Ret.Results[1]))
				if sent && ix != "0" || !sent && ix != "1" {
					ok = false
					d = "index " + ix
				}
			}
			R.Check(ok, rule, "SecureSessionID|sentRevealSig="+boolStr(sent), "highlighted half is the first iff this side sent the Reveal-Signature", a.C.Pos(fn.Pos()), d)
		}
	}
	R.Floor(rule, 30)
}

func (a *An) theirDHWriters() {
	R := a.R
	// who may write ake.theirPublicValue, and with what
	if fld := a.MustField("ake", "theirPublicValue"); fld != nil {
		for _, st := range a.DirectStoresTo(fld) {
			fn := a.C.Name(a.C.owner(st.Parent()))
			key := "write|ake.theirPublicValue|" + fn
			switch fn {
			case "(*Conversation).processDHKey":
				// stored value is the value that passed isGroupElement
				fs := a.F.LocalAt(st)
				t := a.C.Term(st.Val)
				R.Check(fs.Has("passed:isGroupElement("+t+")"), "W.their-dh", key, "the stored peer DH value is the one that passed isGroupElement", a.C.InstrPos(st), "stored "+t+" without passed:isGroupElement("+t+")")
				R.Check(fs.Has("passed:(Conversation.ake.theirPublicValue == nil)"), "W.their-dh", key+"|first-only", "a DH-Key message sets the peer DH value only when none is stored yet (a repeated DH-Key is compared, never adopted)", a.C.InstrPos(st),
					"processDHKey overwrites the peer DH value of a running exchange: a second DH-Key in AWAITING_SIG is ignored yet changes the value the Signature will be checked against")
			case "(*Conversation).processRevealSig":
				R.Check(strings.HasPrefix(a.C.Term(st.Val), "extractGx("), "W.their-dh", key, "the stored peer DH value is the result of extractGx (range-checked, failure returned)", a.C.InstrPos(st), "stored "+a.C.Term(st.Val))
			case "(*ake).wipe":
				R.Ok("W.their-dh", key, "wipe clears the value", a.C.InstrPos(st))
			default:
				R.Viol("W.their-dh", key, "ake.theirPublicValue written only by processDHKey, processRevealSig, wipe", a.C.InstrPos(st), fn+" writes it")
			}
		}
		R.Floor("W.their-dh", 3)
	}
}

// liveSessionUntouched: a key exchange in progress works on its own key context (c.ake.keys); the keys, key ids and
// counters of the running session (c.keys) are replaced only when the exchange has been verified (akeHasFinished). No
// other function on the key-exchange path writes or wipes them.
func (a *An) liveSessionUntouched(rule string) {
	R := a.R
	done := map[*ssa.Function]bool{}
	// akeHasFinished installs the verified exchange; maybeRetransmit sends the queued texts in the session just set up
	for _, f := range a.reachableFns("(*Conversation).akeHasFinished", "(*Conversation).maybeRetransmit") {
		done[f] = true
	}
	n := 0
	for _, f := range a.reachableFns("(*Conversation).processAKE") {
		if done[f] || f.Blocks == nil {
			continue
		}
		n++
		bad := ""
		var at ssa.Instruction
		for _, b := range f.Blocks {
			for _, in := range b.Instrs {
				// calls that lead into akeHasFinished are judged there
				if call, ok := in.(ssa.CallInstruction); ok {
					leads := false
					for _, g := range a.C.Callees(call) {
						g = a.C.unwrap(g)
						if done[g] || (a.C.IsLib(g) && (a.reaches(g, "(*Conversation).akeHasFinished") || a.reaches(g, "(*Conversation).maybeRetransmit"))) {
							leads = true
						}
					}
					if leads {
						continue
					}
				}
				for _, ef := range a.E.InstrEffectsAll(in) {
					p := a.C.abs(f, ef.Path)
					if p == "Conversation.keys" || strings.HasPrefix(p, "Conversation.keys.") {
						bad, at = p, in
					}
				}
			}
		}
		if bad != "" {
			R.Viol(rule, "write|"+a.C.Name(a.C.owner(f)), "the running session's key context is not touched while an exchange is in progress", a.C.InstrPos(at),
				a.C.Name(f)+" writes "+bad+" before the exchange is verified: an unauthenticated key exchange message can destroy the keys of the established session")
		}
	}
	R.Check(n >= 20, rule, "functions", "functions on the key exchange path examined", "", fmt.Sprintf("%d", n))
}

// sentRevealSigWriters: which half of the session id is highlighted follows from the role taken in the exchange that
// produced the session: the flag is written where that role is taken and nowhere else.
func (a *An) sentRevealSigWriters(rule string) {
	a.WhoMayWriteDirect(rule, a.MustField("Conversation", "sentRevealSig"), sentRevealSigWriterFns...)
}

var sentRevealSigWriterFns = []string{"(authStateAwaitingDHKey).receiveDHKeyMessage", "(authStateAwaitingRevealSig).receiveRevealSigMessage"}

// freshExponentWriters: the secret exponent of an exchange is set by the two message builders (from their own draw,
// see V.ake-binding) and by nothing else, so no exchange runs on an exponent of an earlier one.
func (a *An) freshExponentWriters(rule string) {
	a.WhoMayCall(rule, a.MustFn("(*Conversation).setSecretExponent"), "(*Conversation).dhCommitMessage", "(*Conversation).dhKeyMessage")
	a.WhoMayWriteDirect(rule, a.MustField("ake", "secretExponent"), "(*Conversation).setSecretExponent", "(*ake).wipe")
	a.WhoMayWriteDirect(rule, a.MustField("ake", "ourPublicValue"), "(*Conversation).setSecretExponent", "(*ake).wipe")
}
