package main

import (
	"fmt"
	"strings"

	"golang.org/x/tools/go/ssa"
)

func init() {
	register("C03", "Structural clause decided: Send dispatches on the message state — in finished it reports an error and builds nothing from the text, in plaintext it goes through sendMessageOnPlaintext, which under requireEncryption queues a copy of the text and returns only a query message, and otherwise returns the (possibly whitespace-tagged) text; in encrypted it goes through the data message generator; the generator refuses unless the state is encrypted, uses the text only as the plaintext of plainDataMsg.encrypt under the sending AES key of the session keys computed for (our id-1, their id) and a counter that is consumed by every generated message, and remembers the text only in the resend queue; queued texts leave only through the generator; the message state has only its three lifecycle writers; End emits no text; local copies are wiped. Not decided: that AES-CTR output is unreadable; user-supplied message transformers.",
		func(a *An) {
			a.c18SendDispatch("P.send-dispatch")
			a.c03PlaintextPolicy("P.plaintext-policy")
			a.c03Generator("G.generator")
			a.c18StateWriters()
			a.c18Resend()
			a.c03NoOtherEmitters("W.emitters")
			a.policiesImmutable("W.policies")
			a.transitionsUnconditional("W.msg-state")
			a.tlvParseLoopComplete("S.tlv-loop")
			a.secretSizes("K.secret-size")
			a.tlvLoopComplete("S.tlv-loop")
			a.resendKeepsCopy("S.plaintext-retention")
			a.akeContextDropped("S.ake-dropped")
			a.cipherBuffers("K.cipher-buffers")
		})
}

func (a *An) c03PlaintextPolicy(rule string) {
	R := a.R
	fn := a.MustFn("(*Conversation).sendMessageOnPlaintext")
	if fn == nil {
		return
	}
	req := "(*policies).has(&Conversation.Policies, " + a.MustConst("requireEncryption") + ")"
	for _, r := range []bool{true, false} {
		paths, complete := a.C.Paths(fn, a.C.valOracle(nil, map[string]bool{req: r}), 64)
		key := fmt.Sprintf("sendMessageOnPlaintext|requireEncryption=%v", r)
		if !complete || len(paths) == 0 {
			R.Undec(rule, key, "enumerate paths", a.C.Pos(fn.Pos()), "incomplete")
			continue
		}
		ok, d := true, ""
		for _, p := range paths {
			forced := false
			for _, dc := range p.Decisions {
				if dc.Forced {
					forced = true
				}
			}
			if !forced {
				ok, d = false, "the policy is not consulted on this path ("+decisionsStr(p)+")"
			}
			if p.Ret == nil {
				continue
			}
			var calls []string
			for _, in := range p.Instrs {
				if c, isC := in.(*ssa.Call); isC {
					if _, isB := c.Call.Value.(*ssa.Builtin); !isB {
						calls = append(calls, a.F.callName(c))
					}
				}
			}
			out := p.Resolve(p.Ret.Results[0])
			elems := a.C.variadicElems(out)
			var ot []string
			for _, e := range elems {
				ot = append(ot, a.C.Term(e))
			}
			if r {
				if len(ot) != 1 || ot[0] != "(*Conversation).QueryMessage($c)" {
					ok, d = false, "under required encryption the output must be exactly the query message; it is ["+strings.Join(ot, ", ")+"]"
				}
				queued := false
				for _, in := range p.Instrs {
					if c, isC := in.(*ssa.Call); isC && a.F.callName(c) == "(*Conversation).lastMessage" && a.C.Term(c.Call.Args[1]) == "makeCopy($message)" {
						queued = true
					}
				}
				if !queued {
					ok, d = false, "the text is not queued for later encryption"
				}
				for _, cn := range calls {
					if cn == "(*Conversation).appendWhitespaceTag" || cn == "genWhitespaceTag" {
						ok, d = false, "the text is being prepared for plaintext transmission ("+cn+") although encryption is required"
					}
				}
			} else {
				if len(ot) != 1 || ot[0] != "makeCopy((*Conversation).appendWhitespaceTag($c, $message))" {
					ok, d = false, "without required encryption the output is the (possibly tagged) text; it is ["+strings.Join(ot, ", ")+"]"
				}
			}
		}
		R.Check(ok, rule, key, "output of a plaintext-state Send under this policy", a.C.Pos(fn.Pos()), d)
	}
	if f := a.MustFn("(*Conversation).appendWhitespaceTag"); f != nil {
		for _, r := range a.returnsOf(f) {
			t := a.C.Term(r.Results[0])
			R.Check(t == "$message" || t == "append($message, genWhitespaceTag(Conversation.Policies))", rule, "appendWhitespaceTag|only-appends", "the tag is appended after the text, nothing else is changed", a.C.InstrPos(r), "returns "+t)
		}
	}
	R.Floor(rule, 3)
}

func (a *An) c03Generator(rule string) {
	R := a.R
	fn := a.MustFn("(*Conversation).genDataMsgWithFlag")
	if fn == nil {
		return
	}
	enc := a.MustConst("encrypted")
	guard := "passed:(Conversation.msgState == " + enc + ")"
	// every call in the generator sits behind the state guard
	cnt := map[string]int{}
	for _, b := range fn.Blocks {
		for _, in := range b.Instrs {
			c, ok := in.(*ssa.Call)
			if !ok {
				continue
			}
			if _, isB := c.Call.Value.(*ssa.Builtin); isB {
				continue
			}
			a.GateLocal(rule, ordinalKey("genDataMsgWithFlag|call "+a.F.callName(c), cnt), c, "any work of the data message generator", guard)
		}
	}
	ks := a.uniqueCall(rule, fn, "(*keyManagementContext).calculateDHSessionKeys")
	ec := a.uniqueCall(rule, fn, "(plainDataMsg).encrypt")
	fc := a.uniqueCall(rule, fn, "(*counterHistory).findCounterFor")
	if ks == nil || ec == nil || fc == nil {
		return
	}
	a.TermIs(rule, "keys|our", "session keys: our key id", ks, ks.Call.Args[1], "(Conversation.keys.ourKeyID - 1)")
	a.TermIs(rule, "keys|their", "session keys: their key id", ks, ks.Call.Args[2], "Conversation.keys.theirKeyID")
	a.TermIs(rule, "counter|our", "counter record: our key id", fc, fc.Call.Args[1], "(Conversation.keys.ourKeyID - 1)")
	a.TermIs(rule, "counter|their", "counter record: their key id", fc, fc.Call.Args[2], "Conversation.keys.theirKeyID")
	// the cipher key is the sending AES key of exactly these session keys
	kt := a.C.Term(ec.Call.Args[1])
	R.Check(strings.HasSuffix(kt, ".sendingAESKey") && a.keysFrom(ec.Call.Args[1], ks), rule, "encrypt|key", "the text is enciphered under the sending AES key of the session keys just computed", a.C.InstrPos(ec), "key is "+kt)
	// the plaintext structure carries the text
	cf := map[string]string{}
	if u, ok := ec.Call.Args[0].(*ssa.UnOp); ok {
		cf = a.complitFields(u)
	}
	R.Check(cf["message"] == "$message" && cf["tlvs"] == "$tlvs", rule, "encrypt|plaintext", "what is enciphered is the text and the TLVs handed in", a.C.InstrPos(ec), fmt.Sprintf("%v", cf))
	// the text is used for nothing else than encryption and the resend queue
	msgParam := fn.Params[1]
	var uses []string
	for _, ref := range *msgParam.Referrers() {
		switch x := ref.(type) {
		case *ssa.Store:
			uses = append(uses, "store:"+a.C.AddrPath(x.Addr))
		case ssa.CallInstruction:
			uses = append(uses, "call:"+a.F.callName(x))
		case *ssa.ChangeType:
			for _, r2 := range *x.Referrers() {
				if c2, ok := r2.(ssa.CallInstruction); ok {
					uses = append(uses, "call:"+a.F.callName(c2))
				} else {
					uses = append(uses, fmt.Sprintf("%T", r2))
				}
			}
		default:
			uses = append(uses, fmt.Sprintf("%T", ref))
		}
	}
	okUses := true
	for _, u := range uses {
		if u != "store:new(plainDataMsg).message" && u != "call:(*resendContext).last" {
			okUses = false
		}
	}
	R.Check(okUses && len(uses) >= 2, rule, "text|uses", "the text flows only into the plaintext structure that is enciphered and into the resend queue", a.C.Pos(fn.Pos()), strings.Join(uses, ", "))
	// the emitted message carries the ciphertext
	for _, r := range a.returnsOf(fn) {
		if !isNilConst(resolveLocal(r.Results[2])) {
			continue
		}
		dm := a.complitFields(r.Results[0])
		R.Check(dm["encryptedMsg"] == a.C.Term(ec), rule, "message|ciphertext", "the data message carries the output of encrypt", a.C.InstrPos(r), "encryptedMsg = "+dm["encryptedMsg"])
	}
	a.counterConsumed(rule)
	R.Floor(rule, 14)
}

// keysFrom: v is a field load from the local holding the result #0 of the given calculateDHSessionKeys call.
func (a *An) keysFrom(v ssa.Value, ks *ssa.Call) bool {
	ld, ok := v.(*ssa.UnOp)
	if !ok {
		return false
	}
	fa, ok := ld.X.(*ssa.FieldAddr)
	if !ok {
		return false
	}
	al, ok := fa.X.(*ssa.Alloc)
	if !ok {
		return false
	}
	return a.allocFrom(al, ks, 0)
}

// allocFrom: the local variable is assigned once, from the first result of the call ks — directly, or through the
// first result of a new single-use helper whose every non-failing return hands back such a variable.
func (a *An) allocFrom(al *ssa.Alloc, ks *ssa.Call, depth int) bool {
	if al.Referrers() == nil || depth > 2 {
		return false
	}
	n, good := 0, false
	for _, ref := range *al.Referrers() {
		st, isSt := ref.(*ssa.Store)
		if !isSt || st.Addr != ssa.Value(al) {
			continue
		}
		n++
		ex, isEx := st.Val.(*ssa.Extract)
		if !isEx || ex.Index != 0 {
			continue
		}
		if ex.Tuple == ssa.Value(ks) {
			good = true
			continue
		}
		hc, isCall := ex.Tuple.(*ssa.Call)
		if !isCall {
			continue
		}
		h := hc.Call.StaticCallee()
		if h == nil || !a.C.isNew(h) || a.C.owner(h) == h {
			continue
		}
		all, any := true, false
		for _, r := range a.returnsOf(h) {
			if len(r.Results) < 1 {
				all = false
				continue
			}
			rv := r.Results[0]
			if u, isU := rv.(*ssa.UnOp); isU {
				if hal, isAl := u.X.(*ssa.Alloc); isAl {
					if a.allocFrom(hal, ks, depth+1) {
						any = true
						continue
					}
					// a failing return may hand back the zero value
					if si := statusIndex(h.Signature); si >= 0 && !isNilConst(resolveLocal(r.Results[si])) {
						continue
					}
				}
			}
			all = false
		}
		if all && any {
			good = true
		}
	}
	return n == 1 && good
}

// counterConsumed: every generated data message uses the record's counter as its wire counter and then
// increments it (no two messages under one key pair share a counter).
func (a *An) counterConsumed(rule string) {
	R := a.R
	fn := a.MustFn("(*Conversation).genDataMsgWithFlag")
	fld := a.MustField("keyPairCounter", "ourCounter")
	if fn == nil || fld == nil {
		return
	}
	var inc *ssa.Store
	for _, st := range a.DirectStoresTo(fld) {
		if !a.C.within(st, fn) {
			continue
		}
		if strings.HasSuffix(a.C.Term(st.Val), ".ourCounter + 1)") {
			inc = st
		}
	}
	if inc == nil {
		R.Viol(rule, "counter|increment", "the sending counter is incremented", a.C.Pos(fn.Pos()), "no store of ourCounter+1")
		return
	}
	ok := true
	for _, r := range a.returnsOf(fn) {
		if !isNilConst(resolveLocal(r.Results[2])) {
			continue
		}
		if reachesAvoiding(fn.Blocks[0].Instrs[0], r, []ssa.Instruction{inc}, nil) {
			ok = false
		}
	}
	R.Check(ok, rule, "counter|consumed-by-every-message", "every generated message consumes a counter value (the increment is on every successful path)", a.C.InstrPos(inc),
		"a data message can be generated without advancing the counter: the next message is enciphered with the same key and counter (keystream reuse)")
	// the wire counter is written before the increment, from the same record
	var put *ssa.Call
	for _, g := range a.ownedFns(fn) {
		for _, b := range g.Blocks {
			for _, in := range b.Instrs {
				if c, isC := in.(*ssa.Call); isC && strings.HasSuffix(a.F.callName(c), ".PutUint64") {
					put = c
				}
			}
		}
	}
	if put == nil {
		R.Viol(rule, "counter|wire", "the wire counter is the big-endian record counter", a.C.Pos(fn.Pos()), "no PutUint64")
		return
	}
	R.Check(instrDominates(put, inc) && strings.HasSuffix(a.C.Term(put.Call.Args[2]), ".ourCounter"), rule, "counter|wire", "the wire counter is the record's counter, taken before it is incremented", a.C.InstrPos(put), "value "+a.C.Term(put.Call.Args[2]))
}

// no other function hands user text to the wire: the only producers of data messages are the generator's callers
func (a *An) c03NoOtherEmitters(rule string) {
	a.WhoMayCall(rule, a.MustFn("(plainDataMsg).encrypt"), "(*Conversation).genDataMsgWithFlag")
	a.WhoMayCall(rule, a.MustFn("(*Conversation).sendMessageOnPlaintext"), "(*Conversation).Send")
	a.WhoMayCall(rule, a.MustFn("(*Conversation).appendWhitespaceTag"), "(*Conversation).sendMessageOnPlaintext")
	a.WhoMayCall(rule, a.MustFn("(*resendContext).pending"), "(*Conversation).retransmit")
	// End builds its message without text
	if f := a.MustFn("(*Conversation).End"); f != nil {
		for _, cs := range a.CallsIn(f, "(*Conversation).createSerializedDataMessage") {
			a.TermIs(rule, "End|no-text", "End's message has no text", cs, cs.Common().Args[1], "nil")
		}
	}
	a.R.Floor(rule, 5)
}

// policiesImmutable: the policy set is the user's configuration: nothing in the two packages writes
// Conversation.Policies (directly or through the mutating methods of the policy type). What Send does with a text is
// decided from it on every call.
func (a *An) policiesImmutable(rule string) {
	R := a.R
	n := 0
	for _, f := range a.C.FuncSeq {
		if f.Blocks == nil {
			continue
		}
		n++
		bad := ""
		var at ssa.Instruction
		for _, b := range f.Blocks {
			for _, in := range b.Instrs {
				for _, ef := range a.E.InstrEffectsAll(in) {
					if ef.Kind == EffAppend {
						continue
					}
					if p := a.C.abs(f, ef.Path); p == "Conversation.Policies" || strings.HasPrefix(p, "Conversation.Policies.") {
						bad, at = p, in
					}
				}
			}
		}
		if bad != "" {
			R.Viol(rule, "write|"+a.C.Name(a.C.owner(f)), "the library does not modify the user's policy set", a.C.InstrPos(at),
				a.C.Name(f)+" writes "+bad+": a policy the user set (require encryption, allowed versions, …) can silently stop applying")
		}
	}
	R.Check(n > 200, rule, "functions", "all functions of the two packages examined", "", fmt.Sprintf("%d", n))
}
