package main

import (
	"fmt"
	"sort"
	"strings"

	"golang.org/x/tools/go/ssa"
)

type RField struct {
	Kind  string // ExtractWord etc.
	Dest  string // field that receives the value ("" = local)
	Chain bool   // its input is the rest of the previous read (or the start)
	At    ssa.Instruction
}

// ReaderSeq lists the Extract* calls of fn in order, with the destination field of each value.
func (a *An) ReaderSeq(fn *ssa.Function) []RField {
	var calls []*ssa.Call
	for _, g := range a.ownedFns(fn) {
		for _, b := range g.Blocks {
			for _, in := range b.Instrs {
				if c, ok := in.(*ssa.Call); ok {
					if sc := c.Call.StaticCallee(); sc != nil && sc.Pkg != nil && sc.Pkg.Pkg.Path() == otrPath {
						if _, known := extractWidths[sc.Name()]; known {
							calls = append(calls, c)
						}
					}
				}
			}
		}
	}
	sort.SliceStable(calls, func(i, j int) bool { return instrDominates(calls[i], calls[j]) })
	var out []RField
	for i, c := range calls {
		rf := RField{Kind: c.Call.StaticCallee().Name(), At: c}
		// chained?
		arg := a.C.resolveParam(c.Call.Args[0])
		if i == 0 {
			rf.Chain = true
		} else if ex, ok := arg.(*ssa.Extract); ok && ex.Index == 0 && ex.Tuple == ssa.Value(calls[i-1]) {
			rf.Chain = true
		} else if u, ok := arg.(*ssa.UnOp); ok {
			if sv := localStore(u); sv != nil {
				if ex, ok := sv.(*ssa.Extract); ok && ex.Index == 0 && ex.Tuple == ssa.Value(calls[i-1]) {
					rf.Chain = true
				}
			}
		}
		for _, ref := range *c.Referrers() {
			ex, ok := ref.(*ssa.Extract)
			if !ok || ex.Index != 1 || ex.Referrers() == nil {
				continue
			}
			for _, r2 := range *ex.Referrers() {
				if st, ok := r2.(*ssa.Store); ok {
					if fa, ok := st.Addr.(*ssa.FieldAddr); ok {
						rf.Dest = fieldOf(fa).Name()
					}
				}
			}
		}
		out = append(out, rf)
	}
	return out
}

func readerStr(rs []RField) string {
	var s []string
	for _, r := range rs {
		c := ""
		if !r.Chain {
			c = "!"
		}
		s = append(s, c+strings.TrimPrefix(r.Kind, "Extract")+"→"+r.Dest)
	}
	return strings.Join(s, " ")
}

// writerOf returns the writer fields of the unique non-nil return of fn.
func (a *An) writerOf(fn *ssa.Function) ([]WField, ssa.Instruction) {
	for _, r := range a.returnsOf(fn) {
		if len(r.Results) == 0 || isNilConst(r.Results[0]) {
			continue
		}
		return a.C.WriterFields(r.Results[0]), r
	}
	return nil, nil
}

func fieldTail(t string) string {
	if i := strings.LastIndex(t, "."); i >= 0 {
		return t[i+1:]
	}
	return t
}

func init() {
	register("C17", "Structural clause decided: for every protocol structure the serialiser and the parser agree on kinds, widths and order of the fields and on which field each value goes to (AKE messages, data message, TLV, SMP payloads with their element order and counts, DSA public/private keys, the Append*/Extract* primitives with widths 2/4/8 and length-prefixed data, MPIs through big.Int.Bytes, i.e. minimal form); every length that is written is the length of the bytes written with it; the libotr key-file writer and reader use the same list heads and parameter names, and quoted strings are read back verbatim; the SMP question flag selects the TLV type on both sides; no lossy integer narrowing of a length. Not decided: value-level equality for all inputs (needs execution); the account-name character set.",
		func(a *An) {
			a.serializeAllDisclosedKeys("L.disclosed-keys")
			a.pairLayouts("L.pairs")
			a.primitives("L.primitives")
			a.smpOrder("L.smp-order")
			a.tlvLengths("V.tlv-length")
			a.keyFileGrammar("L.keyfile")
			a.cipherBuffers("K.cipher-buffers")
			a.narrowings("U.narrow", true)
		})
}

type layoutSpec struct {
	name           string
	writer, reader string
	wKinds         []string // kinds in order
	wFields        []string // field (tail of term) in order, "" = don't care
	rSeq           string   // expected readerStr
}

var layouts = []layoutSpec{
	{"dhCommit", "(dhCommit).serialize", "(*dhCommit).deserialize", []string{"DATA", "DATA"}, []string{"encryptedGx", "yhashedGx"}, "Data→encryptedGx Data→yhashedGx"},
	{"dhKey", "(dhKey).serialize", "(*dhKey).deserialize", []string{"MPI"}, []string{"gy"}, "MPI→gy"},
	{"revealSig", "(revealSig).serialize", "(*revealSig).deserialize", []string{"DATA", "BYTES", "BYTES"}, []string{"r[:]", "encryptedSig", ""}, "Data→ Data→encryptedSig"},
	{"sig", "(sig).serialize", "(*sig).deserialize", []string{"BYTES", "BYTES"}, []string{"encryptedSig", ""}, "Data→encryptedSig"},
	{"dataMsg-unsigned", "(dataMsg).serializeUnsigned", "(*dataMsg).deserializeUnsigned", []string{"BYTE", "WORD", "WORD", "MPI", "BYTES", "DATA"}, []string{"flag", "senderKeyID", "recipientKeyID", "y", "topHalfCtr[:]", "encryptedMsg"}, "Word→senderKeyID Word→recipientKeyID MPI→y !Data→encryptedMsg"},
	{"tlv", "(tlv).serialize", "(*tlv).deserialize", []string{"BASE", "SHORT", "SHORT", "BYTES"}, []string{"", "tlvType", "tlvLength", "tlvValue"}, "Short→tlvType Short→tlvLength"},
	{"DSAPublicKey", "(*DSAPublicKey).serialize", "(*DSAPublicKey).Parse", []string{"BASE", "MPI", "MPI", "MPI", "MPI"}, []string{"dsaKeyType", "P", "Q", "G", "Y"}, "Short→ MPI→P MPI→Q MPI→G MPI→Y"},
	{"DSAPrivateKey", "(*DSAPrivateKey).serialize", "(*DSAPrivateKey).Parse", []string{"BASE", "MPI"}, []string{"", "X"}, "MPI→X"},
}

func (a *An) pairLayouts(rule string) {
	R := a.R
	for _, L := range layouts {
		w := a.MustFn(L.writer)
		r := a.MustFn(L.reader)
		if w == nil || r == nil {
			continue
		}
		wf, at := a.writerOf(w)
		ok := len(wf) == len(L.wKinds)
		for i := 0; ok && i < len(wf); i++ {
			if wf[i].Kind != L.wKinds[i] {
				ok = false
			}
			if L.wFields[i] != "" && fieldTail(wf[i].Term) != L.wFields[i] && !strings.HasSuffix(wf[i].Term, "."+L.wFields[i]) && !strings.HasSuffix(wf[i].Term, L.wFields[i]) {
				ok = false
			}
		}
		pos := a.C.Pos(w.Pos())
		if at != nil {
			pos = a.C.InstrPos(at)
		}
		R.Check(ok, rule, L.name+"|writer", "serialised fields: "+strings.Join(L.wKinds, " ")+" of "+strings.Join(L.wFields, ","), pos, "writes "+fieldsStr(wf))
		got := readerStr(a.ReaderSeq(r))
		R.Check(got == L.rSeq, rule, L.name+"|reader", "parsed fields: "+L.rSeq, a.C.Pos(r.Pos()), "reads "+got)
	}
	// revealSig / sig: the MAC is whatever follows the length-prefixed encrypted signature; the writer's encryptedSig carries its own length prefix
	if f := a.MustFn("(*Conversation).generateEncryptedSignature"); f != nil {
		wf, at := a.writerOf(f)
		R.Check(len(wf) == 1 && wf[0].Kind == "DATA", rule, "encryptedSig|prefix", "the encrypted signature is produced with its DATA length prefix (the serialisers append it raw, the parsers read it as DATA)", a.C.InstrPos(at), "produces "+fieldsStr(wf))
	}
	// data message: the rest of the layout
	if f := a.MustFn("(*dataMsg).deserializeUnsigned"); f != nil {
		for _, st := range a.DirectStoresTo(a.MustField("dataMsg", "flag")) {
			if a.C.within(st, f) {
				a.TermIs(rule, "dataMsg|flag-read", "flag is the first byte", st, st.Val, "$msg[0]")
			}
		}
		var copies []string
		for _, b := range f.Blocks {
			for _, in := range b.Instrs {
				if c, ok := in.(*ssa.Call); ok {
					if bi, isB := c.Call.Value.(*ssa.Builtin); isB && bi.Name() == "copy" {
						copies = append(copies, a.C.Term(c.Call.Args[0])+" ← "+a.C.Term(c.Call.Args[1]))
					}
				}
			}
		}
		okc := len(copies) >= 1
		for _, c := range copies {
			if !strings.HasPrefix(c, "&dataMsg.topHalfCtr[:] ← ExtractMPI(") {
				okc = false
			}
		}
		R.Check(okc, rule, "dataMsg|ctr-read", "the 8 counter bytes are copied from right after the MPI", a.C.Pos(f.Pos()), strings.Join(copies, "; "))
		// the DATA field is read from right after the counter
		rs := a.ReaderSeq(f)
		if len(rs) == 4 {
			off := a.C.ByteOffset(rs[3].At.(*ssa.Call).Call.Args[0])
			R.Check(off.Off == 8 || strings.Contains(a.C.Term(rs[3].At.(*ssa.Call).Call.Args[0]), "[len(&dataMsg.topHalfCtr):]") || strings.Contains(a.C.Term(rs[3].At.(*ssa.Call).Call.Args[0]), "[8:]"), rule, "dataMsg|msg-after-ctr", "the encrypted message is read from 8 bytes after the MPI", a.C.InstrPos(rs[3].At), "reads from "+a.C.Term(rs[3].At.(*ssa.Call).Call.Args[0]))
		}
	}
	if f := a.MustFn("(dataMsg).serialize"); f != nil {
		wf, at := a.writerOf(f)
		n := len(wf)
		ok := n == 3 && wf[0].Kind == "BASE" && strings.HasPrefix(wf[0].Term, "makeCopy(") && wf[1].Kind == "BYTES" && strings.HasSuffix(wf[1].Term, "authenticator") && wf[2].Kind == "DATA"
		R.Check(ok, rule, "dataMsg|writer", "data message = unsigned part ‖ MAC ‖ DATA(old MAC keys)", a.C.InstrPos(at), "writes "+fieldsStr(wf))
	}
	if f := a.MustFn("(*dataMsg).deserialize"); f != nil {
		for _, st := range a.DirectStoresTo(a.MustField("dataMsg", "authenticator")) {
			if a.C.within(st, f) {
				a.TermIs(rule, "dataMsg|mac-read", "MAC = hashLength bytes right after the unsigned part", st, st.Val, "$msg[len(dataMsg.serializeUnsignedCache):][0:otrVersion.hashLength($v)]")
			}
		}
		rs := readerStr(a.ReaderSeq(f))
		R.Check(rs == "Data→", rule, "dataMsg|keys-read", "the old MAC keys are one DATA field after the MAC", a.C.Pos(f.Pos()), "reads "+rs)
	}
	// plaintext: text, NUL, TLVs
	if f := a.MustFn("(plainDataMsg).serialize"); f != nil {
		wf, at := a.writerOf(f)
		ok := len(wf) >= 2 && wf[0].Kind == "BASE" && strings.HasSuffix(wf[0].Term, ".message") && wf[1].Kind == "BYTE" && wf[1].Term == "0"
		// inside the loop: SHORT type, SHORT length, value
		R.Check(ok || strings.Contains(fieldsStr(wf), "phi("), rule, "plainDataMsg|writer", "plaintext = message ‖ 0x00 ‖ TLVs", a.C.InstrPos(at), "writes "+fieldsStr(wf))
		var seq []string
		for _, b := range f.Blocks {
			for _, in := range b.Instrs {
				if c, ok := in.(*ssa.Call); ok {
					if sc := c.Call.StaticCallee(); sc != nil && sc.Name() == "AppendShort" {
						seq = append(seq, "SHORT("+fieldTail(a.C.Term(c.Call.Args[1]))+")")
					}
					if bi, isB := c.Call.Value.(*ssa.Builtin); isB && bi.Name() == "append" && strings.HasSuffix(a.C.Term(c.Call.Args[1]), ".tlvValue") {
						seq = append(seq, "BYTES(tlvValue)")
					}
				}
			}
		}
		R.Check(strings.Join(seq, " ") == "SHORT(tlvType) SHORT(tlvLength) BYTES(tlvValue)", rule, "plainDataMsg|tlv-writer", "each TLV is written as SHORT type, SHORT length, value", a.C.Pos(f.Pos()), strings.Join(seq, " "))
	}
	if f := a.MustFn("(*plainDataMsg).deserialize"); f != nil {
		// the TLV loop runs while bytes remain
		loops := naturalLoops(f)
		cs := a.CallsIn(f, "(*tlv).deserialize")
		if len(cs) == 1 {
			l := loopContaining(loops, cs[0])
			ok, d := false, "loop not found"
			if l != nil {
				if iff, isIf := l.Header.Instrs[len(l.Header.Instrs)-1].(*ssa.If); isIf {
					t := a.C.Term(iff.Cond)
					d = "loop condition " + t
					ok = strings.HasPrefix(t, "(len(") && strings.HasSuffix(t, " > 0)")
				}
			}
			R.Check(ok, rule, "plainDataMsg|tlv-loop", "TLVs are parsed while any byte remains (a trailing zero-length TLV is a TLV)", a.C.InstrPos(cs[0]), d)
			// the advance is 4 + length
			for _, b := range f.Blocks {
				for _, in := range b.Instrs {
					if sl, isSl := in.(*ssa.Slice); isSl && sl.Low != nil && l != nil && l.Body[b] {
						t := a.C.Term(sl.Low)
						if strings.Contains(t, "tlvLength") {
							R.Check(t == "(4 + int(new(tlv).tlvLength))", rule, "plainDataMsg|tlv-advance", "advance by the 4-byte TLV header plus the value length", a.C.InstrPos(in), "advance "+t)
						}
					}
				}
			}
		}
	}
	R.Floor(rule, 24)
}

func (a *An) primitives(rule string) {
	R := a.R
	for _, p := range []struct {
		name     string
		w        int
		put, get string
	}{
		{"Short", 2, "PutUint16", "Uint16"}, {"Word", 4, "PutUint32", "Uint32"}, {"Long", 8, "PutUint64", "Uint64"},
	} {
		if f := a.MustFn("Serialize" + p.name); f != nil {
			okPut := false
			width := ""
			for _, b := range f.Blocks {
				for _, in := range b.Instrs {
					if c, ok := in.(*ssa.Call); ok && strings.HasSuffix(a.F.callName(c), "."+p.put) {
						okPut = a.C.Term(c.Call.Args[len(c.Call.Args)-1]) == "$r"
						for _, r := range a.returnsOf(f) {
							if r.Results[0] == c.Call.Args[len(c.Call.Args)-2] {
								width = a.C.Term(r.Results[0])
							}
						}
					}
				}
			}
			wantW := fmt.Sprintf("new([%d]byte)[:%d]", p.w, p.w)
			R.Check(okPut && width == wantW, rule, "Serialize"+p.name, fmt.Sprintf("%d bytes, big endian, of the value", p.w), a.C.Pos(f.Pos()), "returns "+width)
		}
		if f := a.MustFn("Deserialize" + p.name); f != nil {
			for _, r := range a.returnsOf(f) {
				t := a.C.Term(r.Results[0])
				R.Check(strings.HasSuffix(t, "."+p.get+"(global:BigEndian, $d)"), rule, "Deserialize"+p.name, "big endian decode of the first "+fmt.Sprint(p.w)+" bytes", a.C.InstrPos(r), "returns "+t)
			}
		}
		if f := a.MustFn("Append" + p.name); f != nil {
			for _, r := range a.returnsOf(f) {
				a.TermIs(rule, "Append"+p.name, "append of the serialisation", r, r.Results[0], "append($l, Serialize"+p.name+"($r))")
			}
		}
		if f := a.MustFn("Extract" + p.name); f != nil {
			a.SuccessRequires(rule, f, fmt.Sprintf("passed:(len($d) >= %d)", p.w))
			for _, r := range a.returnsOf(f) {
				if a.C.Term(r.Results[2]) != "true" {
					continue
				}
				a.TermIs(rule, "Extract"+p.name+"|rest", "rest", r, r.Results[0], fmt.Sprintf("$d[%d:]", p.w))
				a.TermIs(rule, "Extract"+p.name+"|value", "value", r, r.Results[1], "Deserialize"+p.name+"($d)")
			}
		}
	}
	if f := a.MustFn("AppendData"); f != nil {
		for _, r := range a.returnsOf(f) {
			a.TermIs(rule, "AppendData", "length word then the bytes", r, r.Results[0], "append(AppendWord($l, uint32(len($r))), $r)")
		}
	}
	if f := a.MustFn("AppendMPI"); f != nil {
		for _, r := range a.returnsOf(f) {
			a.TermIs(rule, "AppendMPI", "DATA of the minimal big-endian form", r, r.Results[0], "AppendData($l, (*math/big.Int).Bytes($r))")
		}
	}
	if f := a.MustFn("ExtractData"); f != nil {
		a.SuccessRequires(rule, f, "ok:ExtractWord", "passed:"+canonCmp("len(ExtractWord($d)#0)", ">=", "int(ExtractWord($d)#1)"))
		for _, r := range a.returnsOf(f) {
			if a.C.Term(r.Results[2]) != "true" {
				continue
			}
			a.TermIs(rule, "ExtractData|value", "the length-many bytes after the length word", r, r.Results[1], "ExtractWord($d)#0[:int(ExtractWord($d)#1)]")
			a.TermIs(rule, "ExtractData|rest", "what follows", r, r.Results[0], "ExtractWord($d)#0[int(ExtractWord($d)#1):]")
		}
	}
	if f := a.MustFn("ExtractMPI"); f != nil {
		a.SuccessRequires(rule, f, "ok:ExtractWord", "passed:"+canonCmp("len(ExtractWord($d)#0)", ">=", "int(ExtractWord($d)#1)"))
		for _, r := range a.returnsOf(f) {
			if a.C.Term(r.Results[2]) != "true" {
				continue
			}
			a.TermIs(rule, "ExtractMPI|value", "integer of the length-many bytes", r, r.Results[1], "(*math/big.Int).SetBytes(new(Int), ExtractWord($d)#0[:int(ExtractWord($d)#1)])")
			a.TermIs(rule, "ExtractMPI|rest", "what follows", r, r.Results[0], "ExtractWord($d)#0[int(ExtractWord($d)#1):]")
		}
	}
	if f := a.MustFn("AppendMPIs"); f != nil {
		cs := a.CallsIn(f, "AppendMPI")
		R.Check(len(cs) == 1, rule, "AppendMPIs", "each integer through AppendMPI, in order", a.C.Pos(f.Pos()), fmt.Sprintf("%d calls", len(cs)))
	}
	if f := a.MustFn("ExtractMPIs"); f != nil {
		cs := a.CallsIn(f, "ExtractMPI")
		R.Check(len(cs) == 1 && len(a.CallsIn(f, "ExtractWord")) == 1, rule, "ExtractMPIs", "count word, then each integer through ExtractMPI", a.C.Pos(f.Pos()), "shape differs")
	}
	R.Floor(rule, 24)
}

// smpOrder: the element order of each SMP TLV writer equals the index order of its parser.
func (a *An) smpOrder(rule string) {
	R := a.R
	for i, n := range []string{"1", "2", "3", "4"} {
		w := a.MustFn("(smp" + n + "Message).tlv")
		r := a.MustFn("toSmpMessage" + n)
		if w == nil || r == nil {
			continue
		}
		var wf []string
		for _, cs := range a.CallsIn(w, "genSMPTLV") {
			for _, e := range a.C.variadicElems(cs.Common().Args[1]) {
				wf = append(wf, fieldTail(a.C.Term(e)))
			}
			want := []string{"tlvTypeSMP1", "tlvTypeSMP2", "tlvTypeSMP3", "tlvTypeSMP4"}[i]
			a.TermIs(rule, "smp"+n+"|type", "TLV type", cs, cs.Common().Args[0], a.MustConst(want))
		}
		rf := map[int]string{}
		for _, b := range r.Blocks {
			for _, in := range b.Instrs {
				st, ok := in.(*ssa.Store)
				if !ok {
					continue
				}
				fa, ok := st.Addr.(*ssa.FieldAddr)
				if !ok {
					continue
				}
				t := a.C.Term(st.Val)
				if j := strings.LastIndex(t, "#1["); j >= 0 && strings.HasSuffix(t, "]") {
					var idx int
					fmt.Sscan(t[j+3:len(t)-1], &idx)
					rf[idx] = fieldOf(fa).Name()
				}
			}
		}
		var rl []string
		for k := 0; k < len(rf); k++ {
			rl = append(rl, rf[k])
		}
		R.Check(len(wf) > 0 && strings.Join(wf, ",") == strings.Join(rl, ","), rule, "smp"+n+"|order", "writer element order equals parser index order", a.C.Pos(w.Pos()), "writer "+strings.Join(wf, ",")+" / parser "+strings.Join(rl, ","))
	}
	if f := a.MustFn("genSMPTLV"); f != nil {
		for _, b := range f.Blocks {
			for _, in := range b.Instrs {
				if c, ok := in.(*ssa.Call); ok && a.F.callName(c) == "AppendMPIs" {
					wf := a.C.WriterFields(c)
					R.Check(len(wf) >= 2 && wf[len(wf)-2].Kind == "WORD" && wf[len(wf)-2].Term == "uint32(len($mpis))", rule, "genSMPTLV|count", "SMP payload = WORD count, then the MPIs", a.C.InstrPos(c), fieldsStr(wf))
				}
			}
		}
	}
	// question: 1Q carries the question, NUL, then the SMP1 payload; the flag selects the type on both sides
	if f := a.MustFn("(smp1Message).tlv"); f != nil {
		q := a.MustConst("tlvTypeSMP1WithQuestion")
		for _, st := range a.DirectStoresTo(a.MustField("tlv", "tlvType")) {
			if a.C.within(st, f) && a.C.Term(st.Val) == q {
				a.GateLocal(rule, "smp1|question-flag", st, "choosing the with-question TLV type", "passed:smp1Message.hasQuestion")
			}
		}
		for _, st := range a.DirectStoresTo(a.MustField("tlv", "tlvValue")) {
			if a.C.within(st, f) {
				t := a.C.Term(st.Val)
				R.Check(strings.HasPrefix(t, "append(append(smp1Message.question, new([1]byte)[:]), ") && strings.HasSuffix(t, ".tlvValue)"), rule, "smp1|question-layout", "question ‖ NUL ‖ SMP1 payload", a.C.InstrPos(st), t)
			}
		}
	}
	if f := a.MustFn("toSmpMessage1Q"); f != nil {
		for _, r := range a.returnsOf(f) {
			_ = r
		}
		n := 0
		for _, b := range f.Blocks {
			for _, in := range b.Instrs {
				if st, ok := in.(*ssa.Store); ok {
					if fa, ok := st.Addr.(*ssa.FieldAddr); ok && fieldOf(fa).Name() == "hasQuestion" {
						n++
						a.TermIs(rule, "smp1Q|flag", "a with-question TLV sets the flag", st, st.Val, "true")
					}
				}
			}
		}
		R.Check(n == 1, rule, "smp1Q|flag-store", "the parser of the with-question TLV sets hasQuestion", a.C.Pos(f.Pos()), fmt.Sprintf("%d", n))
	}
	R.Floor(rule, 12)
}

// tlvLengths: wherever a TLV is built, its length field is the length of its value.
func (a *An) tlvLengths(rule string) {
	R := a.R
	norm := func(s string) string {
		s = strings.ReplaceAll(s, "uint16(", "(")
		for strings.Contains(s, "((") && false {
		}
		return s
	}
	n := 0
	for _, f := range a.C.FuncSeq {
		byAlloc := map[ssa.Value]map[string]*ssa.Store{}
		for _, b := range f.Blocks {
			for _, in := range b.Instrs {
				st, ok := in.(*ssa.Store)
				if !ok {
					continue
				}
				fa, ok := st.Addr.(*ssa.FieldAddr)
				if !ok || typeName(fa.X.Type()) != "tlv" {
					continue
				}
				nm := fieldOf(fa).Name()
				if nm != "tlvLength" && nm != "tlvValue" {
					continue
				}
				if byAlloc[fa.X] == nil {
					byAlloc[fa.X] = map[string]*ssa.Store{}
				}
				byAlloc[fa.X][nm] = st
			}
		}
		for _, m := range byAlloc {
			ls, vs := m["tlvLength"], m["tlvValue"]
			if ls == nil || vs == nil {
				continue
			}
			n++
			lt, vt := norm(a.C.Term(ls.Val)), a.C.Term(vs.Val)
			var want []string
			want = append(want, "(len("+vt+"))")
			if strings.HasPrefix(vt, "makeslice(") {
				want = append(want, "("+strings.TrimSuffix(strings.TrimPrefix(vt, "makeslice("), ")")+")")
			}
			if strings.HasPrefix(vt, "append(AppendWord(nil, ") {
				// 4 + len(rest)
				rest := vt[strings.Index(vt, "), ")+3 : len(vt)-1]
				want = append(want, "(4 + (len("+rest+")))")
			}
			// the value may be held in a local that the length was computed from
			ok := false
			for _, w := range want {
				if lt == w {
					ok = true
				}
			}
			if !ok && strings.HasPrefix(lt, "(len(") {
				inner := lt[5 : len(lt)-2]
				if inner == vt {
					ok = true
				}
				// the length is taken from the field that was just stored
				if strings.HasSuffix(inner, ".tlvValue") && instrDominates(vs, ls) {
					if ld, isLd := stripConv(ls.Val).(*ssa.Call); isLd && len(ld.Call.Args) == 1 {
						if u, isU := ld.Call.Args[0].(*ssa.UnOp); isU {
							f1, ok1 := u.X.(*ssa.FieldAddr)
							f2, ok2 := vs.Addr.(*ssa.FieldAddr)
							if ok1 && ok2 && f1.X == f2.X && f1.Field == f2.Field {
								ok = true
							}
						}
					}
				}
			}
			// parser side: the value is cut to the length that was read
			if !ok && strings.HasSuffix(vt, "[:int(tlv.tlvLength)]") {
				ok = true
			}
			R.Check(ok, rule, a.C.Name(f)+"|length=len(value)", "the TLV length field is the length of the value written with it", a.C.InstrPos(ls), "length "+a.C.Term(ls.Val)+" for value "+vt)
		}
	}
	R.Check(n >= 3, rule, "sites", "TLV construction sites with both length and value", "", fmt.Sprintf("%d", n))
}

func (a *An) keyFileGrammar(rule string) {
	R := a.R
	// writer tokens
	var heads []string
	for _, name := range []string{"exportAccounts", "exportAccount", "exportName", "exportProtocol", "exportPrivateKey", "exportDSAPrivateKey"} {
		f := a.MustFn(name)
		if f == nil {
			continue
		}
		for _, b := range f.Blocks {
			for _, in := range b.Instrs {
				if c, ok := in.(*ssa.Call); ok && strings.HasSuffix(a.F.callName(c), ".WriteString") {
					t := a.C.Term(c.Call.Args[len(c.Call.Args)-1])
					if strings.HasPrefix(t, "\"(") {
						h := strings.Trim(t, "\"")
						h = strings.TrimPrefix(h, "(")
						h = strings.TrimRight(h, "\\n \"")
						heads = append(heads, h)
					}
				}
			}
		}
	}
	var expects []string
	for _, name := range []string{"readAccounts", "readAccount", "readAccountName", "readAccountProtocol", "readPrivateKey", "readDSAPrivateKey"} {
		f := a.MustFn(name)
		if f == nil {
			continue
		}
		for _, cs := range a.CallsIn(f, "readSymbolAndExpect") {
			expects = append(expects, strings.Trim(a.C.Term(cs.Common().Args[1]), "\""))
		}
	}
	R.Check(strings.Join(heads, ",") == "privkeys,account,name,protocol,private-key,dsa" && strings.Join(expects, ",") == strings.Join(heads, ","), rule, "heads", "writer and reader use the same list heads in the same nesting order", "", "writer "+strings.Join(heads, ",")+" / reader "+strings.Join(expects, ","))
	// parameters
	if f := a.MustFn("exportDSAPrivateKey"); f != nil {
		var ps []string
		for _, cs := range a.CallsIn(f, "exportParameter") {
			ps = append(ps, strings.Trim(a.C.Term(cs.Common().Args[0]), "\"")+"="+fieldTail(a.C.Term(cs.Common().Args[1])))
		}
		R.Check(strings.Join(ps, ",") == "p=P,q=Q,g=G,y=Y,x=X", rule, "parameters|writer", "parameters p,q,g,y,x carry P,Q,G,Y,X", a.C.Pos(f.Pos()), strings.Join(ps, ","))
	}
	if f := a.MustFn("assignParameter"); f != nil {
		got := map[string]string{}
		for _, c := range []string{"g", "p", "q", "x", "y", "z"} {
			paths, _ := a.C.Paths(f, func(p *Path, cond ssa.Value) Tri {
				v := p.Resolve(cond)
				if bo, ok := v.(*ssa.BinOp); ok {
					if k, isK := bo.Y.(*ssa.Const); isK && a.C.Term(bo.X) == "$s" {
						return triOf(strings.Trim(constStr(k), "\"") == c)
					}
				}
				return Unknown
			}, 64)
			for _, p := range paths {
				for _, in := range p.Instrs {
					if st, ok := in.(*ssa.Store); ok {
						if fa, ok := st.Addr.(*ssa.FieldAddr); ok && a.C.Term(st.Val) == "$v" {
							got[c] = fieldOf(fa).Name()
						}
					}
				}
				if p.Ret != nil && c == "z" && a.C.Term(p.Resolve(p.Ret.Results[0])) != "false" {
					got[c] = "accepted"
				}
			}
		}
		R.Check(got["p"] == "P" && got["q"] == "Q" && got["g"] == "G" && got["y"] == "Y" && got["x"] == "X" && got["z"] == "", rule, "parameters|reader", "the reader assigns p,q,g,y,x to P,Q,G,Y,X and rejects other names", a.C.Pos(f.Pos()), fmt.Sprintf("%v", got))
	}
	if f := a.MustFn("exportParameter"); f != nil {
		okF := false
		for _, b := range f.Blocks {
			for _, in := range b.Instrs {
				if c, ok := in.(*ssa.Call); ok && a.F.callName(c) == "fmt.Sprintf" {
					okF = a.C.Term(c.Call.Args[0]) == `"(%s #%X#)\n"`
				}
			}
		}
		R.Check(okF, rule, "parameter|format", "parameter written as (name #HEX#)", a.C.Pos(f.Pos()), "format differs")
	}
	// atoms are read back verbatim
	for name, want := range map[string]string{
		"sexp.ReadString": "sexp.ReadDataUntil($r, sexp.untilFixed(34))",
		"sexp.ReadSymbol": "sexp.ReadDataUntil($r, func:sexp.isNotSymbolCharacter)",
		"sexp.ReadBigNum": "sexp.NewBigNum(sexp.ReadDataUntil($r, sexp.untilFixed(35)))",
	} {
		f := a.MustFn(name)
		if f == nil {
			continue
		}
		found := false
		var got []string
		for _, r := range a.returnsOf(f) {
			if isNilConst(r.Results[0]) {
				continue
			}
			t := a.C.Term(r.Results[0])
			got = append(got, t)
			if strings.ReplaceAll(t, "string(", "(") == strings.ReplaceAll(want, "string(", "(") || t == want {
				found = true
			}
		}
		R.Check(found && len(got) == 1, rule, name+"|verbatim", "the atom is the bytes up to its terminator, unmodified", a.C.Pos(f.Pos()), "returns "+strings.Join(got, " / "))
	}
	if f := a.MustFn("sexp.ReadDataUntil"); f != nil {
		// every byte that is consumed is appended
		loops := naturalLoops(f)
		ok := len(loops) == 1
		if ok {
			nApp, nRead := 0, 0
			for b := range loops[0].Body {
				for _, in := range b.Instrs {
					if c, isC := in.(*ssa.Call); isC {
						if bi, isB := c.Call.Value.(*ssa.Builtin); isB && bi.Name() == "append" {
							nApp++
						}
						if a.F.callName(c) == "(*bufio.Reader).ReadByte" {
							nRead++
						}
					}
				}
			}
			ok = nApp == 1 && nRead == 1 && len(loops[0].Body) <= 3
		}
		R.Check(ok, rule, "ReadDataUntil|all-bytes", "every consumed byte is collected (one read, one append per iteration, no other branch)", a.C.Pos(f.Pos()), "loop shape differs")
	}
	if f := a.MustFn("exportName"); f != nil {
		var seq []string
		for _, b := range f.Blocks {
			for _, in := range b.Instrs {
				if c, ok := in.(*ssa.Call); ok && strings.HasSuffix(a.F.callName(c), ".WriteString") {
					seq = append(seq, a.C.Term(c.Call.Args[len(c.Call.Args)-1]))
				}
			}
		}
		R.Check(len(seq) == 4 && seq[2] == "$n", rule, "exportName|verbatim", "the account name is written verbatim between quotes", a.C.Pos(f.Pos()), strings.Join(seq, " "))
	}
	R.Floor(rule, 9)
}

func stripConv(v ssa.Value) ssa.Value {
	for {
		switch x := v.(type) {
		case *ssa.Convert:
			v = x.X
			continue
		case *ssa.ChangeType:
			v = x.X
			continue
		}
		return v
	}
}
