package main

import (
	"fmt"
	"go/token"
	"go/types"
	"os"
	"sort"
	"strings"

	"golang.org/x/tools/go/callgraph"
	"golang.org/x/tools/go/callgraph/cha"
	"golang.org/x/tools/go/callgraph/vta"
	"golang.org/x/tools/go/packages"
	"golang.org/x/tools/go/ssa"
	"golang.org/x/tools/go/ssa/ssautil"
)

const otrPath = "github.com/coyim/otr3"
const sexpPath = "github.com/coyim/otr3/sexp"

// Ctx is the loaded, type-checked and SSA-built program for one build configuration.
type Ctx struct {
	RepoDir string
	GOARCH  string
	Fset    *token.FileSet
	Pkgs    []*packages.Package
	Prog    *ssa.Program
	Otr     *ssa.Package
	Sexp    *ssa.Package
	CG      *callgraph.Graph
	CHA     *callgraph.Graph
	// Funcs: every source-level function (incl. anonymous) of the two packages by canonical name.
	Funcs   map[string]*ssa.Function
	FuncSeq []*ssa.Function // deterministic order
	name    map[*ssa.Function]string
	// looking through functions that are new with respect to the frozen table (terms.go)
	soleCalls map[*ssa.Function]ssa.CallInstruction
	tenv      *termEnv
	phiOn     map[*ssa.Phi]bool
	retParam  map[*ssa.Function]int
	aliases   map[*ssa.Function]string
	arith     map[*ssa.Function]bool
	bceDone   bool
	bceSites  []BCESite
	bceErr    error
}

// theCtx: the program being analysed (one per process; used by the control-flow helpers to look through new helpers).
var theCtx *Ctx

// noRenames: analyse the tree as spelled (maintenance runs that record the reviewed declarations).
var noRenames bool

// Load loads /repo's current working tree. It fails (returns error) on any type error.
func Load(repo, goarch string) (*Ctx, error) {
	env := os.Environ()
	env = append(env, "GOFLAGS=-mod=mod", "GOPROXY=off", "GOSUMDB=off", "GOTOOLCHAIN=local", "GOWORK=off", "CGO_ENABLED=0")
	if goarch != "" {
		env = append(env, "GOARCH="+goarch)
	}
	cfg := &packages.Config{
		Mode:  packages.LoadAllSyntax,
		Dir:   repo,
		Tests: false,
		Env:   env,
	}
	pkgs, err := packages.Load(cfg, "./...")
	if err != nil {
		return nil, fmt.Errorf("load: %v", err)
	}
	var errs []string
	packages.Visit(pkgs, nil, func(p *packages.Package) {
		for _, e := range p.Errors {
			errs = append(errs, e.Error())
		}
	})
	if len(errs) > 0 {
		return nil, fmt.Errorf("package errors: %s", strings.Join(errs, "; "))
	}
	// keep only the two library packages as roots (compat/ and libotr-test need cgo/libotr and have build tags)
	var roots []*packages.Package
	for _, p := range pkgs {
		if p.PkgPath == otrPath || p.PkgPath == sexpPath {
			roots = append(roots, p)
		}
	}
	if len(roots) < 2 {
		return nil, fmt.Errorf("expected packages %s and %s, got %d roots of %d loaded", otrPath, sexpPath, len(roots), len(pkgs))
	}
	// declarations that are reviewed ones under another name: load again with those identifiers spelled the reviewed way
	if !noRenames && planRenames(roots) > 0 {
		cfg2 := &packages.Config{Mode: packages.LoadAllSyntax, Dir: repo, Tests: false, Env: env, ParseFile: respellingParser}
		pkgs2, err2 := packages.Load(cfg2, "./...")
		bad := err2 != nil
		var roots2 []*packages.Package
		if !bad {
			packages.Visit(pkgs2, nil, func(p *packages.Package) {
				if len(p.Errors) > 0 {
					bad = true
				}
			})
			for _, p := range pkgs2 {
				if p.PkgPath == otrPath || p.PkgPath == sexpPath {
					roots2 = append(roots2, p)
				}
			}
		}
		if !bad && len(roots2) == len(roots) {
			roots = roots2
		} else {
			// the respelled tree does not type-check (a reviewed name is taken by something else): analyse as written
			renamedAt = map[string]map[int]respell{}
			recognisedRenames = append(recognisedRenames, "not applied: the tree does not type-check under the reviewed names")
		}
	}
	prog, _ := ssautil.AllPackages(roots, ssa.InstantiateGenerics)
	prog.Build()
	c := &Ctx{RepoDir: repo, GOARCH: goarch, Pkgs: roots, Prog: prog, Fset: prog.Fset}
	for _, p := range prog.AllPackages() {
		switch p.Pkg.Path() {
		case otrPath:
			c.Otr = p
		case sexpPath:
			c.Sexp = p
		}
	}
	if c.Otr == nil || c.Sexp == nil {
		return nil, fmt.Errorf("ssa packages missing")
	}
	all := ssautil.AllFunctions(prog)
	c.CHA = cha.CallGraph(prog)
	c.CG = vta.CallGraph(all, c.CHA)
	c.Funcs = map[string]*ssa.Function{}
	c.name = map[*ssa.Function]string{}
	for f := range all {
		if f.Pkg != c.Otr && f.Pkg != c.Sexp {
			// methods promoted / wrappers have Pkg nil; anonymous have parent
			if f.Parent() == nil || (f.Parent().Pkg != c.Otr && f.Parent().Pkg != c.Sexp) {
				if f.Synthetic == "" || f.Pkg != nil {
					continue
				}
				// synthetic wrapper without package: keep only if its object belongs to our packages
				if f.Object() == nil || f.Object().Pkg() == nil || (f.Object().Pkg().Path() != otrPath && f.Object().Pkg().Path() != sexpPath) {
					continue
				}
			}
		}
		n := c.canon(f)
		if old, dup := c.Funcs[n]; dup {
			// prefer non-synthetic
			if old.Synthetic == "" {
				continue
			}
		}
		c.Funcs[n] = f
		c.name[f] = n
	}
	var names []string
	for n := range c.Funcs {
		names = append(names, n)
	}
	sort.Strings(names)
	for _, n := range names {
		f := c.Funcs[n]
		if f.Synthetic != "" && f.Synthetic != "package initializer" {
			// wrappers, bound-method closures, thunks: resolved through unwrap, never analysed as callers
			delete(c.name, f)
			delete(c.Funcs, n)
			continue
		}
		c.FuncSeq = append(c.FuncSeq, f)
	}
	theCtx = c
	return c, nil
}

func (c *Ctx) canon(f *ssa.Function) string {
	s := f.RelString(c.Otr.Pkg)
	s = strings.ReplaceAll(s, sexpPath+".", "sexp.")
	s = strings.ReplaceAll(s, otrPath+".", "")
	if f.Synthetic != "" {
		// wrappers / bounds / thunks: disambiguate
		if strings.HasPrefix(f.Synthetic, "wrapper") {
			s += "$wrapper"
		} else if strings.HasPrefix(f.Synthetic, "bound") {
			s += "$bound"
		} else if strings.HasPrefix(f.Synthetic, "thunk") {
			s += "$thunk"
		} else if f.Synthetic != "package initializer" {
			s += "$" + strings.Fields(f.Synthetic)[0]
		}
	}
	return s
}

// Name returns the canonical name of any function (library functions get their full name).
func (c *Ctx) Name(f *ssa.Function) string {
	if f == nil {
		return "<nil>"
	}
	if n, ok := c.name[f]; ok && (f.Synthetic == "" || f.Synthetic == "package initializer") {
		return n
	}
	s := f.RelString(c.Otr.Pkg)
	s = strings.ReplaceAll(s, otrPath+".", "")
	return s
}

// Fn resolves a canonical function name; ok=false when it does not exist.
func (c *Ctx) Fn(name string) (*ssa.Function, bool) {
	f, ok := c.Funcs[name]
	return f, ok
}

// IsLib reports whether f is a source function of the two analysed packages (not synthetic).
func (c *Ctx) IsLib(f *ssa.Function) bool {
	if f == nil {
		return false
	}
	_, ok := c.name[f]
	return ok && f.Blocks != nil
}

func (c *Ctx) Pos(p token.Pos) string {
	if !p.IsValid() {
		return "-"
	}
	pp := c.Fset.Position(p)
	fn := pp.Filename
	if strings.HasPrefix(fn, c.RepoDir+"/") {
		fn = fn[len(c.RepoDir)+1:]
	}
	return fmt.Sprintf("%s:%d", fn, pp.Line)
}

// InstrPos gives the best available position of an instruction (falls back to neighbours / function).
func (c *Ctx) InstrPos(in ssa.Instruction) string {
	if in == nil {
		return "-"
	}
	if in.Pos().IsValid() {
		return c.Pos(in.Pos())
	}
	if v, ok := in.(ssa.Value); ok {
		_ = v
	}
	b := in.Block()
	if b != nil {
		idx := -1
		for i, x := range b.Instrs {
			if x == in {
				idx = i
			}
		}
		for d := 1; d < len(b.Instrs); d++ {
			for _, j := range []int{idx - d, idx + d} {
				if j >= 0 && j < len(b.Instrs) && b.Instrs[j].Pos().IsValid() {
					return c.Pos(b.Instrs[j].Pos()) + "~"
				}
			}
		}
		if b.Parent() != nil {
			return c.Pos(b.Parent().Pos()) + "~"
		}
	}
	return "-"
}

// Callees returns the possible callees of a call instruction: the static callee, or the VTA edges.
func (c *Ctx) Callees(call ssa.CallInstruction) []*ssa.Function {
	if sc := call.Common().StaticCallee(); sc != nil {
		return []*ssa.Function{sc}
	}
	n := c.CG.Nodes[call.Parent()]
	if n == nil {
		return nil
	}
	var out []*ssa.Function
	seen := map[*ssa.Function]bool{}
	for _, e := range n.Out {
		if e.Site == call && !seen[e.Callee.Func] {
			seen[e.Callee.Func] = true
			out = append(out, e.Callee.Func)
		}
	}
	sort.Slice(out, func(i, j int) bool { return c.Name(out[i]) < c.Name(out[j]) })
	return out
}

// CalleesCHA is the class-hierarchy resolution (informational only).
func (c *Ctx) CalleesCHA(call ssa.CallInstruction) []*ssa.Function {
	if sc := call.Common().StaticCallee(); sc != nil {
		return []*ssa.Function{sc}
	}
	n := c.CHA.Nodes[call.Parent()]
	if n == nil {
		return nil
	}
	var out []*ssa.Function
	seen := map[*ssa.Function]bool{}
	for _, e := range n.Out {
		if e.Site == call && !seen[e.Callee.Func] {
			seen[e.Callee.Func] = true
			out = append(out, e.Callee.Func)
		}
	}
	sort.Slice(out, func(i, j int) bool { return c.Name(out[i]) < c.Name(out[j]) })
	return out
}

// unwrap follows synthetic wrappers/bound-method closures to the underlying declared function.
func (c *Ctx) unwrap(f *ssa.Function) *ssa.Function {
	for f != nil && f.Synthetic != "" && f.Blocks != nil {
		var target *ssa.Function
		n := 0
		for _, b := range f.Blocks {
			for _, in := range b.Instrs {
				if call, ok := in.(ssa.CallInstruction); ok {
					if sc := call.Common().StaticCallee(); sc != nil {
						target = sc
						n++
					}
				}
			}
		}
		if n != 1 || target == f {
			return f
		}
		f = target
	}
	return f
}

// Field looks up a struct field object by "Type.field" in package otr3 (or "sexp.Type.field").
func (c *Ctx) Field(typeName, field string) (*types.Var, error) {
	pkg := c.Otr.Pkg
	if strings.HasPrefix(typeName, "sexp.") {
		pkg = c.Sexp.Pkg
		typeName = typeName[5:]
	}
	obj := pkg.Scope().Lookup(typeName)
	if obj == nil {
		return nil, fmt.Errorf("type %s not found", typeName)
	}
	st, ok := obj.Type().Underlying().(*types.Struct)
	if !ok {
		return nil, fmt.Errorf("%s is not a struct", typeName)
	}
	for i := 0; i < st.NumFields(); i++ {
		if st.Field(i).Name() == field {
			return st.Field(i), nil
		}
	}
	return nil, fmt.Errorf("field %s.%s not found", typeName, field)
}

// ConstVal returns the exact string of a package-level constant (e.g. "requireEncryption" -> "8").
func (c *Ctx) ConstVal(name string) (string, error) {
	obj := c.Otr.Pkg.Scope().Lookup(name)
	k, ok := obj.(*types.Const)
	if !ok {
		return "", fmt.Errorf("constant %s not found", name)
	}
	return k.Val().ExactString(), nil
}

// Global returns the ssa.Global for a package-level variable of otr3.
func (c *Ctx) Global(name string) (*ssa.Global, bool) {
	pkg := c.Otr
	if strings.HasPrefix(name, "sexp.") {
		pkg = c.Sexp
		name = name[5:]
	}
	m, ok := pkg.Members[name]
	if !ok {
		return nil, false
	}
	g, ok := m.(*ssa.Global)
	return g, ok
}
