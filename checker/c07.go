package main

import (
	"fmt"
	"sort"
	"strings"

	"golang.org/x/tools/go/ssa"
)

// ---- extraction of the AKE control skeleton --------------------------------------------------------

type akeOutcome struct {
	Next     string   // state type name, or "self"
	Emit     string   // "", "DHCommit", "DHKey", "RevealSig", "Sig"
	Finished bool     // passes akeHasFinished
	Conds    []string // data-dependent decisions taken (everything that is not the status of a check)
}

func (o akeOutcome) String() string {
	s := "→" + o.Next
	if o.Emit != "" {
		s += " emit " + o.Emit
	}
	if o.Finished {
		s += " [finished]"
	}
	if len(o.Conds) > 0 {
		s += " if " + strings.Join(o.Conds, " ∧ ")
	}
	return s
}

type akeSkeleton struct {
	a                     *An
	kinds                 map[string]string       // constant value -> kind name
	dispatch              map[string]string       // kind -> handler method name
	cells                 map[string][]akeOutcome // "state|kind" -> outcomes
	states                []string
	queryState, queryEmit string
	problems              []string
}

func (a *An) extractAKE() *akeSkeleton {
	sk := &akeSkeleton{a: a, kinds: map[string]string{}, dispatch: map[string]string{}, cells: map[string][]akeOutcome{}}
	for name, kind := range map[string]string{"msgTypeDHCommit": "DHCommit", "msgTypeDHKey": "DHKey", "msgTypeRevealSig": "RevealSig", "msgTypeSig": "Sig", "msgTypeData": "Data"} {
		sk.kinds[a.MustConst(name)] = kind
	}
	// dispatch in processAKE
	if pa := a.MustFn("(*Conversation).processAKE"); pa != nil {
		for cv, kind := range sk.kinds {
			if kind == "Data" {
				continue
			}
			var v int64
			fmt.Sscan(cv, &v)
			paths, _ := a.C.Paths(pa, a.C.valOracle(valCase{"$msgType": v}, nil), 64)
			methods := map[string]bool{}
			for _, p := range paths {
				for _, in := range p.Instrs {
					if call, ok := in.(*ssa.Call); ok && call.Call.IsInvoke() && strings.HasPrefix(call.Call.Method.Name(), "receive") {
						methods[call.Call.Method.Name()] = true
					}
				}
			}
			if len(methods) != 1 {
				sk.problems = append(sk.problems, fmt.Sprintf("processAKE dispatches message type %s to %d handlers", kind, len(methods)))
				continue
			}
			for m := range methods {
				sk.dispatch[kind] = m
			}
		}
	}
	// handler cells
	seenState := map[string]bool{}
	for _, h := range a.akeHandlers() {
		st := typeName(h.Signature.Recv().Type())
		if st == "authStateBase" {
			continue
		}
		seenState[st] = true
	}
	for st := range seenState {
		sk.states = append(sk.states, st)
	}
	sort.Strings(sk.states)
	for _, st := range sk.states {
		for kind, method := range sk.dispatch {
			fn := a.methodOf(st, method)
			if fn == nil {
				sk.problems = append(sk.problems, "no handler "+method+" for state "+st)
				continue
			}
			outs := sk.outcomes(fn, st, 0)
			sk.cells[st+"|"+kind] = outs
		}
	}
	// start by query / whitespace tag: sendDHCommit
	if sd := a.MustFn("(*Conversation).sendDHCommit"); sd != nil {
		fld := a.MustField("ake", "state")
		for _, st := range a.DirectStoresTo(fld) {
			if a.C.within(st, sd) {
				if mi, ok := st.Val.(*ssa.MakeInterface); ok {
					sk.queryState = typeName(mi.X.Type())
				}
			}
		}
		for _, cs := range a.CallsIn(sd, "(*Conversation).wrapMessageHeader") {
			sk.queryEmit = sk.kinds[a.C.Term(cs.Common().Args[1])]
		}
		if sk.queryState == "" || sk.queryEmit == "" {
			sk.problems = append(sk.problems, "sendDHCommit: state/emitted kind not recognised")
		}
	}
	return sk
}

// methodOf finds the method implementation used for a concrete state type (own or promoted from an embedded base).
func (a *An) methodOf(state, method string) *ssa.Function {
	if f, ok := a.C.Fn("(" + state + ")." + method); ok {
		return f
	}
	// promoted through embedding: look for the wrapper's target
	obj := a.C.Otr.Pkg.Scope().Lookup(state)
	if obj == nil {
		return nil
	}
	ms := a.C.Prog.MethodSets.MethodSet(obj.Type())
	for i := 0; i < ms.Len(); i++ {
		if ms.At(i).Obj().Name() == method {
			f := a.C.Prog.MethodValue(ms.At(i))
			return a.C.unwrap(f)
		}
	}
	return nil
}

func (sk *akeSkeleton) outcomes(fn *ssa.Function, self string, depth int) []akeOutcome {
	a := sk.a
	if depth > 3 {
		sk.problems = append(sk.problems, "delegation too deep in "+a.C.Name(fn))
		return nil
	}
	paths, complete := a.C.Paths(fn, a.F.optimisticOracle, 512)
	if !complete {
		sk.problems = append(sk.problems, "path enumeration incomplete in "+a.C.Name(fn))
	}
	var outs []akeOutcome
	seen := map[string]bool{}
	for _, p := range paths {
		if p.Ret == nil || len(p.Ret.Results) != 3 {
			continue
		}
		// skip paths that hand back a validation failure even optimistically (a provably non-nil error)
		if a.F.ErrTri(p, p.Ret.Results[2]) == False {
			continue
		}
		var conds []string
		for _, d := range p.Decisions {
			if !d.Forced {
				conds = append(conds, d.Term)
			}
		}
		base := akeOutcome{Conds: conds}
		for _, in := range p.Instrs {
			if call, ok := in.(*ssa.Call); ok && a.F.callName(call) == "(*Conversation).akeHasFinished" {
				base.Finished = true
			}
		}
		if ex, ok := p.Ret.Results[2].(*ssa.Extract); ok {
			_ = ex
		}
		if call, ok := p.Resolve(p.Ret.Results[2]).(*ssa.Call); ok && a.F.callName(call) == "(*Conversation).akeHasFinished" {
			base.Finished = true
		}
		sv := p.Resolve(p.Ret.Results[0])
		mv := p.Resolve(p.Ret.Results[1])
		// delegation: state and message are results of another handler
		if ex, ok := sv.(*ssa.Extract); ok {
			if call, isCall := ex.Tuple.(*ssa.Call); isCall {
				if sc := call.Call.StaticCallee(); sc != nil && sc.Signature.Recv() != nil {
					dself := typeName(call.Call.Args[0].Type())
					for _, do := range sk.outcomes(sc, dself, depth+1) {
						o := do
						if o.Next == "self" {
							o.Next = dself
						}
						o.Conds = append(append([]string{}, base.Conds...), do.Conds...)
						o.Finished = o.Finished || base.Finished
						k := o.String()
						if !seen[k] {
							seen[k] = true
							outs = append(outs, o)
						}
					}
					continue
				}
			}
			sk.problems = append(sk.problems, "unrecognised next state "+a.C.Term(sv)+" in "+a.C.Name(fn))
			continue
		}
		o := base
		switch x := sv.(type) {
		case *ssa.MakeInterface:
			inner := x.X
			if _, isParam := inner.(*ssa.Parameter); isParam {
				o.Next = "self"
			} else if u, isU := inner.(*ssa.UnOp); isU {
				if al, isAl := u.X.(*ssa.Alloc); isAl && spilledParam(al) != nil {
					o.Next = "self"
				} else {
					o.Next = typeName(inner.Type())
				}
			} else {
				o.Next = typeName(inner.Type())
			}
		default:
			sk.problems = append(sk.problems, "unrecognised next state "+a.C.Term(sv)+" in "+a.C.Name(fn))
			continue
		}
		if o.Next == self {
			o.Next = "self"
		}
		switch {
		case isNilConst(mv):
		default:
			t := a.C.Term(mv)
			switch {
			case strings.HasPrefix(t, "(*Conversation).wrapMessageHeader($c, "):
				cv := strings.TrimPrefix(t, "(*Conversation).wrapMessageHeader($c, ")
				cv = cv[:strings.IndexAny(cv, ",)")]
				o.Emit = sk.kinds[cv]
				if o.Emit == "" {
					sk.problems = append(sk.problems, "unknown emitted message type "+cv+" in "+a.C.Name(fn))
				}
			case strings.HasSuffix(t, ".revealSigMsg"):
				o.Emit = "RevealSig"
			default:
				sk.problems = append(sk.problems, "unrecognised emitted message "+t+" in "+a.C.Name(fn))
			}
		}
		k := o.String()
		if !seen[k] {
			seen[k] = true
			outs = append(outs, o)
		}
	}
	sort.Slice(outs, func(i, j int) bool { return outs[i].String() < outs[j].String() })
	return outs
}

// ---- exploration of the two-party skeleton ---------------------------------------------------------

type party struct {
	state    string
	enc      bool
	finished int
}

type config struct {
	a, b    party
	ab, ba  string // queues as comma-joined kinds
	aHigher bool
	steps   int
}

func (c config) key() string {
	return fmt.Sprintf("%s/%v/%d|%s/%v/%d|%s|%s|%v", c.a.state, c.a.enc, min2(c.a.finished, 2), c.b.state, c.b.enc, min2(c.b.finished, 2), c.ab, c.ba, c.aHigher)
}

func min2(a, b int) int {
	if a < b {
		return a
	}
	return b
}

func pushQ(q, k string) string {
	if q == "" {
		return k
	}
	return q + "," + k
}

func popQ(q string) (string, string) {
	i := strings.Index(q, ",")
	if i < 0 {
		return q, ""
	}
	return q[:i], q[i+1:]
}

func qLen(q string) int {
	if q == "" {
		return 0
	}
	return strings.Count(q, ",") + 1
}

type exploreResult struct {
	states, transitions int
	stuck               []string // descriptions of stuck terminal configurations with trace
	overflow            bool
}

func (sk *akeSkeleton) explore(start config, needFinished bool, qbound int) exploreResult {
	var res exploreResult
	type node struct {
		c     config
		trace []string
	}
	seen := map[string]bool{}
	queue := []node{{start, nil}}
	seen[start.key()] = true
	stuckSeen := map[string]bool{}
	for len(queue) > 0 {
		n := queue[0]
		queue = queue[1:]
		res.states++
		c := n.c
		if c.ab == "" && c.ba == "" {
			ok := c.a.enc && c.b.enc
			if needFinished {
				ok = ok && c.a.finished > 0 && c.b.finished > 0
			}
			if !ok {
				d := fmt.Sprintf("quiescent with A=%s(encrypted=%v) B=%s(encrypted=%v)", c.a.state, c.a.enc, c.b.state, c.b.enc)
				if !stuckSeen[d] {
					stuckSeen[d] = true
					res.stuck = append(res.stuck, d+" after: "+strings.Join(n.trace, "; "))
				}
			}
			continue
		}
		if len(n.trace) > 40 {
			res.overflow = true
			continue
		}
		// deliver one message to B or to A
		for _, toB := range []bool{true, false} {
			q := c.ba
			if toB {
				q = c.ab
			}
			if q == "" {
				continue
			}
			kind, rest := popQ(q)
			recv := c.a
			if toB {
				recv = c.b
			}
			var outs []akeOutcome
			if kind == "Query" {
				outs = []akeOutcome{{Next: sk.queryState, Emit: sk.queryEmit}}
			} else {
				outs = sk.cells[recv.state+"|"+kind]
			}
			for _, o := range outs {
				// the hash comparison is antisymmetric between the two parties
				skip := false
				for _, cd := range o.Conds {
					if strings.Contains(cd, "bytes.Compare(") {
						higherBranch := strings.Contains(cd, "== 1") && !strings.HasPrefix(cd, "!")
						if strings.Contains(cd, "!= 1") {
							higherBranch = false
						}
						isHigher := c.aHigher
						if toB {
							isHigher = !c.aHigher
						}
						if higherBranch != isHigher {
							skip = true
						}
					}
				}
				if skip {
					continue
				}
				nc := c
				nr := recv
				if o.Next != "self" {
					nr.state = o.Next
				}
				if o.Finished {
					nr.enc = true
					nr.finished++
				}
				if toB {
					nc.b = nr
					nc.ab = rest
					if o.Emit != "" {
						nc.ba = pushQ(nc.ba, o.Emit)
					}
				} else {
					nc.a = nr
					nc.ba = rest
					if o.Emit != "" {
						nc.ab = pushQ(nc.ab, o.Emit)
					}
				}
				res.transitions++
				if qLen(nc.ab) > qbound || qLen(nc.ba) > qbound {
					res.overflow = true
					continue
				}
				k := nc.key()
				if seen[k] {
					continue
				}
				seen[k] = true
				who := "A"
				if toB {
					who = "B"
				}
				step := fmt.Sprintf("%s<-%s %s", who, kind, o.String())
				queue = append(queue, node{nc, append(append([]string{}, n.trace...), step)})
			}
			if len(outs) == 0 {
				res.stuck = append(res.stuck, fmt.Sprintf("no transition for state %s on %s", recv.state, kind))
			}
		}
	}
	return res
}

func init() {
	register("C07", "Structural clause decided: the control skeleton of the key exchange, extracted from the source (dispatch in processAKE, every handler's optimistic outcomes — next state, emitted message kind, passage through akeHasFinished, and every data-dependent branch as a nondeterministic choice — and the start transition of sendDHCommit), composed with itself over two FIFO queues, reaches 'both sides passed akeHasFinished' on every maximal run from every start pattern (A, B, both; refresh while encrypted), the DH-Commit collision being resolved antisymmetrically; every start trigger (query, whitespace tag with the policy, error message with the policy, Send under required encryption) reaches sendDHCommit or emits a query; the collision comparator is a strict comparison of the two hashed commitments; ending a session drops the exchange context. This is a necessary condition for liveness (if the optimistic skeleton can get stuck, the code can). Not decided: liveness with real data, timing windows of repeated-query suppression, version/policy products.",
		func(a *An) {
			a.c07Skeleton()
			a.c07Triggers()
			a.akeContextDropped("S.ake-dropped")
			a.finishUnconditional("W.msg-state")
			// what the honest peer emits is accepted: the fragment reader agrees with the fragment writer, and the
			// committed gx is decrypted into a buffer of the length the peer encrypted
			a.c14Sender()
			a.c14Predicates()
			a.c14ReceiveOrder()
			a.cipherBuffers("K.cipher-buffers")
			// the two ways a peer offers versions are read completely (a shared version is not lost on the way)
			a.c16Whitespace()
			a.c16QueryParse("V.query-parse")
			a.signatureLayout("K.signature")
			a.c03PlaintextPolicy("P.plaintext-policy")
			a.c18StateWriters()
			a.c15FragmentPrefix()
			// a repeated or replacing DH-Commit while we wait for the Reveal-Signature is answered with the DH-Key already
			// sent (the peer may have used it): that handler draws no new exponent
			if f := a.MustFn("(authStateAwaitingRevealSig).receiveDHCommitMessage"); f != nil {
				a.R.Check(!a.reaches(f, "(*Conversation).dhKeyMessage") && !a.reaches(f, "(*Conversation).setSecretExponent"), "T.ake-same-key", "AWAITING_REVEALSIG|DH-Commit", "the DH-Key sent before is sent again, no new key is drawn", a.C.Pos(f.Pos()),
					"the handler can reach the generation of a new DH key: a peer that already answered the first DH-Key sends a Reveal-Signature we can no longer verify, and both sides are stuck")
			}
		})
}

func (a *An) c07Skeleton() {
	R := a.R
	sk := a.extractAKE()
	for i, p := range sk.problems {
		R.Undec("T.ake-extract", fmt.Sprintf("problem#%d", i+1), "the AKE skeleton is extracted with the recognised idioms", "", p)
	}
	var tbl []string
	var keys []string
	for k := range sk.cells {
		keys = append(keys, k)
	}
	sort.Strings(keys)
	ncell := 0
	for _, k := range keys {
		var os []string
		for _, o := range sk.cells[k] {
			os = append(os, o.String())
		}
		tbl = append(tbl, k+": "+strings.Join(os, " | "))
		ncell++
		R.Check(len(sk.cells[k]) > 0, "T.ake-extract", "cell|"+k, "every (state, message) cell has at least one optimistic outcome", "", "no outcome extracted")
	}
	R.Extra["ake_table"] = tbl
	R.Extra["query_start"] = sk.queryState + " emit " + sk.queryEmit
	R.Floor("T.ake-extract", 16)
	if len(sk.problems) > 0 || sk.queryState == "" {
		return
	}
	// exploration
	none := "authStateNone"
	type startP struct {
		name    string
		c       config
		needFin bool
	}
	var starts []startP
	for _, hi := range []bool{true, false} {
		suffix := map[bool]string{true: ",A-hash-higher", false: ",B-hash-higher"}[hi]
		starts = append(starts,
			startP{"A-queries" + suffix, config{a: party{state: none}, b: party{state: none}, ab: "Query", aHigher: hi}, false},
			startP{"B-queries" + suffix, config{a: party{state: none}, b: party{state: none}, ba: "Query", aHigher: hi}, false},
			startP{"both-query" + suffix, config{a: party{state: none}, b: party{state: none}, ab: "Query", ba: "Query", aHigher: hi}, false},
			startP{"refresh-by-A-while-encrypted" + suffix, config{a: party{state: none, enc: true}, b: party{state: none, enc: true}, ab: "Query", aHigher: hi}, true},
			startP{"refresh-by-both-while-encrypted" + suffix, config{a: party{state: none, enc: true}, b: party{state: none, enc: true}, ab: "Query", ba: "Query", aHigher: hi}, true},
			startP{"A-queries-twice" + suffix, config{a: party{state: none}, b: party{state: none}, ab: "Query,Query", aHigher: hi}, false},
		)
	}
	qb := 4
	if R.Tier == "thorough" {
		qb = 6
	}
	totalS, totalT := 0, 0
	for _, s := range starts {
		res := sk.explore(s.c, s.needFin, qb)
		totalS += res.states
		totalT += res.transitions
		if res.overflow {
			R.Note("start %s: some runs exceeded the bound of %d in-flight messages per direction / 40 steps and were cut", s.name, qb)
		}
		if len(res.stuck) == 0 {
			R.Ok("T.ake-liveness", "start|"+s.name, "every maximal run ends with both sides through akeHasFinished", "")
			continue
		}
		seen := map[string]bool{}
		for _, st := range res.stuck {
			head := st
			if i := strings.Index(st, " after: "); i >= 0 {
				head = st[:i]
			}
			key := "start|" + s.name + "|" + head
			if seen[key] {
				continue
			}
			seen[key] = true
			R.Viol("T.ake-liveness", key, "every maximal run ends with both sides through akeHasFinished", "", "the control skeleton extracted from the source gets stuck: "+st)
		}
	}
	R.Extra["skeleton_states_explored"] = totalS
	R.Extra["skeleton_transitions"] = totalT
	R.Floor("T.ake-liveness", 12)
	// collision comparator
	if fn := a.MustFn("(authStateAwaitingDHKey).receiveDHCommitMessage"); fn != nil {
		var cmp *ssa.Call
		for _, cs := range a.CallsIn(fn, "bytes.Compare") { // the helpers of the handler included
			if c, ok := cs.(*ssa.Call); ok {
				cmp = c
			}
		}
		if cmp == nil {
			R.Viol("P.collision", "comparator", "the DH-Commit collision is resolved by comparing the hashed commitments", a.C.Pos(fn.Pos()), "no bytes.Compare")
		} else {
			a.TermIs("P.collision", "ours", "our operand: hash of MPI(our public value)", cmp, cmp.Call.Args[0], "otrVersion.hash2(Conversation.version, AppendMPI(nil, Conversation.ake.ourPublicValue))[:]", "otrVersion.hash2(Conversation.version, AppendMPI(nil, Conversation.ake.ourPublicValue))")
			a.TermIs("P.collision", "theirs", "their operand: second DATA field of the received DH-Commit", cmp, cmp.Call.Args[1], "ExtractData(ExtractData($msg)#0)#1")
			// the winner (strictly higher) resends its commit
			for _, cs := range a.CallsIn(fn, "(*Conversation).serializeDHCommit") {
				a.GateLocal("P.collision", "winner-resends", cs, "resending our DH-Commit", "passed:("+a.C.Term(cmp)+" == 1)")
			}
		}
	}
}

func (a *An) c07Triggers() {
	R := a.R
	rule := "G.ake-triggers"
	sd := a.MustFn("(*Conversation).sendDHCommit")
	if sd == nil {
		return
	}
	for _, t := range []struct{ root, why string }{
		{"(*Conversation).receiveQueryMessage", "a query message starts the exchange"},
		{"(*Conversation).startAKEFromWhitespaceTag", "a whitespace tag starts the exchange"},
	} {
		f := a.MustFn(t.root)
		if f == nil {
			continue
		}
		cs := a.CallsIn(f, "(*Conversation).sendDHCommit")
		R.Check(len(cs) == 1, rule, t.root+"|reaches-commit", t.why, a.C.Pos(f.Pos()), fmt.Sprintf("%d calls of sendDHCommit", len(cs)))
		if len(cs) == 1 {
			a.GateLocal(rule, t.root+"|after-version", cs[0], "sending a DH-Commit", "ok:(*Conversation).commitToVersionFrom")
			// the only other way out (besides errors) is the repeated-query window
			for _, r := range a.returnsOf(f) {
				if instrDominates(cs[0], r) {
					continue
				}
				ev := r.Results[len(r.Results)-1]
				if a.F.provablyNonNil(ev) || statusCall(ev) != nil && a.F.LocalAt(r).Has("@fail:"+instKey(statusCall(ev))) {
					continue
				}
				fs := a.F.LocalAt(r)
				window := false
				for _, fct := range fs.List() {
					if strings.Contains(fct, "isWithinTimeToIgnoreQueryMessage") {
						window = true
					}
				}
				R.Check(window || t.root != "(*Conversation).receiveQueryMessage" && false, rule, t.root+"|other-exit", "the only non-error exit without a DH-Commit is the repeated-query time window", a.C.InstrPos(r),
					"a query/tag can be dropped without starting the exchange outside the documented time window")
			}
		}
	}
	if f := a.MustFn("(*Conversation).processWhitespaceTag"); f != nil {
		for _, cs := range a.CallsIn(f, "(*Conversation).startAKEFromWhitespaceTag") {
			a.GateLocal(rule, "processWhitespaceTag|policy", cs, "starting the exchange from a tag", "ok:(*policies).has(_,"+a.MustConst("whitespaceStartAKE")+")")
			a.TermIs(rule, "processWhitespaceTag|versions", "offered versions handed to the exchange", cs, cs.Common().Args[1], "extractWhitespaceTag($message)#1")
		}
		R.Check(len(a.CallsIn(f, "(*Conversation).startAKEFromWhitespaceTag")) == 1, rule, "processWhitespaceTag|starts", "a whitespace tag (with the policy) starts the exchange", a.C.Pos(f.Pos()), "no call")
	}
	if f := a.MustFn("(*Conversation).receiveErrorMessage"); f != nil {
		n := 0
		for _, cs := range a.CallsIn(f, "(*Conversation).QueryMessage") {
			n++
			a.GateLocal(rule, "receiveErrorMessage|policy", cs, "answering an error with a query", "ok:(*policies).has(_,"+a.MustConst("errorStartAKE")+")")
		}
		R.Check(n == 1, rule, "receiveErrorMessage|restarts", "an error message (with the policy) is answered with a query", a.C.Pos(f.Pos()), fmt.Sprintf("%d", n))
	}
	if f := a.MustFn("(*Conversation).sendMessageOnPlaintext"); f != nil {
		n := 0
		for _, cs := range a.CallsIn(f, "(*Conversation).QueryMessage") {
			n++
			a.GateLocal(rule, "sendMessageOnPlaintext|policy", cs, "sending a query instead of the text", "ok:(*policies).has(_,"+a.MustConst("requireEncryption")+")")
		}
		R.Check(n == 1, rule, "sendMessageOnPlaintext|query", "Send under required encryption emits a query", a.C.Pos(f.Pos()), fmt.Sprintf("%d", n))
	}
	// the dispatch of the four AKE message kinds reaches processAKE
	if f := a.MustFn("(*Conversation).receiveAKEMessage"); f != nil {
		R.Check(len(a.CallsIn(f, "(*Conversation).processAKE")) == 1, rule, "receiveAKEMessage|processAKE", "AKE messages are handed to the state machine", a.C.Pos(f.Pos()), "no call of processAKE")
	}
	R.Floor(rule, 8)
}
