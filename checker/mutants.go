package main

// runMutants: thorough-tier witness mutants (filled in later).
func runMutants(id string, r *Report, repo, verif string) {}
