package main

import (
	"fmt"
	"os"
	"os/exec"
	"path/filepath"
	"sort"
	"strings"
	"sync"
)

// runMutants (thorough tier): witness mutants for the checker's own sensitivity. Every seeded change
// under <verif>/seeded/ that is recorded to break this property is applied to a scratch copy of the
// current working tree of the repository (outside /repo and /verif, removed at once) and the quick check
// is re-run on the copy as a separate process; it has to report a violation there. Nothing of otr3 is
// executed. The outcome is recorded in the evidence; it does not change the verdict on the real tree.
func runMutants(id string, r *Report, repo, verif string) {
	dirs, _ := filepath.Glob(filepath.Join(verif, "seeded", "*"))
	sort.Strings(dirs)
	type res struct {
		name   string
		status string // fired | silent | skipped
	}
	var todo []string
	for _, d := range dirs {
		b, err := os.ReadFile(filepath.Join(d, "fires.txt"))
		if err != nil {
			continue
		}
		for _, p := range strings.Fields(string(b)) {
			if p == id {
				todo = append(todo, d)
			}
		}
	}
	// bounded: the changes written against this very property first, then others that also make it fire, 24 in all
	// (the full matrix over all recorded changes is tools/seed_matrix.sh; its last result is seeded/MATRIX.txt)
	available := len(todo)
	sort.SliceStable(todo, func(i, j int) bool {
		oi, oj := strings.Contains(filepath.Base(todo[i]), id), strings.Contains(filepath.Base(todo[j]), id)
		return oi && !oj
	})
	if len(todo) > 24 {
		todo = todo[:24]
	}
	self, err := os.Executable()
	if err != nil || len(todo) == 0 {
		r.Extra["witness_mutants"] = map[string]interface{}{"available": len(todo), "note": "none recorded for this property"}
		return
	}
	results := make([]res, len(todo))
	sem := make(chan struct{}, 6)
	var wg sync.WaitGroup
	for i, d := range todo {
		wg.Add(1)
		go func(i int, d string) {
			defer wg.Done()
			sem <- struct{}{}
			defer func() { <-sem }()
			name := filepath.Base(d)
			results[i] = res{name, "skipped"}
			tmp, err := os.MkdirTemp("", "otrcheck-mut-")
			if err != nil {
				return
			}
			defer os.RemoveAll(tmp)
			tree := filepath.Join(tmp, "repo")
			vdir := filepath.Join(tmp, "verif")
			_ = os.MkdirAll(vdir, 0o755)
			if out, err := exec.Command("rsync", "-a", "--exclude", ".git", repo+"/", tree+"/").CombinedOutput(); err != nil {
				_ = out
				return
			}
			patch := filepath.Join(d, "patch.diff")
			chk := exec.Command("patch", "-p1", "--dry-run", "-s", "-i", patch)
			chk.Dir = tree
			if err := chk.Run(); err != nil {
				return // does not apply to the current tree (the code moved on): skipped
			}
			ap := exec.Command("patch", "-p1", "-s", "-i", patch)
			ap.Dir = tree
			if err := ap.Run(); err != nil {
				return
			}
			if kf, err := os.ReadFile(filepath.Join(verif, "KNOWN_FINDINGS.txt")); err == nil {
				_ = os.WriteFile(filepath.Join(vdir, "KNOWN_FINDINGS.txt"), kf, 0o644)
			}
			cmd := exec.Command(self, "-property", id, "-tier", "quick", "-repo", tree, "-verif", vdir)
			cmd.Env = append(os.Environ(), "GOFLAGS=-mod=mod", "GOPROXY=off", "GOSUMDB=off", "GOTOOLCHAIN=local")
			out, _ := cmd.CombinedOutput()
			if strings.Contains(string(out), "VIOLATION property="+id) {
				results[i].status = "fired"
			} else {
				results[i].status = "silent"
			}
		}(i, d)
	}
	wg.Wait()
	fired, silent, skipped := 0, 0, 0
	var silentNames, firedNames []string
	for _, x := range results {
		switch x.status {
		case "fired":
			fired++
			firedNames = append(firedNames, x.name)
		case "silent":
			silent++
			silentNames = append(silentNames, x.name)
		default:
			skipped++
		}
	}
	r.Extra["witness_mutants"] = map[string]interface{}{
		"available": available, "selected": len(todo), "applied": fired + silent, "fired": fired, "silent": silent, "skipped_not_applicable": skipped,
		"fired_names": firedNames, "silent_names": silentNames,
		"note": "seeded breaking changes (see seeded/*/meta.json) applied to a scratch copy of the current tree; the quick check must report a violation on the copy",
	}
	if silent > 0 {
		fmt.Printf("note: %d witness mutant(s) recorded for %s did not make the check fire on a scratch copy: %s\n", silent, id, strings.Join(silentNames, ", "))
	}
}
