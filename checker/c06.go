package main

import (
	"fmt"
	"sort"
	"strings"

	"golang.org/x/tools/go/ssa"
)

// sessionClass classifies absolute access paths of conversation state.
func sessionClass(abs string) string {
	exempt := []string{
		"Conversation.lastMessageStateChange", "Conversation.fragmentationContext", "Conversation.ourInstanceTag",
		"Conversation.version", "Conversation.ourCurrentKey", "Conversation.heartbeat", "Conversation.injections",
		"Conversation.ake.lastStateChange", "ake.lastStateChange", "Conversation.resend.messages.RWMutex",
		"resendContext.messages.RWMutex", "Conversation.resend.retransmitting", "resendContext.retransmitting",
	}
	for _, e := range exempt {
		if strings.HasPrefix(abs, e) {
			return ""
		}
	}
	if strings.HasPrefix(abs, "Conversation.ake") || strings.HasPrefix(abs, "ake.") {
		return "ake-scratch"
	}
	if strings.HasPrefix(abs, "Conversation.smp") || strings.HasPrefix(abs, "smp.") {
		return "smp"
	}
	for _, p := range []string{"Conversation.msgState", "Conversation.keys", "Conversation.theirKey", "Conversation.ssid", "Conversation.sentRevealSig",
		"Conversation.theirInstanceTag", "Conversation.resend", "Conversation.whitespaceState",
		"keyManagementContext.", "keyPairCounter.", "counterHistory.", "macKeyHistory.", "macKeyUsage.", "dhKeyPair.", "resendContext."} {
		if strings.HasPrefix(abs, p) {
			return "session"
		}
	}
	return ""
}

// reachableFns: functions reachable from the named roots in the VTA call graph (library functions only).
func (a *An) reachableFns(roots ...string) []*ssa.Function {
	seen := map[*ssa.Function]bool{}
	var stack []*ssa.Function
	for _, r := range roots {
		if f := a.MustFn(r); f != nil {
			stack = append(stack, f)
		}
	}
	for len(stack) > 0 {
		f := stack[len(stack)-1]
		stack = stack[:len(stack)-1]
		if seen[f] {
			continue
		}
		seen[f] = true
		for _, b := range f.Blocks {
			for _, in := range b.Instrs {
				if call, ok := in.(ssa.CallInstruction); ok {
					for _, g := range a.C.Callees(call) {
						g = a.C.unwrap(g)
						if a.C.IsLib(g) && !seen[g] {
							stack = append(stack, g)
						}
					}
				}
			}
		}
	}
	var out []*ssa.Function
	for f := range seen {
		out = append(out, f)
	}
	sort.Slice(out, func(i, j int) bool { return a.C.Name(out[i]) < a.C.Name(out[j]) })
	return out
}

func init() {
	register("C06", "Structural clause decided: (a) no function reachable from Receive writes session-visible state on a path that can still end in a rejecting (validation-origin) return of the same function, unless the write is made by the very step whose failure is returned; (b) on the data path every write sits behind the authenticity gate; (c) every error return of the 16 AKE handlers returns the state the dispatching handler was entered in. Exchange-in-progress scratch (Conversation.ake.*) is checked against a frozen table of benign overwrites. Not decided: observational equivalence of continuations.",
		func(a *An) {
			a.c06Atomic()
			a.akeErrState("T.err-state")
			a.c06Commit()
			a.theirDHWriters()
			auth, _ := a.dataAuthFacts()
			a.counterStoreGate("G.counter-store", auth)
			// what a rejected message caused to be queued (an error reply) leaves with the same call and does not ride on
			// the answer to a later genuine message: every return of the API functions drains the injection queue
			a.c19Growth()
			a.macKeyByteWipes("W.mac-wipe")
		})
}

// atomicExempt: frozen table of (function, class-or-path, failing source prefix) triples that the
// discovery run reports on today's tree and that were read and judged benign; one reason each.
// Keys use prefixes of the failing-source term so that argument renames do not matter.
var atomicExempt = []struct{ fn, what, srcPrefix, reason string }{
	{"(*Conversation).processAKE", "ake-scratch", "authState.receive", "the handler's returned state is stored even on error; rule T.err-state checks that every error return of a handler returns the state it was entered in, so the store is the identity"},
	{"(*Conversation).processAKE", "ake-scratch", "newOtrErrorf:\"unknown message type", "only the lazily allocated, empty exchange context (ensureAKE) and its timestamp are written; an empty context is equivalent to none"},
	{"(*Conversation).processRevealSig", "ake-scratch", "", "theirPublicValue/revealKey/sigKey are recomputed from the retained commitment by every later Reveal-Signature, nothing a genuine message needs is lost"},
	{"(*keyManagementContext).checkMessageCounter", "keyManagementContext.counterHistory", "newOtrConflictError:\"counter regressed\"", "find-or-add: a freshly added record has theirCounter 0 and deserializeUnsigned rejects a zero counter, so the rejecting return is only reachable for an existing record (no append happened)"},
	{"(*Conversation).receiveUnit", "Conversation.theirInstanceTag", "(*Conversation).withInjectionsPlain", "the tag was adopted from fragments that were themselves well formed and carried valid tags (receiveFragment accepted them); the later failure concerns the reassembled payload, which is dispatched as a message of its own"},
	{"(*Conversation).receiveTaggedPlaintext", "Conversation.whitespaceState", "(*Conversation).processWhitespaceTag", "not a rejection: the tagged plaintext is delivered together with the error of the failed AKE start"},
}

// atomicExemptPaths: for exemptions keyed on the aggregated exchange scratch state, the fields the review covered.
var atomicExemptPaths = map[string][]string{
	"(*Conversation).processRevealSig": {"Conversation.ake.theirPublicValue", "Conversation.ake.revealKey", "Conversation.ake.sigKey"},
}

func (a *An) c06Atomic() {
	og := newOrigins(a.C)
	fns := a.reachableFns("(*Conversation).Receive")
	a.R.Extra["functions_reachable_from_Receive"] = len(fns)
	exemptUsed := map[int]bool{}
	for _, f := range fns {
		hits := a.AtomicScan(f, sessionClass, og)
		type gk struct{ what, src string }
		groups := map[gk][]AtomicHit{}
		behind := 0
		for _, h := range hits {
			// (b) writes behind the authenticity gate of the data path are outside clause (a)
			if a.F.At(h.W).Has("ok:(dataMsg).checkSign") || a.F.At(h.R).Has("ok:(dataMsg).checkSign") {
				behind++
				continue
			}
			what := coarse(h.Path)
			if h.Class == "ake-scratch" {
				what = "ake-scratch"
			}
			k := gk{what, h.SrcKey}
			groups[k] = append(groups[k], h)
		}
		var keys []gk
		for k := range groups {
			keys = append(keys, k)
		}
		sort.Slice(keys, func(i, j int) bool {
			if keys[i].what != keys[j].what {
				return keys[i].what < keys[j].what
			}
			return keys[i].src < keys[j].src
		})
		for _, k := range keys {
			hs := groups[k]
			h := hs[0]
			paths := map[string]bool{}
			for _, x := range hs {
				paths[x.Path] = true
			}
			var pl []string
			for p := range paths {
				pl = append(pl, p)
			}
			sort.Strings(pl)
			key := fmt.Sprintf("%s|%s|then-fails:%s", a.C.Name(a.C.owner(f)), k.what, k.src)
			exempt := -1
			for i, e := range atomicExempt {
				if e.fn == a.C.Name(a.C.owner(f)) && e.what == k.what && strings.HasPrefix(k.src, e.srcPrefix) {
					// an exemption for exchange scratch state covers the reviewed fields only
					covered := true
					if only, limited := atomicExemptPaths[e.fn]; limited {
						for _, p := range pl {
							okp := false
							for _, pre := range only {
								if p == pre || strings.HasPrefix(p, pre+".") {
									okp = true
								}
							}
							if !okp {
								covered = false
							}
						}
					}
					if covered {
						exempt = i
					}
				}
			}
			what := "no write to " + k.what + " state before a rejecting return"
			if exempt >= 0 {
				exemptUsed[exempt] = true
				a.R.Ok("A.atomic-exempt", key, what+" — frozen benign instance: "+atomicExempt[exempt].reason, a.C.InstrPos(h.W))
				continue
			}
			a.R.Viol("A.atomic", key, what, a.C.InstrPos(h.W),
				fmt.Sprintf("%s written at %s, and %s can afterwards return the %s-origin error %s at %s", strings.Join(pl, ", "), a.C.InstrPos(h.W), a.C.Name(f), h.Origin, h.ErrSrc, a.C.InstrPos(h.R)))
		}
		if len(keys) == 0 {
			note := "no tracked write precedes a rejecting return"
			if behind > 0 {
				note += fmt.Sprintf(" (%d write/return pairs lie behind the data-message authenticity gate)", behind)
			}
			a.R.Ok("A.atomic", a.C.Name(f), note, a.C.Pos(f.Pos()))
		}
	}
	a.R.Floor("A.atomic", 60)
}

// coarse truncates an access path to the granularity used in obligation keys.
func coarse(p string) string {
	parts := strings.Split(p, ".")
	n := 2
	if parts[0] == "Conversation" {
		n = 3
		if len(parts) > 1 && (parts[1] == "ake") && len(parts) > 2 && parts[2] == "keys" {
			n = 3
		}
	}
	if len(parts) > n {
		parts = parts[:n]
	}
	s := strings.Join(parts, ".")
	s = strings.ReplaceAll(s, "[]", "")
	return s
}

// akeHandlers: the receive* methods of every concrete type implementing authState.
func (a *An) akeHandlers() []*ssa.Function {
	var out []*ssa.Function
	for _, f := range a.C.FuncSeq {
		if f.Signature.Recv() == nil || f.Blocks == nil {
			continue
		}
		n := f.Name()
		if n != "receiveDHCommitMessage" && n != "receiveDHKeyMessage" && n != "receiveRevealSigMessage" && n != "receiveSigMessage" {
			continue
		}
		if !strings.HasPrefix(typeName(f.Signature.Recv().Type()), "authState") {
			continue
		}
		out = append(out, f)
	}
	return out
}

// T.err-state: every return of an AKE handler that may carry an error returns the state the handler was entered in.
func (a *An) akeErrState(rule string) {
	hs := a.akeHandlers()
	for _, f := range hs {
		name := a.C.Name(f)
		ok := true
		detail := ""
		kinds := map[string]bool{}
		pos := a.C.Pos(f.Pos())
		for _, b := range f.Blocks {
			ret, isRet := b.Instrs[len(b.Instrs)-1].(*ssa.Return)
			if !isRet || len(ret.Results) != 3 {
				continue
			}
			ev := ret.Results[2]
			if isNilConst(ev) {
				continue
			}
			if sc := statusCall(ev); sc != nil && a.F.LocalAt(ret).Has("@ok:"+instKey(sc)) {
				continue
			}
			sv := ret.Results[0]
			if mi, isMI := sv.(*ssa.MakeInterface); isMI {
				sv = mi.X
			}
			if u, isU := sv.(*ssa.UnOp); isU {
				if al, isAl := u.X.(*ssa.Alloc); isAl {
					if sp := spilledParam(al); sp != nil {
						sv = sp
					}
				}
			}
			if p, isP := sv.(*ssa.Parameter); isP && len(f.Params) > 0 && p == f.Params[0] {
				continue
			}
			// `return x, y, c.akeHasFinished()` style: error of a completion step after the state was decided is not a rejection
			if sc := statusCall(ev); sc != nil {
				og := newOrigins(a.C)
				if og.val(ev, 0)&(OrigValidation|OrigUnknown) == 0 {
					continue
				}
			}
			ok = false
			pos = a.C.InstrPos(ret)
			if ex, isEx := ret.Results[0].(*ssa.Extract); isEx {
				if call, isCall := ex.Tuple.(*ssa.Call); isCall {
					kinds["delegates:"+a.F.callName(call)] = true
					detail = "delegates to " + a.F.callName(call) + " on a different state object (" + a.C.Term(call.Call.Args[0]) + "): an error of the delegate returns the delegate's state, not the state this handler was entered in"
					continue
				}
			}
			kinds["returns:"+a.C.Term(ret.Results[0])] = true
			detail = "a return that may carry an error returns state " + a.C.Term(ret.Results[0]) + " instead of the receiver"
		}
		if ok {
			a.R.Ok(rule, name, "error returns keep the state the handler was entered in", pos)
			continue
		}
		// one obligation per way of leaving the state, so that a recorded finding does not cover a different one
		for _, k := range sortedKeys(kinds) {
			a.R.Viol(rule, name+"|"+k, "error returns keep the state the handler was entered in", pos, detail)
		}
	}
	a.R.Floor(rule, 16)
}

// commit-point rule: the fields reported for the peer / session are stored only after the signature checks
// of the exchange that produced them.
func (a *An) c06Commit() {
	sigFacts := []string{"ok:verifyEncryptedSignatureMAC", "ok:checkedSignatureVerification"}
	for _, fld := range []string{"theirKey", "ssid", "sentRevealSig"} {
		v := a.MustField("Conversation", fld)
		cnt := map[string]int{}
		for _, st := range a.StoresTo(v) {
			fn := a.C.Name(a.C.owner(st.Parent()))
			if k, isConst := st.Val.(*ssa.Const); isConst && fld == "sentRevealSig" && k.Value != nil && k.Value.ExactString() == "false" {
				// clearing the flag on the responder side happens right before akeHasFinished (same gate as msgState)
			}
			a.Gate("G.commit", ordinalKey(fn+"|store "+fld, cnt), st, "store of Conversation."+fld, sigFacts...)
		}
	}
	a.R.Floor("G.commit", 6)
}
