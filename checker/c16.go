package main

import (
	"fmt"
	"go/token"
	"go/types"
	"strings"

	"golang.org/x/tools/go/ssa"
)

func init() {
	register("C16", "Structural clause decided: commitToVersionFrom prefers v3 over v2, consults the policy for each, is sticky and stores nothing on failure (decision table over policy bits × offered bits × already committed); checkVersion rejects a message whose version differs from the committed one before any header parsing or dispatch; protocolVersion/whitespace tags/query digits are emitted per version under the matching policy only; with no version allowed Send and Receive return a copy of the input and call nothing else; every plaintext handed back by receiveUnit/Send is a copy of (never an alias into) the local buffer that is wiped on exit; extractWhitespaceTag returns the text before the tag followed by the text after the last all-whitespace group. Not decided: the two-party negotiation outcome over all policy pairs, texts that themselves contain tag-like whitespace runs.",
		func(a *An) {
			a.c16CommitTable()
			a.c16CheckVersion()
			a.c15FragmentPrefix()
			a.c16Emit()
			a.c16PassThrough()
			a.noEscapeOfWiped("S.no-escape-of-wiped")
			a.c16Whitespace()
			a.c16QueryParse("V.query-parse")
			a.taggedPlaintextClass("V.whitespace")
			a.allWhiteExact("V.whitespace")
			// the text recovered from a received message travels to the caller unchanged, also when the handling of the same
			// message reports an error (a tagged plaintext whose tag offers nothing usable is still the user's text)
			for _, name := range []string{"(*Conversation).toSendEncoded", "(*Conversation).withInjectionsPlain"} {
				if f := a.MustFn(name); f != nil {
					for i, r := range a.returnsOf(f) {
						p, isP := resolveLocal(r.Results[0]).(*ssa.Parameter)
						a.R.Check(isP && paramIndex(p) == 1, "V.plain-through", fmt.Sprintf("%s|return#%d", name, i+1), "the plaintext result is the plaintext parameter", a.C.InstrPos(r), "returns "+a.C.Term(r.Results[0]))
					}
				}
			}
			a.policiesImmutable("W.policies")
		})
}

func (a *An) c16CommitTable() {
	R := a.R
	rule := "P.version-table"
	fn := a.MustFn("(*Conversation).commitToVersionFrom")
	fld := a.MustField("Conversation", "version")
	if fn == nil || fld == nil {
		return
	}
	v2, v3 := a.MustConst("allowV2"), a.MustConst("allowV3")
	has := func(p string) string { return "(*policies).has(&Conversation.Policies, " + p + ")" }
	for _, committed := range []bool{false, true} {
		for _, p3 := range []bool{false, true} {
			for _, p2 := range []bool{false, true} {
				for _, offer := range []int64{0, 4, 8, 12, 2, 16 + 8} {
					want := "error"
					switch {
					case committed:
						want = "keep"
					case p3 && offer&8 != 0:
						want = "make(otrV3)"
					case p2 && offer&4 != 0:
						want = "make(otrV2)"
					}
					bools := map[string]bool{has(v3): p3, has(v2): p2, "(Conversation.version != nil)": committed, "(Conversation.version == nil)": !committed}
					paths, complete := a.C.Paths(fn, a.C.valOracle(valCase{"$versions": offer}, bools), 128)
					key := fmt.Sprintf("commitToVersionFrom|committed=%v,allowV3=%v,allowV2=%v,offer=%d", committed, p3, p2, offer)
					if !complete || len(paths) == 0 {
						R.Undec(rule, key, "enumerate paths", a.C.Pos(fn.Pos()), "incomplete")
						continue
					}
					ok, detail := true, ""
					for _, p := range paths {
						if p.Ret == nil {
							continue
						}
						stored := ""
						for _, in := range p.Instrs {
							if st, isSt := in.(*ssa.Store); isSt {
								if fa, isFA := st.Addr.(*ssa.FieldAddr); isFA && fieldOf(fa) == fld {
									stored = a.C.Term(p.Resolve(st.Val))
								}
							}
						}
						ev := p.Resolve(p.Ret.Results[0])
						switch want {
						case "keep":
							if stored != "" || !isNilConst(ev) {
								ok, detail = false, "already committed: must return nil and store nothing (stored "+stored+", returns "+a.C.Term(ev)+")"
							}
						case "error":
							if stored != "" {
								ok, detail = false, "no acceptable version: nothing may be committed, stored "+stored
							}
							if a.F.ErrTri(p, p.Ret.Results[0]) != False {
								ok, detail = false, "no acceptable version but the call may succeed"
							}
						default:
							if stored != want {
								ok, detail = false, "must commit "+want+", stored "+stored+" (decisions "+decisionsStr(p)+")"
							}
						}
					}
					R.Check(ok, rule, key, "version choice = "+want, a.C.Pos(fn.Pos()), detail)
				}
			}
		}
	}
	R.Floor(rule, 48)
	a.WhoMayWrite("W.version", fld, "(*Conversation).commitToVersionFrom", "NewConversationWithVersion")
}

func (a *An) c16CheckVersion() {
	R := a.R
	rule := "G.version"
	fn := a.MustFn("(*Conversation).checkVersion")
	if fn == nil {
		return
	}
	mv := "ExtractShort($message)#1"
	a.SuccessRequires(rule, fn, "ok:ExtractShort", "ok:(*Conversation).commitToVersionFrom",
		"passed:"+canonCmp("otrVersion.protocolVersion(Conversation.version)", "==", mv))
	if c := a.uniqueCall(rule, fn, "(*Conversation).commitToVersionFrom"); c != nil {
		a.TermIs(rule, "checkVersion|offer", "offered version set", c, c.Call.Args[1], "(1 << "+mv+")")
	}
	for _, name := range []string{"(*Conversation).parseMessageHeader", "(*Conversation).receiveDataMessage", "(*Conversation).receiveAKEMessage"} {
		f := a.MustFn(name)
		cnt := map[string]int{}
		for _, cs := range a.CallSites(f) {
			if a.C.Name(cs.Parent()) != "(*Conversation).receiveDecoded" {
				continue
			}
			a.GateLocal(rule, ordinalKey("receiveDecoded|call "+name, cnt), cs, "processing of a decoded message", "ok:(*Conversation).checkVersion")
		}
	}
	R.Floor(rule, 6)
}

func (a *An) c16Emit() {
	R := a.R
	rule := "L.version-emit"
	for v, want := range map[string]string{"(otrV2)": "2", "(otrV3)": "3"} {
		if fn := a.MustFn(v + ".protocolVersion"); fn != nil {
			for _, r := range a.returnsOf(fn) {
				a.TermIs(rule, v+".protocolVersion", "protocol version", r, r.Results[0], want)
			}
		}
		if fn := a.MustFn(v + ".whitespaceTag"); fn != nil {
			for _, r := range a.returnsOf(fn) {
				a.TermIs(rule, v+".whitespaceTag", "whitespace tag", r, r.Results[0], "convertToWhitespace(\""+want+"\")")
			}
		}
		if fn := a.MustFn(v + ".messageHeader"); fn != nil {
			for _, r := range a.returnsOf(fn) {
				if isNilConst(r.Results[0]) {
					continue
				}
				fs := a.C.WriterFields(r.Results[0])
				R.Check(len(fs) >= 2 && fs[0].Kind == "SHORT" && fs[0].Term == "("+v[1:len(v)-1]+").protocolVersion($v)", rule, v+".messageHeader|version", "header starts with SHORT protocolVersion()", a.C.InstrPos(r), "header fields: "+fieldsStr(fs))
			}
		}
	}
	// query message digits under policy
	v2, v3 := a.MustConst("allowV2"), a.MustConst("allowV3")
	has := func(p string) string { return "(*policies).has(&Conversation.Policies, " + p + ")" }
	hasP := func(p string) string { return "(*policies).has(new(policies), " + p + ")" }
	for _, spec := range []struct {
		fn, kind string
		h        func(string) string
	}{{"(*Conversation).QueryMessage", "digits", has}, {"genWhitespaceTag", "tags", nil}} {
		fn := a.MustFn(spec.fn)
		if fn == nil {
			continue
		}
		for _, p2 := range []bool{false, true} {
			for _, p3 := range []bool{false, true} {
				bools := map[string]bool{has(v2): p2, has(v3): p3, hasP(v2): p2, hasP(v3): p3, "(*policies).has($p, " + v2 + ")": p2, "(*policies).has($p, " + v3 + ")": p3,
					"(*policies).has(policies, " + v2 + ")": p2, "(*policies).has(policies, " + v3 + ")": p3}
				paths, _ := a.C.Paths(fn, a.C.valOracle(nil, bools), 64)
				var wantSeq []string
				if spec.kind == "digits" {
					if p2 {
						wantSeq = append(wantSeq, "50")
					}
					if p3 {
						wantSeq = append(wantSeq, "51")
					}
				} else {
					if p2 {
						wantSeq = append(wantSeq, "(otrV2).whitespaceTag")
					}
					if p3 {
						wantSeq = append(wantSeq, "(otrV3).whitespaceTag")
					}
				}
				ok, detail := len(paths) > 0, ""
				for _, p := range paths {
					var got []string
					forcedAll := true
					for _, d := range p.Decisions {
						if !d.Forced && strings.Contains(d.Term, "has(") {
							forcedAll = false
						}
					}
					for _, in := range p.Instrs {
						call, isCall := in.(*ssa.Call)
						if !isCall {
							continue
						}
						if spec.kind == "digits" {
							if b, isB := call.Call.Value.(*ssa.Builtin); isB && b.Name() == "append" {
								for _, e := range a.C.variadicElems(call.Call.Args[1]) {
									got = append(got, a.C.Term(e))
								}
							}
						} else if n := a.F.callName(call); strings.HasSuffix(n, ".whitespaceTag") {
							got = append(got, n)
						}
					}
					if !forcedAll {
						ok, detail = false, "policy tests not recognised (decisions "+decisionsStr(p)+")"
					}
					if strings.Join(got, ",") != strings.Join(wantSeq, ",") {
						ok, detail = false, "emits ["+strings.Join(got, ",")+"], specified ["+strings.Join(wantSeq, ",")+"]"
					}
				}
				R.Check(ok, rule, fmt.Sprintf("%s|allowV2=%v,allowV3=%v", spec.fn, p2, p3), "offered versions follow the policy", a.C.Pos(fn.Pos()), detail)
			}
		}
	}
	R.Floor(rule, 12)
}

// with OTR disabled both directions return a copy of the input and do nothing else
func (a *An) c16PassThrough() {
	R := a.R
	rule := "G.disabled"
	en := "(*policies).isOTREnabled(&Conversation.Policies)"
	allowed := map[string]bool{"makeCopy": true, "(*policies).isOTREnabled": true, "(*Conversation).receiveWithoutOTR": true, "wipeBytes": true}
	for _, name := range []string{"(*Conversation).Send", "(*Conversation).receiveUnit"} {
		fn := a.MustFn(name)
		if fn == nil {
			continue
		}
		paths, _ := a.C.Paths(fn, a.C.valOracle(nil, map[string]bool{en: false}), 64)
		ok, detail := len(paths) > 0, ""
		for _, p := range paths {
			forced := false
			for _, d := range p.Decisions {
				if d.Forced {
					forced = true
				}
			}
			if !forced {
				ok, detail = false, "no test of isOTREnabled() on the path"
			}
			for _, in := range p.Instrs {
				if call, isCall := in.(ssa.CallInstruction); isCall {
					if _, isB := call.Common().Value.(*ssa.Builtin); isB {
						continue
					}
					if n := a.F.callName(call); !allowed[n] {
						ok, detail = false, "calls "+n+" although OTR is disabled"
					}
				}
			}
		}
		R.Check(ok, rule, name+"|disabled-path", "with no version allowed the call only copies and returns the input", a.C.Pos(fn.Pos()), detail)
	}
	if fn := a.MustFn("(*Conversation).receiveWithoutOTR"); fn != nil {
		for _, r := range a.returnsOf(fn) {
			a.TermIs(rule, "receiveWithoutOTR|result", "plaintext returned with OTR disabled", r, r.Results[0], "makeCopy($message)")
			R.Check(isNilConst(r.Results[1]) && isNilConst(r.Results[2]), rule, "receiveWithoutOTR|nothing-else", "nothing to send and no error", a.C.InstrPos(r), "returns "+a.C.Term(r.Results[1])+", "+a.C.Term(r.Results[2]))
		}
		for _, b := range fn.Blocks {
			for _, in := range b.Instrs {
				if call, isCall := in.(ssa.CallInstruction); isCall {
					if n := a.F.callName(call); n != "makeCopy" {
						R.Viol(rule, "receiveWithoutOTR|calls|"+n, "receiveWithoutOTR only copies", a.C.InstrPos(in), "calls "+n)
					}
				}
			}
		}
	}
	if fn := a.MustFn("(*Conversation).receivePlaintext"); fn != nil {
		for _, r := range a.returnsOf(fn) {
			a.TermIs(rule, "receivePlaintext|result", "plain text is delivered as a byte-exact copy", r, r.Results[0], "makeCopy($message)")
		}
	}
	if fn := a.MustFn("makeCopy"); fn != nil {
		for _, r := range a.returnsOf(fn) {
			t := a.C.Term(r.Results[0])
			R.Check(strings.HasPrefix(t, "append(") && strings.HasSuffix(t, ", $i)") && !strings.Contains(t[:len(t)-5], "$i"), rule, "makeCopy|definition", "makeCopy appends the input to a fresh slice", a.C.InstrPos(r), "returns "+t)
		}
	}
	R.Floor(rule, 6)
}

// ---- no escape of a wiped buffer ---------------------------------------------------------------

// aliasSummary: result index -> parameter indices the result may alias (share backing store with).
type aliasSum map[int]map[int]bool

var copyingExternals = map[string]bool{
	"(*math/big.Int).SetBytes": true, "(*math/big.Int).Bytes": true, "(*encoding/base64.Encoding).Decode": true,
	"encoding/hex.Decode": true, "fmt.Sprintf": true, "strconv.Atoi": true, "strconv.ParseUint": true, "strconv.ParseInt": true,
	"bytes.HasPrefix": true, "bytes.Contains": true, "bytes.Index": true, "bytes.IndexByte": true, "bytes.Equal": true, "bytes.Compare": true,
	"(hash.Hash).Write": true, "crypto/subtle.ConstantTimeCompare": true,
}

func refLike(t types.Type) bool {
	switch u := t.Underlying().(type) {
	case *types.Slice, *types.Pointer, *types.Map:
		return true
	case *types.Struct:
		for i := 0; i < u.NumFields(); i++ {
			if refLike(u.Field(i).Type()) {
				return true
			}
		}
	case *types.Tuple:
		for i := 0; i < u.Len(); i++ {
			if refLike(u.At(i).Type()) {
				return true
			}
		}
	case *types.Array:
		return refLike(u.Elem())
	}
	return false
}

type aliasAn struct {
	a    *An
	sums map[*ssa.Function]aliasSum
}

func (x *aliasAn) roots(v ssa.Value, seen map[ssa.Value]bool, d int) map[ssa.Value]bool {
	out := map[ssa.Value]bool{}
	if d > 20 || seen[v] {
		return out
	}
	seen[v] = true
	add := func(m map[ssa.Value]bool) {
		for k := range m {
			out[k] = true
		}
	}
	switch y := v.(type) {
	case *ssa.Parameter, *ssa.Alloc, *ssa.Global, *ssa.MakeSlice, *ssa.FreeVar:
		out[v] = true
	case *ssa.Slice:
		add(x.roots(y.X, seen, d+1))
	case *ssa.ChangeType:
		add(x.roots(y.X, seen, d+1))
	case *ssa.Convert:
		// string<->[]byte conversions copy; slice-to-slice conversions of named types do not
		_, fromStr := y.X.Type().Underlying().(*types.Basic)
		_, toStr := y.Type().Underlying().(*types.Basic)
		if !fromStr && !toStr {
			add(x.roots(y.X, seen, d+1))
		}
	case *ssa.Phi:
		for _, e := range y.Edges {
			add(x.roots(e, seen, d+1))
		}
	case *ssa.Extract:
		if call, ok := y.Tuple.(*ssa.Call); ok {
			cr := x.callRoots(call, y.Index, seen, d)
			if len(cr) == 0 {
				cr[call] = true // a fresh value: its own root
			}
			add(cr)
		}
	case *ssa.Call:
		cr := x.callRoots(y, 0, seen, d)
		if len(cr) == 0 {
			cr[y] = true
		}
		add(cr)
	case *ssa.UnOp:
		if sv := localStore(y); sv != nil {
			add(x.roots(sv, seen, d+1))
		} else if al, ok := y.X.(*ssa.Alloc); ok && al.Referrers() != nil {
			for _, ref := range *al.Referrers() {
				if st, ok := ref.(*ssa.Store); ok && st.Addr == ssa.Value(al) {
					add(x.roots(st.Val, seen, d+1))
				}
			}
		} else {
			add(x.roots(y.X, seen, d+1))
		}
	case *ssa.FieldAddr:
		add(x.roots(y.X, seen, d+1))
	case *ssa.Field:
		add(x.roots(y.X, seen, d+1))
	case *ssa.IndexAddr:
		add(x.roots(y.X, seen, d+1))
	case *ssa.MakeInterface:
		add(x.roots(y.X, seen, d+1))
	}
	return out
}

func (x *aliasAn) callRoots(call *ssa.Call, idx int, seen map[ssa.Value]bool, d int) map[ssa.Value]bool {
	out := map[ssa.Value]bool{}
	if !refLike(call.Type()) {
		return out
	}
	cc := call.Call
	if b, ok := cc.Value.(*ssa.Builtin); ok {
		if b.Name() == "append" {
			// the result may share the first argument's backing store
			for k := range x.roots(cc.Args[0], seen, d+1) {
				out[k] = true
			}
			if len(out) == 0 {
				out[call] = true
			}
		}
		return out
	}
	args := cc.Args
	if cc.IsInvoke() {
		args = append([]ssa.Value{cc.Value}, args...)
	}
	callees := x.a.C.Callees(call)
	if len(callees) == 0 {
		for _, ar := range args {
			if refLike(ar.Type()) {
				for k := range x.roots(ar, seen, d+1) {
					out[k] = true
				}
			}
		}
		return out
	}
	for _, g := range callees {
		g = x.a.C.unwrap(g)
		if !x.a.C.IsLib(g) {
			if copyingExternals[g.String()] {
				continue
			}
			for _, ar := range args {
				if refLike(ar.Type()) {
					for k := range x.roots(ar, seen, d+1) {
						out[k] = true
					}
				}
			}
			continue
		}
		sum := x.sums[g]
		for pi := range sum[idx] {
			if pi < len(args) {
				for k := range x.roots(args[pi], seen, d+1) {
					out[k] = true
				}
			}
		}
	}
	return out
}

func (a *An) aliasSummaries() *aliasAn {
	x := &aliasAn{a: a, sums: map[*ssa.Function]aliasSum{}}
	for iter := 0; iter < 12; iter++ {
		changed := false
		for _, f := range a.C.FuncSeq {
			if f.Blocks == nil {
				continue
			}
			sum := aliasSum{}
			for _, r := range a.returnsOf(f) {
				for i, rv := range r.Results {
					if !refLike(rv.Type()) {
						continue
					}
					for root := range x.roots(rv, map[ssa.Value]bool{}, 0) {
						if p, ok := root.(*ssa.Parameter); ok {
							if sum[i] == nil {
								sum[i] = map[int]bool{}
							}
							sum[i][paramIndex(p)] = true
						}
					}
				}
			}
			old := x.sums[f]
			n1, n2 := 0, 0
			for _, m := range old {
				n1 += len(m)
			}
			for _, m := range sum {
				n2 += len(m)
			}
			if n1 != n2 {
				changed = true
			}
			x.sums[f] = sum
		}
		if !changed {
			break
		}
	}
	return x
}

// noEscapeOfWiped: in a function that wipes a local buffer on exit (defer wipeBytes(b)), no returned
// value may share b's backing store.
func (a *An) noEscapeOfWiped(rule string) {
	R := a.R
	x := a.aliasSummaries()
	n := 0
	for _, f := range a.C.FuncSeq {
		for _, b := range f.Blocks {
			for _, in := range b.Instrs {
				df, ok := in.(*ssa.Defer)
				if !ok || a.F.callName(df) != "wipeBytes" {
					continue
				}
				n++
				wiped := x.roots(df.Call.Args[0], map[ssa.Value]bool{}, 0)
				// the wiped buffer itself: its defining value
				for _, r := range a.returnsOf(f) {
					for i, rv := range r.Results {
						if !refLike(rv.Type()) {
							continue
						}
						res := x.roots(rv, map[ssa.Value]bool{}, 0)
						bad := ""
						for k := range res {
							if wiped[k] || k == df.Call.Args[0] {
								bad = a.C.Term(k)
							}
						}
						// the buffer is itself a call result (makeCopy): compare by the defining call
						if bad == "" {
							if res[df.Call.Args[0]] {
								bad = a.C.Term(df.Call.Args[0])
							}
						}
						key := fmt.Sprintf("%s|return#%d|result%d", a.C.Name(f), r.Block().Index, i)
						R.Check(bad == "", rule, key, "a returned value never aliases the buffer wiped on exit", a.C.InstrPos(r),
							"result "+a.C.Term(rv)+" may share the backing store of "+bad+", which the deferred wipeBytes zeroes before the caller sees it")
					}
				}
			}
		}
	}
	R.Check(n >= 2, rule, "sites", "functions wiping their local copy of caller input on exit (Send, receiveUnit)", "", fmt.Sprintf("%d deferred wipeBytes found", n))
}

func (a *An) c16Whitespace() {
	R := a.R
	rule := "V.whitespace"
	fn := a.MustFn("extractWhitespaceTag")
	if fn == nil {
		return
	}
	for _, r := range a.returnsOf(fn) {
		var inner *ssa.Call
		if call, ok := stripCT(r.Results[0]).(*ssa.Call); ok && a.F.callName(call) == "makeCopy" {
			inner, _ = stripCT(call.Call.Args[0]).(*ssa.Call)
		}
		if inner == nil {
			R.Viol(rule, "extractWhitespaceTag|result", "result is a copy of text-before ‖ text-after", a.C.InstrPos(r), "result is "+a.C.Term(r.Results[0]))
			continue
		}
		head := a.C.Term(inner.Call.Args[0])
		wantHead := "$message[:bytes.Index($message, global:whitespaceTagHeader)]"
		R.Check(head == wantHead, rule, "extractWhitespaceTag|head", "text before the tag is message[:position of the tag header]", a.C.InstrPos(inner), "head is "+head)
		tail := a.C.ByteOffset(inner.Call.Args[1])
		// the tail is the rest after the tag groups: a phi over nextAllWhite rests rooted in message[pos+len(header):]
		tt := a.C.Term(inner.Call.Args[1])
		R.Check(strings.Contains(tt, "$message[(bytes.Index($message, global:whitespaceTagHeader) + len(global:whitespaceTagHeader)):]"), rule, "extractWhitespaceTag|tail", "text after the tag starts right after the tag header and its version groups", a.C.InstrPos(inner), "tail is "+tt)
		_ = tail
	}
	// the scan over the 8-character groups stops only when there is no further all-whitespace group
	loops := naturalLoops(fn)
	if naw := a.uniqueCall(rule, fn, "nextAllWhite"); naw != nil {
		l := loopContaining(loops, naw)
		if l == nil {
			R.Viol(rule, "extractWhitespaceTag|scan-loop", "the version groups are scanned in a loop", a.C.InstrPos(naw), "nextAllWhite is not called in a loop")
		} else {
			for i, ex := range l.Exits() {
				iff, isIf := ex.From.Instrs[len(ex.From.Instrs)-1].(*ssa.If)
				ok := false
				if isIf {
					c := iff.Cond
					if u, isU := c.(*ssa.UnOp); isU {
						c = u.X
					}
					if sc := statusCall(c); sc == naw {
						ok = true
					}
				}
				R.Check(ok, rule, fmt.Sprintf("extractWhitespaceTag|scan-exit#%d", i+1), "the scan ends only when nextAllWhite finds no further group (all offered versions are read and removed)", a.C.InstrPos(ex.From.Instrs[len(ex.From.Instrs)-1]),
					"the scan over the tag groups can stop early: later version tags are neither recorded nor removed from the text")
			}
		}
	}
	for _, r := range a.returnsOf(fn) {
		t := a.C.Term(r.Results[1])
		R.Check(strings.Contains(t, " | 8)") && strings.Contains(t, " | 4)") && !strings.Contains(t, "/ 8 /") && !strings.Contains(t, "phi(8 /") && !strings.Contains(t, "/ 8)") && !strings.Contains(t, "/ 4 /") && !strings.Contains(t, "phi(4 /") && !strings.Contains(t, "/ 4)"), rule, "extractWhitespaceTag|versions-or", "offered versions are accumulated with OR (bit 3 for v3, bit 2 for v2)", a.C.InstrPos(r), "versions = "+t)
	}
	if nf := a.MustFn("nextAllWhite"); nf != nil {
		for _, r := range a.returnsOf(nf) {
			if a.C.Term(r.Results[2]) != "true" {
				a.TermIs(rule, "nextAllWhite|no-group|rest", "rest when there is no group", r, r.Results[1], "$data")
				continue
			}
			a.TermIs(rule, "nextAllWhite|group", "group", r, r.Results[0], "$data[0:8]")
			a.TermIs(rule, "nextAllWhite|rest", "rest", r, r.Results[1], "$data[8:]")
		}
	}
	R.Floor(rule, 4)
}

func stripCT(v ssa.Value) ssa.Value {
	for {
		if ct, ok := v.(*ssa.ChangeType); ok {
			v = ct.X
			continue
		}
		return v
	}
}

// c16QueryParse: the versions of a query are read from the characters before the '?' that ends the list and from
// nowhere else (what follows is text for humans). Two shapes are recognised: the scan loop leaves at the first '?'
// before the character is converted; or the scanned slice was cut at bytes.IndexByte(list, '?') whenever that is not
// negative.
func (a *An) c16QueryParse(rule string) {
	R := a.R
	f := a.MustFn("parseOTRQueryMessage")
	if f == nil {
		return
	}
	n := 0
	var blocks []*ssa.BasicBlock
	for _, g := range a.ownedFns(f) {
		blocks = append(blocks, g.Blocks...)
	}
	for _, b := range blocks {
		for _, in := range b.Instrs {
			call, ok := in.(*ssa.Call)
			if !ok || a.F.callName(call) != "strconv.Atoi" {
				continue
			}
			n++
			// the character converted
			var ch *ssa.UnOp
			v := call.Call.Args[0]
			for i := 0; i < 4; i++ {
				if cv, isC := v.(*ssa.Convert); isC {
					v = cv.X
					continue
				}
				break
			}
			ch, _ = v.(*ssa.UnOp)
			if ch == nil {
				R.Undec(rule, "parseOTRQueryMessage|char", "the converted character is an element of the scanned slice", a.C.InstrPos(call), a.C.Term(call.Call.Args[0]))
				continue
			}
			// shape A: a dominating test of this very character against '?' whose equal-branch leaves the loop
			shapeA := false
			for _, b2 := range b.Parent().Blocks {
				iff, isIf := b2.Instrs[len(b2.Instrs)-1].(*ssa.If)
				if !isIf || !b2.Dominates(b) || b2 == b && false {
					continue
				}
				bo, isB := iff.Cond.(*ssa.BinOp)
				if !isB || (bo.Op != token.EQL && bo.Op != token.NEQ) {
					continue
				}
				x, k := bo.X, bo.Y
				if _, isK := x.(*ssa.Const); isK {
					x, k = k, x
				}
				kc, isK := k.(*ssa.Const)
				if !isK || constStr(kc) != "63" {
					continue
				}
				for i := 0; i < 4; i++ {
					if cv, isC := x.(*ssa.Convert); isC {
						x = cv.X
						continue
					}
					break
				}
				if x != ssa.Value(ch) {
					continue
				}
				eqSucc, neSucc := b2.Succs[0], b2.Succs[1]
				if bo.Op == token.NEQ {
					eqSucc, neSucc = neSucc, eqSucc
				}
				if !reachableFrom(eqSucc)[b] && (neSucc == b || neSucc.Dominates(b)) {
					shapeA = true
				}
			}
			// shape B: the scanned slice is the result of a helper that cuts at IndexByte(list, '?')
			shapeB := false
			if ia, isIA := ch.X.(*ssa.IndexAddr); isIA {
				if hc, isCall := ia.X.(*ssa.Call); isCall {
					if g := hc.Call.StaticCallee(); g != nil && a.C.IsLib(g) && g.Blocks != nil {
						cut, other := 0, 0
						for _, gb := range g.Blocks {
							for _, gin := range gb.Instrs {
								sl, isS := gin.(*ssa.Slice)
								if !isS || sl.High == nil {
									continue
								}
								ic, isC := sl.High.(*ssa.Call)
								if !isC || a.F.callName(ic) != "bytes.IndexByte" || a.C.Term(ic.Call.Args[1]) != "63" || ic.Call.Args[0] != sl.X {
									other++
									continue
								}
								t := a.C.Term(ic)
								fs := a.F.LocalAt(sl)
								if fs.Has("passed:("+t+" >= 0)") || fs.Has("passed:("+t+" != -1)") || fs.Has("passed:("+t+" > -1)") {
									cut++
								} else {
									other++
								}
							}
						}
						shapeB = cut == 1 && other == 0
					}
				}
			}
			R.Check(shapeA || shapeB, rule, "parseOTRQueryMessage|stops-at-terminator", "version digits are taken only from before the '?' that ends the version list", a.C.InstrPos(call),
				"neither a scan that leaves the loop at the first '?' nor a slice cut at IndexByte(list,'?') for every non-negative index was found: digits in the human-readable text after the list are read as offered versions")
		}
	}
	R.Check(n == 1, rule, "parseOTRQueryMessage|atoi", "one conversion site for version characters", a.C.Pos(f.Pos()), fmt.Sprintf("%d", n))
}
