package main

import (
	"regexp"
	"strings"
)

// normGates: a set of branch literals ("(l == r)=T", "x.(T)#1=F", …) without the literals that other literals of the
// same set imply, so that two ways of writing the same decision read the same:
//   - with (x == k)=T in the set, (x == k')=F for another constant-like k' (nil, a number, a package-level value) says
//     nothing (a switch that tests nil first and an if-chain that tests it last);
//   - with x.(T)#1=T in the set, (x == nil)=F says nothing (a type assertion succeeds on non-nil values only);
//   - a merged set that has (x == nil) both ways and x.(T)#1=F: the nil case is one of the cases in which the assertion
//     fails (a nil guard in front of an assertion chain against a type switch).
func normGates(gs []string) []string {
	type eq struct{ l, r string }
	parse := func(g string) (eq, bool, bool) { // literal → (operands, truth, ok)
		if len(g) < 4 || g[0] != '(' {
			return eq{}, false, false
		}
		truth := strings.HasSuffix(g, ")=T")
		if !truth && !strings.HasSuffix(g, ")=F") {
			return eq{}, false, false
		}
		in := g[1 : len(g)-3]
		depth := 0
		for i := 0; i+4 <= len(in); i++ {
			switch in[i] {
			case '(', '[', '{':
				depth++
			case ')', ']', '}':
				depth--
			}
			if depth == 0 && strings.HasPrefix(in[i:], " == ") {
				return eq{in[:i], in[i+4:]}, truth, true
			}
		}
		return eq{}, false, false
	}
	set := map[string]bool{}
	for _, g := range gs {
		set[g] = true
	}
	// equalities that hold: value → constant
	holds := map[string]map[string]bool{}
	for _, g := range gs {
		if e, truth, ok := parse(g); ok && truth {
			x, k := e.l, e.r
			if constLike(e.l) && !constLike(e.r) {
				x, k = e.r, e.l
			}
			if constLike(k) && !constLike(x) {
				if holds[x] == nil {
					holds[x] = map[string]bool{}
				}
				holds[x][k] = true
			}
		}
	}
	asserted := map[string]bool{} // values with a successful / failed type assertion in the set
	failedAssert := map[string]bool{}
	for _, g := range gs {
		if m := assertRe.FindStringSubmatch(g); m != nil {
			if m[2] == "T" {
				asserted[m[1]] = true
			} else {
				failedAssert[m[1]] = true
			}
		}
	}
	var out []string
	for _, g := range gs {
		e, truth, ok := parse(g)
		if ok {
			x, k := e.l, e.r
			if constLike(e.l) && !constLike(e.r) {
				x, k = e.r, e.l
			}
			if constLike(k) && !constLike(x) {
				if !truth {
					other := false
					for h := range holds[x] {
						if h != k {
							other = true
						}
					}
					if other {
						continue
					}
					if k == "nil" && asserted[x] {
						continue
					}
				}
				if k == "nil" && failedAssert[x] && set["("+e.l+" == "+e.r+")=T"] && set["("+e.l+" == "+e.r+")=F"] {
					continue
				}
			}
		}
		out = append(out, g)
	}
	return out
}

var assertRe = regexp.MustCompile(`^(.*)\.\([^()]*\)#1=([TF])$`)
var numRe = regexp.MustCompile(`^-?[0-9]+$`)

// constLike: nil, a number, or a package-level value (of this or another package) — things that differ from each other
// when they are spelled differently.
func constLike(s string) bool {
	return s == "nil" || numRe.MatchString(s) || (strings.HasPrefix(s, "global:") && !strings.ContainsAny(s, " (.["))
}
