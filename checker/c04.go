package main

import (
	"fmt"
	"strings"

	"golang.org/x/tools/go/ssa"
)

func init() {
	register("C04", "Structural clause decided (necessary conditions only): the ratchet bookkeeping equals the specification's formulas on both sides — the sender uses session keys, counter record and wire ids of the pair (our id-1, their id), advertises its newest public key, takes session keys and MAC/cipher keys directly from the key computation of that call, and consumes one counter value per message; the receiver computes keys and the counter record for the ids named in the message, rotates our keys exactly when the message acknowledges our newest id and their key exactly when it was sent under their newest id (installing the advertised key), each rotation moving current to previous before installing the new current and incrementing the id once; the key lookup accepts exactly the current and the previous generation; the previous peer key has no other writer; the plaintext is split at the first NUL only; fragmentation arithmetic as in C14. Not decided: the property itself over all interleavings of two parties and in-flight windows — that is an exploration question; static analysis decides only that each step is the specified step.",
		func(a *An) {
			a.c03Generator("G.generator")
			a.c04Sender("V.ratchet-send")
			a.c04Receiver("V.ratchet-receive")
			a.c04Rotation("S.rotation")
			a.pickKeysTable()
			a.retireOrder("S.retire-order")
			a.c04Split("P.nul-split")
			a.textIdentity("K.text-identity")
			a.counterRecordLookup("P.counter")
			a.acceptPathErrorTable("P.accept-errors")
			a.c10Text("K.text")
			a.narrowings("U.narrow", false)
			a.heartbeatOrder("V.heartbeat-order")
			a.c18SendDispatch("P.send-dispatch")
			a.c14Sender()
			a.c14Predicates()
			a.c14ReceiveOrder()
		})
}

func (a *An) c04Sender(rule string) {
	R := a.R
	fn := a.MustFn("(*Conversation).genDataMsgWithFlag")
	if fn == nil {
		return
	}
	ks := a.uniqueCall(rule, fn, "(*keyManagementContext).calculateDHSessionKeys")
	for _, r := range a.returnsOf(fn) {
		if !isNilConst(resolveLocal(r.Results[2])) {
			continue
		}
		dm := a.complitFields(r.Results[0])
		want := map[string]string{
			"flag":           "$flag",
			"senderKeyID":    "(Conversation.keys.ourKeyID - 1)",
			"recipientKeyID": "Conversation.keys.theirKeyID",
			"y":              "Conversation.keys.ourCurrentDHKeys.pub",
		}
		for k, w := range want {
			R.Check(dm[k] == w, rule, "dataMsg|"+k, "wire field "+k+" = "+w, a.C.InstrPos(r), "it is "+dm[k])
		}
		R.Check(strings.HasPrefix(dm["oldMACKeys"], "(*keyManagementContext).revealMACKeys("), rule, "dataMsg|oldMACKeys", "disclosed keys = drained queue", a.C.InstrPos(r), dm["oldMACKeys"])
		R.Check(strings.Contains(dm["topHalfCtr"], "[8]byte") || dm["topHalfCtr"] != "", rule, "dataMsg|topHalfCtr", "wire counter field is set", a.C.InstrPos(r), dm["topHalfCtr"])
	}
	if ks != nil {
		if sg := a.uniqueCall(rule, fn, "(*dataMsg).sign"); sg != nil {
			okK := false
			if ct, isCT := sg.Call.Args[1].(*ssa.ChangeType); isCT {
				okK = a.keysFrom(ct.X, ks) && strings.HasSuffix(a.C.Term(ct.X), ".sendingMACKey")
			} else {
				okK = a.keysFrom(sg.Call.Args[1], ks) && strings.HasSuffix(a.C.Term(sg.Call.Args[1]), ".sendingMACKey")
			}
			R.Check(okK, rule, "sign|key", "the MAC key is the sending MAC key of the session keys computed in this call", a.C.InstrPos(sg), a.C.Term(sg.Call.Args[1]))
		}
	}
	// counter initialisation: a fresh record starts at 1
	fld := a.MustField("keyPairCounter", "ourCounter")
	n := 0
	for _, st := range a.DirectStoresTo(fld) {
		if a.C.within(st, fn) && a.C.Term(st.Val) == "1" {
			n++
			fs := a.F.LocalAt(st)
			found := false
			for _, f := range fs.List() {
				if strings.HasPrefix(f, "passed:(") && strings.HasSuffix(f, ".ourCounter == 0)") {
					found = true
				}
			}
			R.Check(found, rule, "counter|init", "a counter still at 0 starts at 1", a.C.InstrPos(st), "initialisation not under the == 0 test")
		}
	}
	R.Check(n == 1, rule, "counter|init-store", "the counter is initialised in one place", a.C.Pos(fn.Pos()), fmt.Sprintf("%d", n))
	R.Floor(rule, 8)
}

func (a *An) c04Receiver(rule string) {
	R := a.R
	fn := a.MustFn("(*Conversation).processDataMessageWithRawErrors")
	if fn == nil {
		return
	}
	ks := a.uniqueCall(rule, fn, "(*keyManagementContext).calculateDHSessionKeys")
	if ks != nil {
		a.TermIs(rule, "keys|our", "session keys: our id = recipient id of the message", ks, ks.Call.Args[1], "new(dataMsg).recipientKeyID")
		a.TermIs(rule, "keys|their", "session keys: their id = sender id of the message", ks, ks.Call.Args[2], "new(dataMsg).senderKeyID")
		if cs := a.uniqueCall(rule, fn, "(dataMsg).checkSign"); cs != nil {
			v := cs.Call.Args[1]
			if ct, isCT := v.(*ssa.ChangeType); isCT {
				v = ct.X
			}
			R.Check(a.keysFrom(v, ks) && strings.HasSuffix(a.C.Term(v), ".receivingMACKey"), rule, "checkSign|key", "verified with the receiving MAC key of these session keys", a.C.InstrPos(cs), a.C.Term(v))
			a.TermIs(rule, "checkSign|header", "the MAC covers the received header", cs, cs.Call.Args[2], "$header")
		}
		if dc := a.uniqueCall(rule, fn, "(*plainDataMsg).decrypt"); dc != nil {
			R.Check(a.keysFrom(dc.Call.Args[1], ks) && strings.HasSuffix(a.C.Term(dc.Call.Args[1]), ".receivingAESKey"), rule, "decrypt|key", "deciphered with the receiving AES key of these session keys", a.C.InstrPos(dc), a.C.Term(dc.Call.Args[1]))
			a.TermIs(rule, "decrypt|counter", "with the message's counter", dc, dc.Call.Args[2], "new(dataMsg).topHalfCtr")
			a.TermIs(rule, "decrypt|ciphertext", "the message's ciphertext", dc, dc.Call.Args[3], "new(dataMsg).encryptedMsg")
		}
	}
	if rk := a.MustFn("(*Conversation).rotateKeys"); rk != nil {
		if c := a.uniqueCall(rule, rk, "(*keyManagementContext).rotateOurKeys"); c != nil {
			a.TermIs(rule, "rotateKeys|our", "our rotation is driven by the recipient id", c, c.Call.Args[1], "dataMsg.recipientKeyID", "$dataMessage.recipientKeyID")
		}
		if c := a.uniqueCall(rule, rk, "(*keyManagementContext).rotateTheirKey"); c != nil {
			a.TermIs(rule, "rotateKeys|their", "their rotation is driven by the sender id", c, c.Call.Args[1], "dataMsg.senderKeyID", "$dataMessage.senderKeyID")
			a.TermIs(rule, "rotateKeys|next-key", "the advertised key becomes their current key", c, c.Call.Args[2], "dataMsg.y", "$dataMessage.y")
		}
	}
	R.Floor(rule, 9)
}

func (a *An) c04Rotation(rule string) {
	R := a.R
	if f := a.MustFn("(*keyManagementContext).installNewDHKeyPair"); f != nil {
		cur := a.MustField("keyManagementContext", "ourCurrentDHKeys")
		prev := a.MustField("keyManagementContext", "ourPreviousDHKeys")
		id := a.MustField("keyManagementContext", "ourKeyID")
		var sc, sp, sid *ssa.Store
		for _, st := range a.DirectStoresTo(cur) {
			if a.C.within(st, f) {
				sc = st
			}
		}
		for _, st := range a.DirectStoresTo(prev) {
			if a.C.within(st, f) {
				sp = st
			}
		}
		for _, st := range a.DirectStoresTo(id) {
			if a.C.within(st, f) {
				sid = st
			}
		}
		if sc == nil || sp == nil || sid == nil {
			R.Viol(rule, "generateNewDHKeyPair|stores", "rotation stores previous, current and the id", a.C.Pos(f.Pos()), "a store is missing")
		} else {
			a.TermIs(rule, "generateNewDHKeyPair|previous", "previous := current", sp, sp.Val, "keyManagementContext.ourCurrentDHKeys")
			R.Check(instrDominates(sp, sc), rule, "generateNewDHKeyPair|order", "current is moved to previous before it is replaced", a.C.InstrPos(sc), "order differs")
			cf := a.complitFields(sc.Val)
			R.Check(cf["priv"] == "$newPrivKey" && cf["pub"] == "(*github.com/coyim/constbn.Int).GetBigInt(modExpPCT(global:g1ct, $newPrivKey))", rule, "generateNewDHKeyPair|new-pair", "new pair = (fresh secret, g^secret)", a.C.InstrPos(sc), fmt.Sprintf("%v", cf))
			a.TermIs(rule, "generateNewDHKeyPair|id", "our key id advances by one", sid, sid.Val, "(keyManagementContext.ourKeyID + 1)")
		}
	}
	if f := a.MustFn("(*keyManagementContext).rotateTheirKey"); f != nil {
		cur := a.MustField("keyManagementContext", "theirCurrentDHPubKey")
		prev := a.MustField("keyManagementContext", "theirPreviousDHPubKey")
		id := a.MustField("keyManagementContext", "theirKeyID")
		var sc, sp, sid *ssa.Store
		for _, st := range a.DirectStoresTo(cur) {
			if a.C.within(st, f) {
				sc = st
			}
		}
		for _, st := range a.DirectStoresTo(prev) {
			if a.C.within(st, f) {
				sp = st
			}
		}
		for _, st := range a.DirectStoresTo(id) {
			if a.C.within(st, f) {
				sid = st
			}
		}
		if sc == nil || sp == nil || sid == nil {
			R.Viol(rule, "rotateTheirKey|stores", "rotation stores previous, current and the id", a.C.Pos(f.Pos()), "a store is missing")
		} else {
			a.TermIs(rule, "rotateTheirKey|previous", "previous := current", sp, sp.Val, "keyManagementContext.theirCurrentDHPubKey")
			a.TermIs(rule, "rotateTheirKey|current", "current := advertised key", sc, sc.Val, "$pubDHKey")
			a.TermIs(rule, "rotateTheirKey|id", "their key id advances by one", sid, sid.Val, "(keyManagementContext.theirKeyID + 1)")
			R.Check(instrDominates(sp, sc), rule, "rotateTheirKey|order", "current is moved to previous before it is replaced", a.C.InstrPos(sc), "order differs")
			g := "passed:" + canonCmp("$senderKeyID", "==", "keyManagementContext.theirKeyID")
			a.GateLocal(rule, "rotateTheirKey|guard", sc, "installing their next key", g)
		}
	}
	// the installed secret is fresh: both callers hand over what they just drew from the randomness source
	if inst := a.MustFn("(*keyManagementContext).installNewDHKeyPair"); inst != nil {
		a.WhoMayCall(rule, inst, "(*keyManagementContext).generateNewDHKeyPair", "(*keyManagementContext).rotateOurKeys")
		for _, cs := range a.CallSites(inst) {
			caller := a.C.Name(a.C.owner(cs.Parent()))
			a.R.Check(strings.HasPrefix(a.C.Term(cs.Common().Args[1]), "randSizedSecret("), rule, "install|fresh|"+caller, "the installed private key is a fresh draw", a.C.InstrPos(cs), "installs "+a.C.Term(cs.Common().Args[1]))
			a.GateLocal(rule, "install|drawn|"+caller, cs, "installing a new key pair", "ok:randSizedSecret")
		}
	}
	if f := a.MustFn("(*keyManagementContext).rotateOurKeys"); f != nil {
		if c := a.uniqueCall(rule, f, "(*keyManagementContext).installNewDHKeyPair"); c != nil {
			a.GateLocal(rule, "rotateOurKeys|guard", c, "generating our next pair", "passed:"+canonCmp("$recipientKeyID", "==", "keyManagementContext.ourKeyID"))
		}
	}
	// previous generations have no other writer
	a.WhoMayWriteDirect("W.previous-keys", a.MustField("keyManagementContext", "theirPreviousDHPubKey"), "(*keyManagementContext).rotateTheirKey", "(*keyManagementContext).wipeKeys")
	a.WhoMayWriteDirect("W.previous-keys", a.MustField("keyManagementContext", "ourPreviousDHKeys"), "(*keyManagementContext).installNewDHKeyPair")
	a.WhoMayWriteDirect("W.previous-keys", a.MustField("keyManagementContext", "theirCurrentDHPubKey"), "(*keyManagementContext).rotateTheirKey", "(*keyManagementContext).wipeKeys", "(*keyManagementContext).setTheirCurrentDHPubKey")
	a.WhoMayWriteDirect("W.previous-keys", a.MustField("keyManagementContext", "ourKeyID"), "(*keyManagementContext).installNewDHKeyPair", "(*keyManagementContext).wipe", "(*Conversation).dhCommitMessage", "(*Conversation).revealSigMessage", "(*Conversation).sigMessage")
	a.WhoMayWriteDirect("W.previous-keys", a.MustField("keyManagementContext", "theirKeyID"), "(*keyManagementContext).rotateTheirKey", "(*keyManagementContext).wipe", "(*Conversation).processEncryptedSig")
	// no session-key cache: session keys are computed per message (nothing of type sessionKeys is stored in the conversation)
	for _, f := range a.C.FuncSeq {
		for _, b := range f.Blocks {
			for _, in := range b.Instrs {
				st, ok := in.(*ssa.Store)
				if !ok || typeName(st.Val.Type()) != "sessionKeys" {
					continue
				}
				if _, local := st.Addr.(*ssa.Alloc); local {
					continue
				}
				R.Viol(rule, "session-keys-cached|"+a.C.Name(f), "per-message session keys are not kept across messages (they depend on both current key ids)", a.C.InstrPos(st),
					a.C.Name(f)+" stores session keys into "+a.C.AddrPath(st.Addr)+": a cached value is stale as soon as either key id moves")
			}
		}
	}
	R.Floor(rule, 10)
}

func (a *An) c04Split(rule string) {
	R := a.R
	fn := a.MustFn("(*plainDataMsg).deserialize")
	if fn == nil {
		return
	}
	for _, st := range a.DirectStoresTo(a.MustField("plainDataMsg", "message")) {
		if !a.C.within(st, fn) {
			continue
		}
		t := a.C.Term(st.Val)
		// a result of a new single-use helper: each value the helper can return there
		if alts := a.helperAlternatives(st.Val); len(alts) > 0 {
			okAll := true
			for _, alt := range alts {
				at := a.C.Term(alt)
				if !(at == "$msg" || strings.HasPrefix(at, "$msg[:phi(")) {
					okAll = false
					t = at
				}
			}
			if okAll {
				t = "$msg"
			}
		}
		R.Check(t == "$msg" || strings.HasPrefix(t, "$msg[:phi("), rule, "split|message|"+t[:min2(len(t), 12)], "the text is everything before the first NUL (or the whole plaintext when there is none)", a.C.InstrPos(st), "message = "+t)
	}
	// the scan stops at the first NUL
	var loops []*Loop
	for _, g := range a.ownedFns(fn) {
		loops = append(loops, naturalLoops(g)...)
	}
	found := false
	for _, l := range loops {
		if iff, ok := l.Header.Instrs[len(l.Header.Instrs)-1].(*ssa.If); ok {
			t := a.C.Term(iff.Cond)
			if strings.Contains(t, "len($msg)") && strings.Contains(t, "<") {
				// the second conjunct is in the next block
				for b := range l.Body {
					if i2, ok2 := b.Instrs[len(b.Instrs)-1].(*ssa.If); ok2 {
						if bo, isBO := i2.Cond.(*ssa.BinOp); isBO && bo.Op.String() == "!=" && a.C.Term(bo.Y) == "0" {
							if ld, isLd := bo.X.(*ssa.UnOp); isLd {
								if ia, isIA := ld.X.(*ssa.IndexAddr); isIA {
									if prm, isP := a.C.resolveParam(ia.X).(*ssa.Parameter); isP && prm.Parent() == fn && paramIndex(prm) == 1 && b.Succs[0] != nil && l.Body[b.Succs[0]] && !l.Body[b.Succs[1]] {
										found = true
									}
								}
							}
						}
					}
				}
			}
		}
	}
	dbg := ""
	for _, l := range loops {
		if iff, ok := l.Header.Instrs[len(l.Header.Instrs)-1].(*ssa.If); ok {
			dbg += " header:" + a.C.Term(iff.Cond)
			for b := range l.Body {
				if i2, ok2 := b.Instrs[len(b.Instrs)-1].(*ssa.If); ok2 {
					dbg += " body:" + a.C.Term(i2.Cond)
				}
			}
		}
	}
	R.Check(found, rule, "split|scan", "the position of the split is the first zero byte", a.C.Pos(fn.Pos()), "scan loop not recognised:"+dbg)
	if w := a.MustFn("(plainDataMsg).serialize"); w != nil {
		wf, at := a.writerOf(w)
		_ = wf
		_ = at
	}
}

// ownedFns: fn and the new single-use helpers that belong to it (terms.go).
func (a *An) ownedFns(fn *ssa.Function) []*ssa.Function {
	out := []*ssa.Function{fn}
	for _, g := range a.C.FuncSeq {
		if g != fn && a.C.isNew(g) && a.C.owner(g) == fn {
			out = append(out, g)
		}
	}
	return out
}

// helperAlternatives: for a result of a call of a new single-use helper, the values the helper returns there (one per
// return); nil for any other value.
func (a *An) helperAlternatives(v ssa.Value) []ssa.Value {
	ex, ok := v.(*ssa.Extract)
	var call *ssa.Call
	idx := 0
	if ok {
		call, _ = ex.Tuple.(*ssa.Call)
		idx = ex.Index
	} else if c, isC := v.(*ssa.Call); isC {
		call = c
	}
	if call == nil {
		return nil
	}
	g := call.Call.StaticCallee()
	if g == nil || !a.C.isNew(g) || a.C.soleCall(g) != ssa.CallInstruction(call) {
		return nil
	}
	var out []ssa.Value
	for _, r := range a.returnsOf(g) {
		if idx < len(r.Results) {
			out = append(out, resolveLocal(r.Results[idx]))
		}
	}
	return out
}
