package main

import (
	"flag"
	"fmt"
	"os"
	"runtime/debug"
	"sort"
	"strconv"
	"strings"

	"golang.org/x/tools/go/ssa"
)

// An analysis run for one property on one loaded configuration.
type An struct {
	C *Ctx
	F *FE
	E *Effects
	R *Report
	// atomicMask: which origins of a failure AtomicScan pairs writes with (0: validation of the input)
	atomicMask   Origin
	effFns       map[*ssa.Function][]string
	gateFn       map[string]string
	failAlts     [][][]string
	boundsFilter func(string) bool
}

type propFn func(a *An)

var props = map[string]propFn{}
var explain = map[string]string{}

func register(id string, expl string, fn propFn) {
	props[id] = fn
	explain[id] = expl
}

func main() {
	prop := flag.String("property", "", "property id (C01..C20) or 'all'")
	tier := flag.String("tier", "quick", "quick|thorough")
	repo := flag.String("repo", "/repo", "repository working tree to analyse")
	verif := flag.String("verif", "/verif", "verif directory (evidence, known findings)")
	dump := flag.String("dump", "", "debug: dump facts of the named function")
	dumpEff := flag.String("dumpeff", "", "debug: dump effects of the named function")
	list := flag.Bool("list", false, "debug: list functions")
	genTabs := flag.Bool("gentables", false, "maintenance: print the frozen state-writer and failure-reason tables (tables_gen.go) for the current tree")
	genDecl := flag.Bool("gendecls", false, "maintenance: print the reviewed declaration shapes (decls_gen.go) for the current tree")
	genParams := flag.Bool("genparams", false, "maintenance: print the frozen parameter-name table (paramnames_gen.go) for the current tree")
	flag.Parse()
	if t := os.Getenv("VERIF_TIER"); t != "" && *tier == "" {
		*tier = t
	}
	seed := 0
	if s := os.Getenv("VERIF_SEED"); s != "" {
		if n, err := strconv.Atoi(s); err == nil {
			seed = n
		}
	}
	os.Unsetenv("GOWORK")

	if *genDecl {
		noRenames = true
		c, err := Load(*repo, "")
		if err != nil {
			fmt.Println(err)
			os.Exit(2)
		}
		genDecls(c.Pkgs)
		return
	}
	if *list || *dump != "" || *dumpEff != "" || *genParams || *genTabs {
		c, err := Load(*repo, "")
		if err != nil {
			fmt.Println(err)
			os.Exit(2)
		}
		if *genParams {
			genParamNames(c)
			return
		}
		if *genTabs {
			genTables(&An{C: c, F: NewFE(c), E: NewEffects(c), R: nil})
			return
		}
		if *list {
			for _, f := range c.FuncSeq {
				fmt.Println(c.Name(f))
			}
			return
		}
		if *dumpEff != "" {
			ef := NewEffects(c)
			f, ok := c.Fn(*dumpEff)
			if !ok {
				fmt.Println("no such function")
				return
			}
			for _, x := range ef.Of(f) {
				fmt.Printf("%d %-50s abs=%-50s at %s\n", x.Kind, x.Path, c.abs(f, x.Path), c.InstrPos(x.At))
			}
			return
		}
		if os.Getenv("DBG_BCE") != "" {
			sites, err := unprovenBounds(c)
			fmt.Println(len(sites), err)
			for _, s := range sites {
				in := c.bceInstr(s)
				t := "-"
				if in != nil {
					t = c.bceTerm(in)
				}
				fmt.Printf("%s:%d:%d\t%s\t%s\t%s\t%s\t%s\n", s.File, s.Line, s.Col, s.Kind, s.Func, s.Expr, s.Src, t)
			}
			return
		}
		if os.Getenv("DBG_RET") != "" {
			an := &An{C: c, F: NewFE(c), E: NewEffects(c), R: nil}
			if f, ok := c.Fn(*dump); ok {
				for b, g := range an.blockGates(f, 0) {
					fmt.Printf("block %d: %v\n", b.Index, g)
				}
				for _, e := range an.returnEntries(f, 0) {
					fmt.Printf("entry %v => %v\n", e.gates, e.res)
				}
				for i, alts := range an.failAlts {
					fmt.Printf("alts %d: %v\n", i, alts)
				}
			}
			return
		}
		if os.Getenv("DBG_ARITH") != "" {
			dbgArith(c)
			return
		}
		if os.Getenv("DBG_CALLEES") != "" {
			dbgCallees(c, *dump)
			return
		}
		fe := NewFE(c)
		dumpFacts(c, fe, *dump)
		return
	}

	var ids []string
	if *prop == "all" {
		for id := range props {
			ids = append(ids, id)
		}
		sort.Strings(ids)
	} else {
		for _, id := range strings.Split(*prop, ",") {
			if _, ok := props[id]; !ok {
				fmt.Fprintf(os.Stderr, "unknown property %q\n", id)
				os.Exit(2)
			}
			ids = append(ids, id)
		}
	}
	if len(ids) == 0 {
		fmt.Fprintln(os.Stderr, "usage: otrcheck -property Cnn [-tier quick|thorough]")
		os.Exit(2)
	}

	configs := []string{""}
	if *tier == "thorough" {
		configs = append(configs, "386")
	}
	reports := map[string]*Report{}
	for _, id := range ids {
		reports[id] = NewReport(id, *tier)
		reports[id].Explain = explain[id]
	}
	for _, arch := range configs {
		c, err := Load(*repo, arch)
		cfgName := "linux/amd64"
		if arch != "" {
			cfgName = "linux/" + arch
		}
		if err != nil {
			for _, id := range ids {
				reports[id].cfg = cfgName
				reports[id].Undec("infra", "load|"+cfgName, "load and type-check /repo's working tree", "", err.Error())
			}
			continue
		}
		fe := NewFE(c)
		eff := NewEffects(c)
		for _, id := range ids {
			r := reports[id]
			r.cfg = cfgName
			an := &An{C: c, F: fe, E: eff, R: r}
			runProp(id, an)
			an.closedTables(id)
			an.closedEvents(id)
			an.closedStateCallers(id)
			an.closedGates(id)
			an.closedEraseSites(id)
			an.closedConstArgs(id)
			an.closedReturns(id)
			an.closedCalls(id)
			r.Extra["configurations"] = appendStr(r.Extra["configurations"], cfgName)
			r.Extra["functions_analysed"] = len(c.FuncSeq)
			if len(recognisedRenames) > 0 {
				r.Extra["renamed_declarations_read_under_their_reviewed_name"] = recognisedRenames
			}
			r.Extra["callgraph_nodes"] = len(c.CG.Nodes)
		}
	}
	exit := 0
	for _, id := range ids {
		r := reports[id]
		if *tier == "thorough" {
			runMutants(id, r, *repo, *verif)
		}
		if rc := r.Finish(*verif, seed); rc > exit {
			exit = rc
		}
	}
	os.Exit(exit)
}

func appendStr(v interface{}, s string) []string {
	l, _ := v.([]string)
	for _, x := range l {
		if x == s {
			return l
		}
	}
	return append(l, s)
}

func runProp(id string, a *An) {
	defer func() {
		if p := recover(); p != nil {
			a.R.Undec("infra", "panic|"+id, "analysis must not panic", "", fmt.Sprintf("%v\n%s", p, debug.Stack()))
		}
	}()
	props[id](a)
}

func dumpFacts(c *Ctx, fe *FE, name string) {
	f, ok := c.Fn(name)
	if !ok {
		fmt.Println("no such function; try -list")
		return
	}
	fmt.Println("entry:", fe.Entry(f).List())
	fmt.Println("mustOK:", fe.MustOK(f).List())
	fmt.Println("mustRet:", fe.MustRet(f).List())
	for _, b := range f.Blocks {
		fmt.Printf("block %d in: %v\n", b.Index, fe.in[b].List())
		for _, in := range b.Instrs {
			s := in.String()
			if v, ok := in.(ssa.Value); ok {
				s = v.Name() + " = " + s
			}
			fmt.Printf("\t%s\n", s)
		}
	}
}
