package main

import (
	"fmt"
	"go/token"
	"go/types"
	"sort"
	"strings"

	"golang.org/x/tools/go/ssa"
)

// ---- access paths with explicit roots -----------------------------------------------------------

// APath is an access path: a root plus a field/index suffix. Pointer loads are flattened.
type APath struct {
	Root   ssa.Value // *ssa.Parameter, *ssa.Global, *ssa.Alloc, *ssa.FreeVar, *ssa.Call, or nil (unknown)
	Suffix string    // ".f.g[]"
	Unk    string    // description when Root is nil
}

func (c *Ctx) pathOf(v ssa.Value) APath { return c.pathOfD(v, 0) }

func (c *Ctx) pathOfD(v ssa.Value, d int) APath {
	if d > 14 {
		return APath{Unk: "?deep"}
	}
	switch x := v.(type) {
	case *ssa.FieldAddr:
		p := c.pathOfD(x.X, d+1)
		p.Suffix += "." + fieldOf(x).Name()
		return p
	case *ssa.Field:
		p := c.pathOfD(x.X, d+1)
		p.Suffix += "." + fieldOfVal(x).Name()
		return p
	case *ssa.IndexAddr:
		p := c.pathOfD(x.X, d+1)
		p.Suffix += "[]"
		return p
	case *ssa.Index:
		p := c.pathOfD(x.X, d+1)
		p.Suffix += "[]"
		return p
	case *ssa.Lookup:
		p := c.pathOfD(x.X, d+1)
		p.Suffix += "[]"
		return p
	case *ssa.Slice:
		p := c.pathOfD(x.X, d+1)
		if x.High != nil {
			if _, isArr := x.X.Type().Underlying().(*types.Pointer); !isArr {
				p.Suffix += "[:h]" // re-sliced with an upper bound: may expose spare capacity to append
			}
		}
		return p
	case *ssa.UnOp:
		if x.Op == token.MUL {
			// load: for a local variable holding a pointer/slice, follow the unique store
			if al, ok := x.X.(*ssa.Alloc); ok {
				if sp := spilledParam(al); sp != nil {
					return APath{Root: sp}
				}
				if sv := localStore(x); sv != nil {
					return c.pathOfD(sv, d+1)
				}
			}
			return c.pathOfD(x.X, d+1)
		}
	case *ssa.ChangeType:
		return c.pathOfD(x.X, d+1)
	case *ssa.Convert:
		return c.pathOfD(x.X, d+1)
	case *ssa.MakeInterface:
		return c.pathOfD(x.X, d+1)
	case *ssa.ChangeInterface:
		return c.pathOfD(x.X, d+1)
	case *ssa.TypeAssert:
		return c.pathOfD(x.X, d+1)
	case *ssa.Extract:
		p := c.pathOfD(x.Tuple, d+1)
		if p.Root != nil {
			if _, ok := p.Root.(*ssa.Call); ok && p.Suffix == "" {
				p.Suffix = fmt.Sprintf("#%d", x.Index)
			}
		}
		return p
	case *ssa.Call:
		// a function of the two packages that can hand back one of its (pointer-like) arguments: what is done to the
		// result may be done to that argument
		if i := c.returnsParam(x.Call.StaticCallee(), d); i >= 0 && i < len(x.Call.Args) && !x.Call.IsInvoke() {
			return c.pathOfD(x.Call.Args[i], d+1)
		}
		return APath{Root: v}
	case *ssa.Parameter, *ssa.Global, *ssa.FreeVar:
		return APath{Root: v}
	case *ssa.Alloc:
		if sp := spilledParam(x); sp != nil {
			return APath{Root: sp}
		}
		return APath{Root: v}
	case *ssa.Phi:
		// same path on all edges → that path
		var first *APath
		same := true
		for _, e := range x.Edges {
			if e == v {
				continue
			}
			p := c.pathOfD(e, d+2)
			if first == nil {
				first = &p
			} else if first.Root != p.Root || first.Suffix != p.Suffix {
				same = false
			}
		}
		if first != nil && same {
			return *first
		}
		return APath{Unk: "?phi"}
	case *ssa.MakeSlice, *ssa.MakeMap, *ssa.Const:
		return APath{Root: v}
	}
	return APath{Unk: "?" + v.Name()}
}

// returnsParam: index of a parameter that some return of g hands back as its single pointer-like result (directly or
// through another such function); -1 when there is none.
func (c *Ctx) returnsParam(g *ssa.Function, d int) int {
	if g == nil || !c.IsLib(g) || g.Blocks == nil || g.Signature.Results().Len() != 1 || !pointerLike(g.Signature.Results().At(0).Type()) || d > 10 {
		return -1
	}
	if c.retParam == nil {
		c.retParam = map[*ssa.Function]int{}
	}
	if v, ok := c.retParam[g]; ok {
		return v
	}
	c.retParam[g] = -1 // cycle guard
	res := -1
	for _, b := range g.Blocks {
		r, ok := b.Instrs[len(b.Instrs)-1].(*ssa.Return)
		if !ok || len(r.Results) != 1 {
			continue
		}
		rp := c.pathOfD(r.Results[0], d+2)
		if p, isP := rp.Root.(*ssa.Parameter); isP && rp.Suffix == "" && rp.Unk == "" && p.Parent() == g {
			res = paramIndex(p)
		}
	}
	c.retParam[g] = res
	return res
}

func paramIndex(p *ssa.Parameter) int {
	for i, q := range p.Parent().Params {
		if q == p {
			return i
		}
	}
	return -1
}

// rel renders the path relative to the enclosing function: "$i.f" for parameter roots,
// "global:x.f", "local.f" for allocations/fresh values, "ret:fn.f" for call results.
func (c *Ctx) rel(p APath) string {
	switch r := p.Root.(type) {
	case *ssa.Parameter:
		return fmt.Sprintf("$%d%s", paramIndex(r), p.Suffix)
	case *ssa.Global:
		return c.addrPath(r, 0) + p.Suffix
	case *ssa.Alloc, *ssa.MakeSlice, *ssa.MakeMap, *ssa.Const:
		return "local" + p.Suffix
	case *ssa.FreeVar:
		return "free:" + r.Name() + p.Suffix
	case *ssa.Call:
		if sc := r.Call.StaticCallee(); sc != nil {
			return "ret:" + c.Name(sc) + "<" + typeName(r.Type()) + ">" + p.Suffix
		}
		return "ret:dyn<" + typeName(r.Type()) + ">" + p.Suffix
	}
	if p.Unk != "" {
		return p.Unk + p.Suffix
	}
	return "?" + p.Suffix
}

// abs resolves a function-relative path to a type-rooted one ("Conversation.keys.ourKeyID").
func (c *Ctx) abs(f *ssa.Function, rel string) string {
	if strings.HasPrefix(rel, "$") {
		i := 1
		for i < len(rel) && rel[i] >= '0' && rel[i] <= '9' {
			i++
		}
		var idx int
		fmt.Sscanf(rel[1:i], "%d", &idx)
		// a new single-use helper: the path is the caller's argument path continued
		if cs := c.soleCall(f); cs != nil && idx < len(cs.Common().Args) && !cs.Common().IsInvoke() {
			ap := c.rel(c.pathOf(cs.Common().Args[idx]))
			if strings.HasPrefix(ap, "$") {
				return c.abs(cs.Parent(), ap+rel[i:])
			}
		}
		if idx < len(f.Params) {
			return typeName(f.Params[idx].Type()) + rel[i:]
		}
	}
	if strings.HasPrefix(rel, "ret:") {
		// ret:fn<T>.suffix → T.suffix
		if a := strings.Index(rel, "<"); a >= 0 {
			if b := strings.Index(rel[a:], ">"); b >= 0 {
				return rel[a+1:a+b] + rel[a+b+1:]
			}
		}
	}
	return rel
}

// ---- effects ------------------------------------------------------------------------------------

type EffKind int

const (
	EffWrite  EffKind = iota
	EffWipe           // overwritten with zeroes by a wipe primitive
	EffAppend         // base of a builtin append: written in place when it has spare capacity
)

type Effect struct {
	Kind EffKind
	Path string          // relative to the function holding the summary
	At   ssa.Instruction // instruction in that function (store or call)
}

// wipe primitives: overwrite the argument's backing store with zeroes (bodies are checked by C08).
var wipePrims = map[string]bool{"wipeBytes": true, "wipeBigInt": true, "wipeSecretKeyValue": true}

// external functions that write through an argument: name -> indices of written arguments (receiver = 0)
var extWrites = map[string][]int{
	"(encoding/binary.bigEndian).PutUint16":     {1},
	"(encoding/binary.bigEndian).PutUint32":     {1},
	"(encoding/binary.bigEndian).PutUint64":     {1},
	"io.ReadFull":                               {1},
	"encoding/hex.Decode":                       {0},
	"(*encoding/base64.Encoding).Encode":        {1},
	"(*encoding/base64.Encoding).Decode":        {1},
	"(*math/big.Int).SetBytes":                  {0},
	"(*math/big.Int).Set":                       {0},
	"(*math/big.Int).SetString":                 {0},
	"(*math/big.Int).SetInt64":                  {0},
	"(*math/big.Int).Mod":                       {0},
	"(*math/big.Int).Mul":                       {0},
	"(*math/big.Int).Sub":                       {0},
	"(*math/big.Int).Add":                       {0},
	"(*math/big.Int).Exp":                       {0},
	"(*math/big.Int).ModInverse":                {0},
	"(*github.com/coyim/constbn.Int).SetBigInt": {0},
	"(*github.com/coyim/constbn.Int).ExpB":      {0},
	"crypto/dsa.GenerateParameters":             {0},
	"crypto/dsa.GenerateKey":                    {0},
	"(*sync.RWMutex).Lock":                      {0},
	"(*sync.RWMutex).Unlock":                    {0},
	"(*sync.RWMutex).RLock":                     {0},
	"(*sync.RWMutex).RUnlock":                   {0},
	"(*sync.Once).Do":                           {0},
}

// Effects computes, bottom-up to a fixpoint, the write/wipe effects of every library function
// on memory reachable from its parameters, globals or unknown roots (locals are dropped).
type Effects struct {
	c   *Ctx
	sum map[*ssa.Function][]Effect
}

func NewEffects(c *Ctx) *Effects {
	e := &Effects{c: c, sum: map[*ssa.Function][]Effect{}}
	for iter := 0; iter < 30; iter++ {
		changed := false
		for _, f := range c.FuncSeq {
			if f.Blocks == nil {
				continue
			}
			n := e.compute(f)
			if len(n) != len(e.sum[f]) {
				changed = true
			}
			e.sum[f] = n
		}
		if !changed {
			break
		}
	}
	return e
}

func (e *Effects) Of(f *ssa.Function) []Effect { return e.sum[f] }

// InstrEffects: the write/wipe effects of one instruction, in the enclosing function's terms
// (append bases, which are written only when they have spare capacity, are left out).
func (e *Effects) InstrEffects(in ssa.Instruction) []Effect {
	var out []Effect
	for _, ef := range e.InstrEffectsAll(in) {
		if ef.Kind != EffAppend {
			out = append(out, ef)
		}
	}
	return out
}

// InstrEffectsAll: including append bases.
func (e *Effects) InstrEffectsAll(in ssa.Instruction) []Effect {
	c := e.c
	var out []Effect
	add := func(k EffKind, p APath) {
		r := c.rel(p)
		if strings.HasPrefix(r, "local") {
			return
		}
		out = append(out, Effect{Kind: k, Path: r, At: in})
	}
	switch x := in.(type) {
	case *ssa.Store:
		if _, isLocal := x.Addr.(*ssa.Alloc); isLocal {
			return nil
		}
		add(EffWrite, c.pathOf(x.Addr))
	case *ssa.MapUpdate:
		p := c.pathOf(x.Map)
		p.Suffix += "[]"
		add(EffWrite, p)
	case ssa.CallInstruction:
		if _, isGo := in.(*ssa.Go); isGo {
			return nil
		}
		cc := x.Common()
		if b, ok := cc.Value.(*ssa.Builtin); ok {
			if b.Name() == "copy" && len(cc.Args) > 0 {
				p := c.pathOf(cc.Args[0])
				p.Suffix += "[]"
				add(EffWrite, p)
			}
			if b.Name() == "append" && len(cc.Args) > 0 {
				add(EffAppend, c.pathOf(cc.Args[0]))
			}
			if b.Name() == "clear" && len(cc.Args) > 0 {
				p := c.pathOf(cc.Args[0])
				p.Suffix += "[]"
				add(EffWrite, p)
			}
			return out
		}
		args := cc.Args
		if cc.IsInvoke() {
			args = append([]ssa.Value{cc.Value}, cc.Args...)
		}
		for _, g := range c.Callees(x) {
			g = c.unwrap(g)
			name := c.Name(g)
			if wipePrims[name] && len(args) > 0 {
				p := c.pathOf(args[0])
				add(EffWipe, p)
				continue
			}
			if !c.IsLib(g) {
				full := g.String()
				if idxs, ok := extWrites[full]; ok {
					for _, i := range idxs {
						if i < len(args) {
							p := c.pathOf(args[i])
							p.Suffix += ".*"
							add(EffWrite, p)
						}
					}
				}
				continue
			}
			for _, ce := range e.sum[g] {
				if !strings.HasPrefix(ce.Path, "$") {
					// global / unknown roots propagate unchanged
					if strings.HasPrefix(ce.Path, "free:") {
						continue
					}
					out = append(out, Effect{Kind: ce.Kind, Path: ce.Path, At: in})
					continue
				}
				i := 1
				for i < len(ce.Path) && ce.Path[i] >= '0' && ce.Path[i] <= '9' {
					i++
				}
				var idx int
				fmt.Sscanf(ce.Path[1:i], "%d", &idx)
				if idx >= len(args) {
					continue
				}
				// value-typed aggregates are copied at the call: writes to the copy stay local
				if !pointerLike(args[idx].Type()) {
					continue
				}
				p := c.pathOf(args[idx])
				p.Suffix += ce.Path[i:]
				add(ce.Kind, p)
			}
		}
	}
	return out
}

func pointerLike(t types.Type) bool {
	switch t.Underlying().(type) {
	case *types.Pointer, *types.Slice, *types.Map, *types.Interface, *types.Chan, *types.Signature:
		return true
	}
	return false
}

func (e *Effects) compute(f *ssa.Function) []Effect {
	seen := map[string]bool{}
	var out []Effect
	for _, b := range f.Blocks {
		for _, in := range b.Instrs {
			for _, ef := range e.InstrEffectsAll(in) {
				k := fmt.Sprintf("%d|%s", ef.Kind, ef.Path)
				if seen[k] {
					continue
				}
				seen[k] = true
				out = append(out, ef)
			}
		}
	}
	sort.Slice(out, func(i, j int) bool {
		if out[i].Path != out[j].Path {
			return out[i].Path < out[j].Path
		}
		return out[i].Kind < out[j].Kind
	})
	return out
}
