package main

import (
	"fmt"
	"go/token"
	"go/types"
	"sort"
	"strings"

	"golang.org/x/tools/go/ssa"
)

func init() {
	register("C20", "Structural clause decided: outside package initialisation no function of the two packages writes memory reachable from a package-level variable (stores through addresses derived from a global, map updates, copy/wipe into a global's backing store, library calls known to mutate an argument), with sync.Once as the only (synchronised) exception; every append whose base is a package-level slice is capacity-safe because the slice provably has len == cap (constant-string conversion, composite literal, or the reviewed convertToWhitespace construction); package-level pointers handed to library calls go only to calls of a reviewed read-only/receiver-mutating table. With no shared mutable state there is nothing to race on and no channel between conversations. Not decided: races inside the Go runtime/crypto packages or user callbacks; use of one Conversation from several goroutines (outside the statement).",
		func(a *An) {
			a.globalEffects("E.globals")
			a.globalAppends("E.global-append")
			a.globalEscapes("E.global-args")
			a.globalChannels("E.global-chan")
		})
}

func isInitFn(a *An, f *ssa.Function) bool {
	n := f.Name()
	if n == "init" || strings.HasPrefix(n, "init#") {
		return true
	}
	// helpers reachable only from init
	if f.Parent() != nil {
		return isInitFn(a, f.Parent())
	}
	callers := a.CallSites(f)
	if len(callers) == 0 {
		return false
	}
	for _, cs := range callers {
		p := cs.Parent()
		if p == f || !(p.Name() == "init" || strings.HasPrefix(p.Name(), "init#")) {
			return false
		}
	}
	return true
}

func (a *An) globalEffects(rule string) { a.globalEffectsOn(rule, nil, 200) }

// globalEffectsOn: the same scan restricted to a set of functions (nil: all).
func (a *An) globalEffectsOn(rule string, only map[*ssa.Function]bool, floor int) {
	R := a.R
	allowed := map[string]string{
		"global:notifiedLockFailure": "sync.Once (synchronised by the library), used to print one warning",
	}
	nglob := 0
	for _, pkg := range []*ssa.Package{a.C.Otr, a.C.Sexp} {
		for _, m := range pkg.Members {
			if _, ok := m.(*ssa.Global); ok {
				nglob++
			}
		}
	}
	R.Extra["package_level_variables"] = nglob
	seen := map[string]bool{}
	nfn := 0
	for _, f := range a.C.FuncSeq {
		if f.Blocks == nil || isInitFn(a, f) || (only != nil && !only[f]) {
			continue
		}
		nfn++
		fn := a.C.Name(f)
		clean := true
		for _, b := range f.Blocks {
			for _, in := range b.Instrs {
				// only the instruction's own effects (callee effects are reported in the callee)
				var effs []Effect
				switch x := in.(type) {
				case *ssa.Store, *ssa.MapUpdate:
					effs = a.E.InstrEffects(in)
				case ssa.CallInstruction:
					// builtins and externals have no body of their own: take their effects here
					direct := false
					if _, isB := x.Common().Value.(*ssa.Builtin); isB {
						direct = true
					}
					for _, g := range a.C.Callees(x) {
						g = a.C.unwrap(g)
						if !a.C.IsLib(g) || wipePrims[a.C.Name(g)] {
							direct = true
						}
					}
					if direct {
						effs = a.E.InstrEffects(in)
					} else {
						// memory reachable from a package-level variable handed to a library-internal function that writes
						// through its argument (a method of a package-level cache, say): not visible inside the callee
						own := map[string]bool{}
						for _, g := range a.C.Callees(x) {
							for _, ce := range a.E.Of(a.C.unwrap(g)) {
								own[ce.Path] = true
							}
						}
						for _, ef := range a.E.InstrEffectsAll(in) {
							if ef.Kind != EffAppend && strings.HasPrefix(ef.Path, "global:") && !own[ef.Path] {
								effs = append(effs, ef)
							}
						}
						// a package-level slice handed to a library-internal function that appends to its argument
						for _, ef := range a.E.InstrEffectsAll(in) {
							if ef.Kind == EffAppend && strings.HasPrefix(ef.Path, "global:") {
								gname := ef.Path[len("global:"):]
								resliced := strings.Contains(gname, "[:h]")
								if i := strings.IndexAny(gname, ".["); i >= 0 {
									gname = gname[:i]
								}
								g, _ := a.C.Global(gname)
								safe, why := false, "unknown global"
								if g != nil {
									safe, why = a.globalInitSafe(g)
								}
								if resliced {
									safe, why = false, "the slice is re-sliced below its length first, so the callee's append writes into the shared backing array"
								}
								key := "append-arg|" + fn + "|" + ef.Path
								if seen[key] {
									continue
								}
								seen[key] = true
								clean = false
								R.Check(safe, rule, key, "a package-level slice handed to an appending helper has no spare capacity (the append copies)", a.C.InstrPos(in),
									fn+" hands "+ef.Path+" to a helper that appends to it: "+why+" — conversations running concurrently write into the same backing array")
							}
						}
					}
				}
				for _, ef := range effs {
					if !strings.HasPrefix(ef.Path, "global:") {
						continue
					}
					root := ef.Path
					if i := strings.IndexAny(root[len("global:"):], ".["); i >= 0 {
						root = root[:len("global:")+i]
					}
					key := "write|" + fn + "|" + root
					if seen[key] {
						continue
					}
					seen[key] = true
					clean = false
					if why, ok := allowed[root]; ok {
						R.Ok(rule, key, "synchronised global: "+why, a.C.InstrPos(in))
						continue
					}
					R.Viol(rule, key, "no write to package-level state outside init", a.C.InstrPos(in),
						fn+" writes "+ef.Path+": state shared by all conversations is modified at run time (interference between conversations, data race when they run on different goroutines)")
				}
			}
		}
		if clean {
			R.Ok(rule, "fn|"+fn, "no direct write to package-level state", a.C.Pos(f.Pos()))
		}
	}
	R.Floor(rule, floor)
}

// globalInitSafe: is the package-level slice provably len == cap after initialisation?
func (a *An) globalInitSafe(g *ssa.Global) (bool, string) {
	var stores []*ssa.Store
	for _, f := range a.C.FuncSeq {
		for _, b := range f.Blocks {
			for _, in := range b.Instrs {
				if st, ok := in.(*ssa.Store); ok && st.Addr == ssa.Value(g) {
					stores = append(stores, st)
				}
			}
		}
	}
	if len(stores) == 0 {
		return false, "no initialiser found (nil slice: append allocates, but a later writer would change that)"
	}
	for _, st := range stores {
		if !isInitFn(a, st.Parent()) {
			return false, "assigned outside init in " + a.C.Name(st.Parent())
		}
		switch v := st.Val.(type) {
		case *ssa.Convert:
			if k, ok := v.X.(*ssa.Const); ok && k.Value != nil {
				continue // []byte("constant"): exact-size allocation
			}
			return false, "converted from a non-constant " + a.C.Term(v.X)
		case *ssa.Slice:
			if al, ok := v.X.(*ssa.Alloc); ok && v.Low == nil && v.High == nil && v.Max == nil && al.Heap {
				continue // composite literal: slice of the whole backing array
			}
			return false, "slice expression " + a.C.Term(v)
		case *ssa.Call:
			if a.F.callName(v) == "convertToWhitespace" {
				if ok, why := a.convertToWhitespaceExact(); ok {
					continue
				} else {
					return false, "convertToWhitespace: " + why
				}
			}
			return false, "result of " + a.F.callName(v) + " (capacity unknown)"
		default:
			return false, "initialised by " + a.C.Term(st.Val)
		}
	}
	return true, ""
}

// convertToWhitespace allocates len(v)*8 and appends exactly eight characters ("%08s" of a byte's
// binary form) per input byte: len == cap on return.
func (a *An) convertToWhitespaceExact() (bool, string) {
	fn := a.MustFn("convertToWhitespace")
	if fn == nil {
		return false, "missing"
	}
	var mk *ssa.MakeSlice
	for _, b := range fn.Blocks {
		for _, in := range b.Instrs {
			if m, ok := in.(*ssa.MakeSlice); ok {
				mk = m
			}
		}
	}
	if mk == nil || a.C.Term(mk.Len) != "0" || a.C.Term(mk.Cap) != "(len($v) * 8)" {
		return false, "allocation is not make([]byte, 0, len(v)*8)"
	}
	okFmt := false
	for _, b := range fn.Blocks {
		for _, in := range b.Instrs {
			if c, ok := in.(*ssa.Call); ok && a.F.callName(c) == "fmt.Sprintf" && a.C.Term(c.Call.Args[0]) == `"%08s"` {
				okFmt = true
			}
		}
	}
	if !okFmt {
		return false, "the per-byte rendering is not the 8-character %08s form"
	}
	return true, ""
}

func (a *An) globalAppends(rule string) {
	R := a.R
	n := 0
	for _, f := range a.C.FuncSeq {
		if isInitFn(a, f) {
			continue
		}
		for _, b := range f.Blocks {
			for _, in := range b.Instrs {
				call, ok := in.(*ssa.Call)
				if !ok {
					continue
				}
				bi, ok := call.Call.Value.(*ssa.Builtin)
				if !ok || bi.Name() != "append" {
					continue
				}
				p := a.C.pathOf(call.Call.Args[0])
				g, isG := p.Root.(*ssa.Global)
				if !isG || (g.Pkg != a.C.Otr && g.Pkg != a.C.Sexp) {
					continue
				}
				n++
				key := a.C.Name(f) + "|append " + a.C.rel(p)
				if p.Suffix != "" {
					R.Viol(rule, key, "append on a package-level slice only when it provably has no spare capacity", a.C.InstrPos(call), "base is a sub-object of a global: "+a.C.rel(p))
					continue
				}
				ok2, why := a.globalInitSafe(g)
				R.Check(ok2, rule, key, "append on a package-level slice copies (len == cap by construction)", a.C.InstrPos(call),
					"append(global:"+g.Name()+", …) may write into shared spare capacity: "+why+" — two conversations building a message at the same time overwrite each other's bytes")
			}
		}
	}
	R.Check(n >= 4, rule, "sites", "appends based on package-level slices found", "", fmt.Sprintf("%d", n))
}

// read-only / receiver-only library calls that package-level pointers may be handed to
var readOnlyCalls = map[string]bool{
	"bytes.HasPrefix": true, "bytes.Contains": true, "bytes.Index": true, "bytes.Split": true, "bytes.Equal": true, "bytes.Compare": true, "bytes.IndexByte": true,
	"(*math/big.Int).Cmp": true, "(*math/big.Int).Bytes": true, "(*math/big.Int).String": true,
	"fmt.Sprintf": true, "fmt.Fprintf": true, "fmt.Printf": true, "bufio.NewWriter": true,
	"(time.Time).Add": true, "(time.Duration).String": true,
	"(*github.com/coyim/constbn.Int).GetBigInt": true,
	"reflect.SliceOf": true, "reflect.ArrayOf": true, "(reflect.Value).Type": true,
}

// argument positions that a mutating library call only reads (receiver = 0 is what it writes)
var readArgs = map[string]bool{
	"(*math/big.Int).Exp": true, "(*math/big.Int).Mod": true, "(*math/big.Int).Mul": true, "(*math/big.Int).Sub": true, "(*math/big.Int).Add": true,
	"(*math/big.Int).ModInverse": true, "(*math/big.Int).Set": true, "(*math/big.Int).SetBytes": true,
	"(*github.com/coyim/constbn.Int).ExpB": true, "(*github.com/coyim/constbn.Int).SetBigInt": true,
}

func (a *An) globalEscapes(rule string) { a.globalEscapesOn(rule, nil) }

// globalEscapesOn: the same restricted to a set of functions (nil: all).
func (a *An) globalEscapesOn(rule string, only map[*ssa.Function]bool) {
	R := a.R
	seen := map[string]bool{}
	for _, f := range a.C.FuncSeq {
		if isInitFn(a, f) || (only != nil && !only[f]) {
			continue
		}
		for _, b := range f.Blocks {
			for _, in := range b.Instrs {
				call, ok := in.(ssa.CallInstruction)
				if !ok {
					continue
				}
				cc := call.Common()
				if _, isB := cc.Value.(*ssa.Builtin); isB {
					continue
				}
				args := cc.Args
				if cc.IsInvoke() {
					args = append([]ssa.Value{cc.Value}, args...)
				}
				for _, g := range a.C.Callees(call) {
					g = a.C.unwrap(g)
					if a.C.IsLib(g) {
						continue
					}
					name := g.String()
					for i, ar := range args {
						if !pointerLike(ar.Type()) {
							continue
						}
						// every alternative of a merged value counts (r = the caller's reader, or a package-level one)
						var gl *ssa.Global
						for _, alt := range phiAlternatives(ar, 0) {
							p := a.C.pathOf(alt)
							if g2, isG := p.Root.(*ssa.Global); isG && (g2.Pkg == a.C.Otr || g2.Pkg == a.C.Sexp) {
								gl = g2
							}
						}
						if gl == nil {
							continue
						}
						key := "arg|" + a.C.Name(f) + "|" + name + "|" + gl.Name()
						if seen[key] {
							continue
						}
						seen[key] = true
						switch {
						case readOnlyCalls[name]:
							R.Ok(rule, key, "package-level value handed to a read-only library call", a.C.InstrPos(in))
						case readArgs[name] && i > 0:
							R.Ok(rule, key, "package-level value is an operand (not the receiver) of an arithmetic call", a.C.InstrPos(in))
						case gl.Name() == "notifiedLockFailure" || gl.Name() == "standardErrorOutput":
							R.Ok(rule, key, "synchronised once / debug output writer", a.C.InstrPos(in))
						default:
							R.Viol(rule, key, "package-level values are handed only to reviewed read-only library calls", a.C.InstrPos(in),
								a.C.Name(f)+" passes global "+gl.Name()+" as argument "+fmt.Sprint(i)+" of "+name+", which is not known to leave it unmodified")
						}
					}
				}
			}
		}
	}
	var keys []string
	for k := range seen {
		keys = append(keys, k)
	}
	sort.Strings(keys)
	if only == nil {
		R.Floor(rule, 5)
	} else {
		R.Floor(rule, 1)
	}
}

// phiAlternatives: the values that can flow into v through phis (v itself when it is none).
func phiAlternatives(v ssa.Value, d int) []ssa.Value {
	phi, ok := v.(*ssa.Phi)
	if !ok || d > 4 {
		return []ssa.Value{v}
	}
	var out []ssa.Value
	for _, e := range phi.Edges {
		if e == v {
			continue
		}
		out = append(out, phiAlternatives(e, d+1)...)
	}
	return out
}

// globalChannels: no function (outside initialisation) sends on, receives from, selects on or closes a channel held in a
// package-level variable: such a channel is a quota, a queue or a signal shared by every conversation of the process.
func (a *An) globalChannels(rule string) {
	R := a.R
	n := 0
	isGlobalChan := func(v ssa.Value) (string, bool) {
		p := a.C.AddrPath(v)
		if strings.HasPrefix(p, "global:") || strings.Contains(p, "global:") {
			return p, true
		}
		return p, false
	}
	for _, f := range a.C.FuncSeq {
		if f.Blocks == nil || isInitFn(a, f) {
			continue
		}
		cnt := map[string]int{}
		for _, b := range f.Blocks {
			for _, in := range b.Instrs {
				var chans []ssa.Value
				what := ""
				switch x := in.(type) {
				case *ssa.Send:
					chans, what = []ssa.Value{x.Chan}, "send"
				case *ssa.UnOp:
					if x.Op == token.ARROW {
						chans, what = []ssa.Value{x.X}, "receive"
					}
				case *ssa.Select:
					for _, st := range x.States {
						chans = append(chans, st.Chan)
					}
					what = "select"
				case *ssa.Call:
					if bi, ok := x.Call.Value.(*ssa.Builtin); ok && (bi.Name() == "close" || bi.Name() == "len" || bi.Name() == "cap") && len(x.Call.Args) == 1 {
						if _, isChan := x.Call.Args[0].Type().Underlying().(*types.Chan); isChan {
							chans, what = []ssa.Value{x.Call.Args[0]}, bi.Name()
						}
					}
				}
				for _, ch := range chans {
					n++
					p, glob := isGlobalChan(ch)
					R.Check(!glob, rule, ordinalKey("chan|"+a.C.alias(f)+"|"+what+"|"+p, cnt), "channel operations involve no package-level channel", a.C.InstrPos(in),
						what+" on "+p+": a channel shared by every conversation of the process")
				}
			}
		}
	}
	R.Extra["channel_operations_seen"] = n
	if n == 0 {
		R.Ok(rule, "chan|none", "the two packages contain no channel operation outside initialisation", "")
	}
}
