package main

// Pure renames of unexported identifiers are not a change of behaviour. The rules and the frozen tables name
// functions, methods, types, fields and package-level variables of the reviewed tree; this file recognises, on every
// run, declarations of the current tree that are a reviewed declaration under another name, and lets the whole
// analysis see them under the reviewed name: the tree is loaded once, the renames are recognised from the
// type-checked syntax, and (only when there are any) the tree is loaded a second time with exactly the identifiers
// that resolve to a renamed declaration spelled the reviewed way (positions are unchanged, so reports still point at
// the right place). What counts as "the same declaration under another name" is strict:
//   - a type: the reviewed name is gone, the new name is unexported and was not there, field list (names, types) and
//     method names are identical;
//   - a field: same struct, same position, same type, reviewed name gone from that struct, new name unexported;
//   - a function or method: reviewed name gone, same receiver, same signature, and a body that is identical once every
//     identifier is replaced by what it denotes structurally (locals by first occurrence, library declarations by
//     their kind) — a rename together with a change of the body is not recognised and is judged as a new function;
//   - a package-level variable or constant: same type, same initialiser shape / same value.
// Exported names are never treated as renamed (they are API, and may satisfy interfaces of other packages).

import (
	"crypto/sha256"
	"fmt"
	"go/ast"
	"go/constant"
	"go/parser"
	"go/token"
	"go/types"
	"reflect"
	"sort"
	"strings"

	"golang.org/x/tools/go/packages"
)

type declInfo struct {
	structs map[string][]string // type → "name type" per field (struct types)
	shapes  map[string]string   // type → underlying shape (non-struct) + method names
	funcs   map[string]string   // canonical function name → signature | body fingerprint
	order   map[string]int      // canonical function name → declaration ordinal
	vars    map[string]string   // package-level variable → type | initialiser fingerprint
	consts  map[string]string   // package-level constant → type | value
	methods map[string]bool     // every method name (concrete and interface)
	// objects
	typeObj  map[string]*types.TypeName
	fieldObj map[string]*types.Var // "T.f"
	funcObj  map[string]*types.Func
	varObj   map[string]types.Object
}

func pkgPrefix(p *types.Package) string {
	if p != nil && p.Path() == sexpPath {
		return "sexp."
	}
	return ""
}

func isLibPkg(p *types.Package) bool {
	return p != nil && (p.Path() == otrPath || p.Path() == sexpPath)
}

// typeStr renders a type with library type names mapped through ren (current name → reviewed name).
func typeStr(t types.Type, ren map[string]string) string {
	return types.TypeString(t, func(p *types.Package) string {
		if p == nil {
			return ""
		}
		if p.Path() == otrPath {
			return "§"
		}
		if p.Path() == sexpPath {
			return "§sexp"
		}
		return p.Path()
	})
}

func applyTypeRen(s string, ren map[string]string) string {
	if len(ren) == 0 {
		return s
	}
	// names appear as "§.name" / "§sexp.name"
	var keys []string
	for k := range ren {
		keys = append(keys, k)
	}
	sort.Slice(keys, func(i, j int) bool { return len(keys[i]) > len(keys[j]) })
	for _, k := range keys {
		pre, n := "§.", k
		old := ren[k]
		if strings.HasPrefix(k, "sexp.") {
			pre, n, old = "§sexp.", k[5:], strings.TrimPrefix(old, "sexp.")
		}
		s = replaceWord(s, pre+n, pre+old)
	}
	return s
}

func replaceWord(s, from, to string) string {
	out := ""
	for {
		i := strings.Index(s, from)
		if i < 0 {
			return out + s
		}
		j := i + len(from)
		if j < len(s) && (s[j] == '_' || s[j] >= '0' && s[j] <= '9' || s[j] >= 'a' && s[j] <= 'z' || s[j] >= 'A' && s[j] <= 'Z') {
			out += s[:j]
			s = s[j:]
			continue
		}
		out += s[:i] + to
		s = s[j:]
	}
}

func funcKey(fn *types.Func) string {
	sig := fn.Type().(*types.Signature)
	pre := pkgPrefix(fn.Pkg())
	if r := sig.Recv(); r != nil {
		t := r.Type()
		star := ""
		if p, ok := t.(*types.Pointer); ok {
			t, star = p.Elem(), "*"
		}
		if n, ok := t.(*types.Named); ok {
			return "(" + star + pre + n.Obj().Name() + ")." + fn.Name()
		}
		return "(?)." + fn.Name()
	}
	return pre + fn.Name()
}

func collectDecls(pkgs []*packages.Package) *declInfo {
	d := &declInfo{structs: map[string][]string{}, shapes: map[string]string{}, funcs: map[string]string{}, order: map[string]int{},
		vars: map[string]string{}, consts: map[string]string{}, methods: map[string]bool{},
		typeObj: map[string]*types.TypeName{}, fieldObj: map[string]*types.Var{}, funcObj: map[string]*types.Func{}, varObj: map[string]types.Object{}}
	for _, p := range pkgs {
		pre := pkgPrefix(p.Types)
		sc := p.Types.Scope()
		for _, name := range sc.Names() {
			switch o := sc.Lookup(name).(type) {
			case *types.TypeName:
				if o.IsAlias() {
					continue
				}
				d.typeObj[pre+name] = o
				var ms []string
				if nt, ok := o.Type().(*types.Named); ok {
					for i := 0; i < nt.NumMethods(); i++ {
						ms = append(ms, nt.Method(i).Name())
						d.methods[nt.Method(i).Name()] = true
					}
				}
				sort.Strings(ms)
				switch u := o.Type().Underlying().(type) {
				case *types.Struct:
					var fl []string
					for i := 0; i < u.NumFields(); i++ {
						f := u.Field(i)
						emb := ""
						if f.Embedded() {
							emb = "embedded "
						}
						fl = append(fl, emb+f.Name()+" "+typeStr(f.Type(), nil))
						d.fieldObj[pre+name+"."+f.Name()] = f
					}
					d.structs[pre+name] = fl
					d.shapes[pre+name] = "struct|" + strings.Join(ms, ",")
				case *types.Interface:
					for i := 0; i < u.NumMethods(); i++ {
						d.methods[u.Method(i).Name()] = true
					}
					d.shapes[pre+name] = typeStr(u, nil) + "|" + strings.Join(ms, ",")
				default:
					d.shapes[pre+name] = typeStr(u, nil) + "|" + strings.Join(ms, ",")
				}
			case *types.Var:
				d.varObj[pre+name] = o
				d.vars[pre+name] = typeStr(o.Type(), nil)
			case *types.Const:
				d.varObj[pre+name] = o
				v := ""
				if o.Val() != nil && o.Val().Kind() != constant.Unknown {
					v = o.Val().ExactString()
				}
				d.consts[pre+name] = typeStr(o.Type(), nil) + "|" + v
			}
		}
		// functions, in declaration order; initialisers of variables
		var files []*ast.File
		files = append(files, p.Syntax...)
		sort.Slice(files, func(i, j int) bool {
			return p.Fset.Position(files[i].Pos()).Filename < p.Fset.Position(files[j].Pos()).Filename
		})
		ord := 0
		for _, f := range files {
			for _, decl := range f.Decls {
				switch x := decl.(type) {
				case *ast.FuncDecl:
					fn, _ := p.TypesInfo.Defs[x.Name].(*types.Func)
					if fn == nil || x.Name.Name == "init" || x.Name.Name == "_" {
						continue
					}
					k := funcKey(fn)
					d.funcObj[k] = fn
					sig := fn.Type().(*types.Signature)
					d.funcs[k] = typeStr(types.NewSignatureType(nil, nil, nil, sig.Params(), sig.Results(), sig.Variadic()), nil) + "|" + fingerprint(p.TypesInfo, x)
					d.order[k] = ord
					ord++
				case *ast.GenDecl:
					if x.Tok != token.VAR {
						continue
					}
					for _, spec := range x.Specs {
						vs := spec.(*ast.ValueSpec)
						for i, id := range vs.Names {
							if id.Name == "_" {
								continue
							}
							fp := ""
							if i < len(vs.Values) {
								fp = fingerprint(p.TypesInfo, vs.Values[i])
							} else if len(vs.Values) == 1 {
								fp = fmt.Sprintf("%d of %s", i, fingerprint(p.TypesInfo, vs.Values[0]))
							}
							if _, ok := d.vars[pre+id.Name]; ok {
								d.vars[pre+id.Name] += "|" + fp
							}
						}
					}
				}
			}
		}
	}
	return d
}

// fingerprint: the shape of a piece of syntax with every name abstracted to what it denotes.
func fingerprint(info *types.Info, n ast.Node) string {
	h := sha256.Sum256([]byte(fingerprint2(info, n, map[types.Object]int{})))
	return fmt.Sprintf("%x", h[:10])
}

// fingerprint2: the unhashed shape, sharing the numbering of locals.
func fingerprint2(info *types.Info, n ast.Node, locals map[types.Object]int) string {
	var sb strings.Builder
	ast.Inspect(n, nil2(info, &sb, locals))
	return sb.String()
}

func nil2(info *types.Info, sb *strings.Builder, locals map[types.Object]int) func(ast.Node) bool {
	return func(m ast.Node) bool {
		if m == nil {
			sb.WriteString(")")
			return true
		}
		switch x := m.(type) {
		case *ast.Comment, *ast.CommentGroup:
			return false
		case *ast.Ident:
			obj := info.ObjectOf(x)
			switch o := obj.(type) {
			case nil:
				sb.WriteString("(id:" + x.Name)
			case *types.PkgName:
				sb.WriteString("(pkg:" + o.Imported().Path())
			case *types.Var:
				if o.IsField() {
					if o.Exported() || !isLibPkg(o.Pkg()) {
						sb.WriteString("(field:" + o.Name())
					} else {
						sb.WriteString("(field")
					}
				} else if o.Pkg() != nil && o.Parent() == o.Pkg().Scope() {
					if o.Exported() || !isLibPkg(o.Pkg()) {
						sb.WriteString("(var:" + o.Pkg().Path() + "." + o.Name())
					} else {
						sb.WriteString("(var")
					}
				} else {
					k, ok := locals[o]
					if !ok {
						k = len(locals)
						locals[o] = k
					}
					sb.WriteString(fmt.Sprintf("(L%d", k))
				}
			case *types.Func:
				if o.Exported() || !isLibPkg(o.Pkg()) {
					p := ""
					if o.Pkg() != nil {
						p = o.Pkg().Path()
					}
					sb.WriteString("(func:" + p + "." + o.Name())
				} else {
					sb.WriteString("(func")
				}
			case *types.TypeName:
				if o.Exported() || !isLibPkg(o.Pkg()) {
					sb.WriteString("(type:" + o.Name())
				} else {
					sb.WriteString("(type")
				}
			case *types.Const:
				if o.Val() != nil && o.Val().Kind() != constant.Unknown {
					sb.WriteString("(const:" + o.Val().ExactString())
				} else {
					sb.WriteString("(const")
				}
			case *types.Label:
				k, ok := locals[o]
				if !ok {
					k = len(locals)
					locals[o] = k
				}
				sb.WriteString(fmt.Sprintf("(label%d", k))
			default:
				sb.WriteString("(" + x.Name)
			}
		case *ast.FuncDecl:
			// the name and the documentation are not part of the shape
			sb.WriteString("(fn")
			f := nil2(info, sb, locals)
			if x.Recv != nil {
				ast.Inspect(x.Recv, f)
			}
			ast.Inspect(x.Type, f)
			if x.Body != nil {
				ast.Inspect(x.Body, f)
			}
			sb.WriteString(")")
			return false
		case *ast.BasicLit:
			sb.WriteString("(lit:" + x.Value)
		case *ast.BinaryExpr:
			sb.WriteString("(bin" + x.Op.String())
		case *ast.UnaryExpr:
			sb.WriteString("(un" + x.Op.String())
		case *ast.AssignStmt:
			sb.WriteString("(as" + x.Tok.String())
		case *ast.IncDecStmt:
			sb.WriteString("(incdec" + x.Tok.String())
		case *ast.BranchStmt:
			sb.WriteString("(br" + x.Tok.String())
		case *ast.RangeStmt:
			sb.WriteString("(range" + x.Tok.String())
		case *ast.ChanType:
			sb.WriteString(fmt.Sprintf("(chan%d", x.Dir))
		case *ast.CallExpr:
			if x.Ellipsis.IsValid() {
				sb.WriteString("(call...")
			} else {
				sb.WriteString("(call")
			}
		default:
			sb.WriteString(fmt.Sprintf("(%T", m))
		}
		return true
	}
}

// a recognised rename
type renameRec struct {
	obj      types.Object
	kind     string
	from, to string // current name → reviewed name (simple identifiers)
	where    string
}

func exportedName(s string) bool { return s != "" && s[0] >= 'A' && s[0] <= 'Z' }

func simpleName(k string) string {
	if i := strings.LastIndex(k, "."); i >= 0 {
		return k[i+1:]
	}
	return k
}

// recognise compares the declarations of the current tree with the reviewed ones.
func recogniseRenames(d *declInfo) []renameRec {
	var out []renameRec
	// --- types
	typeRen := map[string]string{} // current → reviewed
	var missingT, freshT []string
	for k := range frozenDeclShapes {
		if _, ok := d.shapes[k]; !ok {
			missingT = append(missingT, k)
		}
	}
	for k := range d.shapes {
		if _, ok := frozenDeclShapes[k]; !ok && !exportedName(simpleName(k)) {
			freshT = append(freshT, k)
		}
	}
	sort.Strings(missingT)
	sort.Strings(freshT)
	for _, n := range freshT {
		var cands []string
		for _, o := range missingT {
			if strings.HasPrefix(n, "sexp.") != strings.HasPrefix(o, "sexp.") || exportedName(simpleName(o)) {
				continue
			}
			if frozenDeclShapes[o] != d.shapes[n] {
				continue
			}
			if fs, isS := frozenDeclStructs[o]; isS {
				if strings.Join(fs, ";") != strings.Join(d.structs[n], ";") {
					continue
				}
			}
			cands = append(cands, o)
		}
		if len(cands) == 1 {
			// nobody else claims it
			claim := 0
			for _, m := range freshT {
				if d.shapes[m] == d.shapes[n] && strings.Join(d.structs[m], ";") == strings.Join(d.structs[n], ";") {
					claim++
				}
			}
			if claim == 1 {
				typeRen[n] = cands[0]
				out = append(out, renameRec{d.typeObj[n], "type", simpleName(n), simpleName(cands[0]), ""})
			}
		}
	}
	revName := func(cur string) string { // current type name → reviewed
		if o, ok := typeRen[cur]; ok {
			return o
		}
		return cur
	}
	mapTypes := func(s string) string { return applyTypeRen(s, typeRen) }
	// embedded fields of renamed types are renamed with them (their name is the type's name); handled at collection
	// --- fields
	for cur, fl := range d.structs {
		old := revName(cur)
		ofl, ok := frozenDeclStructs[old]
		if !ok || len(ofl) != len(fl) {
			continue
		}
		oldNames, curNames := map[string]bool{}, map[string]bool{}
		same := true
		for i := range fl {
			a, b := strings.SplitN(mapTypes(fl[i]), " ", 2), strings.SplitN(ofl[i], " ", 2)
			if strings.HasPrefix(fl[i], "embedded ") || strings.HasPrefix(ofl[i], "embedded ") {
				// compare whole
				if mapTypes(fl[i]) != ofl[i] {
					// an embedded field follows its type's rename
					ca, cb := strings.Fields(mapTypes(fl[i])), strings.Fields(ofl[i])
					if len(ca) != 3 || len(cb) != 3 || ca[2] != cb[2] {
						same = false
					}
				}
				continue
			}
			if len(a) != 2 || len(b) != 2 || a[1] != b[1] {
				same = false
				break
			}
			curNames[a[0]] = true
			oldNames[b[0]] = true
		}
		if !same {
			continue
		}
		for i := range fl {
			if strings.HasPrefix(fl[i], "embedded ") {
				continue
			}
			a, b := strings.SplitN(fl[i], " ", 2)[0], strings.SplitN(ofl[i], " ", 2)[0]
			if a == b || exportedName(a) || exportedName(b) || oldNames[a] || curNames[b] {
				continue
			}
			out = append(out, renameRec{d.fieldObj[cur+"."+a], "field", a, b, old})
		}
	}
	// --- functions and methods
	mapKey := func(k string) string { // current function key → key with reviewed receiver type
		if strings.HasPrefix(k, "(") {
			i := strings.Index(k, ")")
			recv := k[1:i]
			star := ""
			if strings.HasPrefix(recv, "*") {
				star, recv = "*", recv[1:]
			}
			return "(" + star + revName(recv) + ")" + k[i+1:]
		}
		return k
	}
	curByMapped := map[string]string{}
	for k := range d.funcs {
		curByMapped[mapKey(k)] = k
	}
	var missingF, freshF []string
	for k := range frozenDeclFuncs {
		if _, ok := curByMapped[k]; !ok {
			missingF = append(missingF, k)
		}
	}
	for mk, k := range curByMapped {
		if _, ok := frozenDeclFuncs[mk]; !ok && !exportedName(simpleName(k)) {
			freshF = append(freshF, k)
		}
	}
	sort.Slice(missingF, func(i, j int) bool { return frozenDeclOrder[missingF[i]] < frozenDeclOrder[missingF[j]] })
	sort.Slice(freshF, func(i, j int) bool { return d.order[freshF[i]] < d.order[freshF[j]] })
	recvOf := func(k string) string {
		if strings.HasPrefix(k, "(") {
			return k[:strings.Index(k, ")")+1]
		}
		if strings.HasPrefix(k, "sexp.") {
			return "sexp."
		}
		return ""
	}
	frozenMethodNames := map[string]bool{}
	for k := range frozenDeclFuncs {
		if strings.HasPrefix(k, "(") {
			frozenMethodNames[simpleName(k)] = true
		}
	}
	for n := range frozenDeclIfaceMethods {
		frozenMethodNames[n] = true
	}
	groups := map[string][2][]string{} // receiver|sig|fingerprint → (missing, fresh)
	for _, o := range missingF {
		if exportedName(simpleName(o)) {
			continue
		}
		g := recvOf(o) + "|" + frozenDeclFuncs[o]
		e := groups[g]
		e[0] = append(e[0], o)
		groups[g] = e
	}
	for _, n := range freshF {
		g := recvOf(mapKey(n)) + "|" + mapTypes(d.funcs[n])
		e := groups[g]
		e[1] = append(e[1], n)
		groups[g] = e
	}
	var gk []string
	for g := range groups {
		gk = append(gk, g)
	}
	sort.Strings(gk)
	for _, g := range gk {
		e := groups[g]
		if len(e[0]) == 0 || len(e[0]) != len(e[1]) {
			continue
		}
		for i := range e[0] {
			o, n := e[0][i], e[1][i]
			on, nn := simpleName(o), simpleName(n)
			if strings.HasPrefix(o, "(") {
				// a method: the reviewed name must be gone from every method set, the new one must not have been a method name
				if d.methods[on] || frozenMethodNames[nn] {
					continue
				}
			}
			out = append(out, renameRec{d.funcObj[n], "func", nn, on, recvOf(o)})
		}
	}
	// --- package-level variables and constants
	pair := func(cur, frozen map[string]string, kind string) {
		var missing, fresh []string
		for k := range frozen {
			if _, ok := cur[k]; !ok && !exportedName(simpleName(k)) {
				missing = append(missing, k)
			}
		}
		for k := range cur {
			if _, ok := frozen[k]; !ok && !exportedName(simpleName(k)) {
				fresh = append(fresh, k)
			}
		}
		sort.Strings(missing)
		sort.Strings(fresh)
		for _, n := range fresh {
			var cands []string
			for _, o := range missing {
				if frozen[o] == mapTypes(cur[n]) && strings.HasPrefix(n, "sexp.") == strings.HasPrefix(o, "sexp.") {
					cands = append(cands, o)
				}
			}
			claim := 0
			for _, m := range fresh {
				if mapTypes(cur[m]) == mapTypes(cur[n]) {
					claim++
				}
			}
			if len(cands) == 1 && claim == 1 {
				out = append(out, renameRec{d.varObj[n], kind, simpleName(n), simpleName(cands[0]), ""})
			}
		}
	}
	pair(d.vars, frozenDeclVars, "var")
	pair(d.consts, frozenDeclConsts, "const")
	return out
}

// renamedAt: file → offset → (length of the current spelling, reviewed spelling); filled by the first load.
type respell struct {
	n   int
	old string
}

var renamedAt = map[string]map[int]respell{}
var recognisedRenames []string

// planRenames: from a first load, the identifiers to respell. Returns the number of identifiers.
func planRenames(pkgs []*packages.Package) int {
	renamedAt = map[string]map[int]respell{}
	recognisedRenames = nil
	d := collectDecls(pkgs)
	recs := recogniseRenames(d)
	dupPlan = map[string][]dupRec{}
	nd := planCopies(pkgs, d, recs)
	if len(recs) == 0 {
		return nd
	}
	want := map[types.Object]string{}
	for _, r := range recs {
		if r.obj == nil {
			continue
		}
		want[r.obj] = r.to
		w := ""
		if r.where != "" {
			w = " of " + r.where
		}
		recognisedRenames = append(recognisedRenames, fmt.Sprintf("%s %s%s is the reviewed %s", r.kind, r.from, w, r.to))
	}
	sort.Strings(recognisedRenames)
	// embedded fields named after a renamed type
	for _, r := range recs {
		if r.kind != "type" {
			continue
		}
		for _, f := range d.fieldObj {
			if f.Embedded() && f.Name() == r.from {
				t := f.Type()
				if p, ok := t.(*types.Pointer); ok {
					t = p.Elem()
				}
				if nt, ok := t.(*types.Named); ok && nt.Obj() == r.obj {
					want[f] = r.to
				}
			}
		}
	}
	n := 0
	for _, p := range pkgs {
		note := func(id *ast.Ident, obj types.Object) {
			if obj == nil {
				return
			}
			if f, ok := obj.(*types.Func); ok {
				obj = f.Origin()
			}
			if v, ok := obj.(*types.Var); ok {
				obj = v.Origin()
			}
			old, ok := want[obj]
			if !ok || id.Name == old {
				return
			}
			pos := p.Fset.Position(id.Pos())
			m := renamedAt[pos.Filename]
			if m == nil {
				m = map[int]respell{}
				renamedAt[pos.Filename] = m
			}
			if _, dup := m[pos.Offset]; !dup {
				m[pos.Offset] = respell{len(id.Name), old}
				n++
			}
		}
		for id, obj := range p.TypesInfo.Defs {
			note(id, obj)
		}
		for id, obj := range p.TypesInfo.Uses {
			note(id, obj)
		}
	}
	return n + nd
}

// ---- one copy of a new shared helper per call site -------------------------------------------------------------------
// A function that is not in the reviewed tree and is called from several places (duplicated statements moved into a
// shared helper) is read as if every call site had its own copy of it: the syntax tree handed to the type checker gets
// the declaration once more per further call site under a derived name (name__2, name__3, …) and the call sites call
// their copy. Copying a function per call site changes nothing (no function has state of its own; the helper is not
// recursive, is not used as a value and is not reachable through an interface, else it is left alone). After that every
// copy has exactly one caller and is looked through like any helper extracted from a single function.

type dupRec struct {
	name    string // declared name
	declOff int    // offset of the name in the declaration
	copies  int    // number of further copies (call sites - 1)
}

var dupPlan = map[string][]dupRec{}

func planCopies(pkgs []*packages.Package, d *declInfo, recs []renameRec) int {
	renamed := map[types.Object]bool{}
	for _, r := range recs {
		renamed[r.obj] = true
	}
	type site struct {
		file string
		off  int
		n    int
	}
	n := 0
	var keys []string
	for k := range d.funcObj {
		keys = append(keys, k)
	}
	sort.Strings(keys)
	typeOld := map[string]string{} // current type name → reviewed type name
	for _, r := range recs {
		if r.kind == "type" {
			typeOld[r.from] = r.to
		}
	}
	reviewedKey := func(k string) string { // a method of a renamed type is known under the reviewed type's name
		if !strings.HasPrefix(k, "(") {
			return k
		}
		i := strings.Index(k, ")")
		recv, star, pre := k[1:i], "", ""
		if strings.HasPrefix(recv, "*") {
			star, recv = "*", recv[1:]
		}
		if strings.HasPrefix(recv, "sexp.") {
			pre, recv = "sexp.", recv[5:]
		}
		if o, ok := typeOld[recv]; ok {
			recv = o
		}
		return "(" + star + pre + recv + ")" + k[i+1:]
	}
	for _, k := range keys {
		fn := d.funcObj[k]
		if _, reviewed := frozenDeclFuncs[reviewedKey(k)]; reviewed || renamed[fn] || exportedName(fn.Name()) || len(frozenDeclFuncs) == 0 {
			continue
		}
		if d.methods[fn.Name()] && fn.Type().(*types.Signature).Recv() != nil {
			// a method whose name occurs in an interface of the packages may be reached dynamically
			inIface := false
			for _, p := range pkgs {
				for _, name := range p.Types.Scope().Names() {
					if tn, ok := p.Types.Scope().Lookup(name).(*types.TypeName); ok {
						if it, isI := tn.Type().Underlying().(*types.Interface); isI {
							for i := 0; i < it.NumMethods(); i++ {
								if it.Method(i).Name() == fn.Name() {
									inIface = true
								}
							}
						}
					}
				}
			}
			if inIface {
				continue
			}
		}
		var sites []site
		ok := true
		var declFile string
		declOff := -1
		for _, p := range pkgs {
			for _, f := range p.Syntax {
				callIdents := map[*ast.Ident]bool{}
				var encl []*ast.FuncDecl
				ast.Inspect(f, func(m ast.Node) bool {
					if c, isC := m.(*ast.CallExpr); isC {
						switch fun := c.Fun.(type) {
						case *ast.Ident:
							callIdents[fun] = true
						case *ast.SelectorExpr:
							callIdents[fun.Sel] = true
						}
					}
					return true
				})
				_ = encl
				for _, decl := range f.Decls {
					fd, isF := decl.(*ast.FuncDecl)
					if !isF {
						ast.Inspect(decl, func(m ast.Node) bool {
							if id, isId := m.(*ast.Ident); isId && p.TypesInfo.Uses[id] == types.Object(fn) {
								ok = false // used in a package-level initialiser
							}
							return true
						})
						continue
					}
					if p.TypesInfo.Defs[fd.Name] == types.Object(fn) {
						pos := p.Fset.Position(fd.Name.Pos())
						declFile, declOff = pos.Filename, pos.Offset
					}
					ast.Inspect(fd, func(m ast.Node) bool {
						id, isId := m.(*ast.Ident)
						if !isId {
							return true
						}
						u, _ := p.TypesInfo.Uses[id].(*types.Func)
						if u == nil || u.Origin() != fn {
							return true
						}
						if !callIdents[id] || p.TypesInfo.Defs[fd.Name] == types.Object(fn) {
							ok = false // used as a value, or recursive
							return true
						}
						pos := p.Fset.Position(id.Pos())
						sites = append(sites, site{pos.Filename, pos.Offset, len(id.Name)})
						return true
					})
				}
			}
		}
		if !ok || declOff < 0 || len(sites) < 2 || len(sites) > 8 {
			continue
		}
		sort.Slice(sites, func(i, j int) bool {
			if sites[i].file != sites[j].file {
				return sites[i].file < sites[j].file
			}
			return sites[i].off < sites[j].off
		})
		for i, s := range sites[1:] {
			m := renamedAt[s.file]
			if m == nil {
				m = map[int]respell{}
				renamedAt[s.file] = m
			}
			m[s.off] = respell{s.n, fmt.Sprintf("%s__%d", fn.Name(), i+2)}
			n++
		}
		dupPlan[declFile] = append(dupPlan[declFile], dupRec{fn.Name(), declOff, len(sites) - 1})
		recognisedRenames = append(recognisedRenames, fmt.Sprintf("new shared helper %s read as %d copies, one per call site", k, len(sites)))
	}
	return n
}

// respellingParser parses a file and spells the planned identifiers the reviewed way.
func respellingParser(fset *token.FileSet, filename string, src []byte) (*ast.File, error) {
	f, err := parser.ParseFile(fset, filename, src, parser.AllErrors|parser.ParseComments)
	if err != nil || f == nil {
		return f, err
	}
	m := renamedAt[filename]
	dups := dupPlan[filename]
	if len(m) == 0 && len(dups) == 0 {
		return f, nil
	}
	respell1 := func(f *ast.File) {
		tf := fset.File(f.Pos())
		ast.Inspect(f, func(n ast.Node) bool {
			if id, ok := n.(*ast.Ident); ok && tf != nil {
				if r, ok := m[tf.Offset(id.Pos())]; ok && len(id.Name) == r.n {
					id.Name = r.old
				}
			}
			return true
		})
	}
	for _, d := range dups {
		for i := 0; i < d.copies; i++ {
			g, err := parser.ParseFile(fset, filename, src, parser.AllErrors)
			if err != nil || g == nil {
				continue
			}
			tg := fset.File(g.Pos())
			for _, decl := range g.Decls {
				fd, ok := decl.(*ast.FuncDecl)
				if !ok || tg.Offset(fd.Name.Pos()) != d.declOff {
					continue
				}
				respell1(&ast.File{Name: g.Name, Decls: []ast.Decl{fd}, Package: g.Package, FileStart: g.FileStart, FileEnd: g.FileEnd})
				fd.Name.Name = fmt.Sprintf("%s__%d", d.name, i+2)
				fd.Doc = nil
				// the copy lives in the file it was copied from: same positions (the type checker looks files up by position)
				// (plus the ordinal of the copy, so that no two functions share a position: analyses relate instructions by
				// position; the reported column of a copy is off by that much, the line is right)
				shiftPositions(fd, token.Pos(fset.File(f.Pos()).Base()-tg.Base()+i+1))
				f.Decls = append(f.Decls, fd)
			}
		}
	}
	respell1(f)
	return f, nil
}

func genDecls(pkgs []*packages.Package) {
	d := collectDecls(pkgs)
	fmt.Println("// Code generated by otrcheck -gendecls from the reviewed tree: the declarations (shape only) that renames are recognised against. DO NOT EDIT.")
	fmt.Println()
	fmt.Println("package main")
	pm := func(name string, m map[string]string) {
		fmt.Println()
		fmt.Printf("var %s = map[string]string{\n", name)
		var ks []string
		for k := range m {
			ks = append(ks, k)
		}
		sort.Strings(ks)
		for _, k := range ks {
			fmt.Printf("\t%q: %q,\n", k, m[k])
		}
		fmt.Println("}")
	}
	fmt.Println()
	fmt.Println("var frozenDeclStructs = map[string][]string{")
	var ks []string
	for k := range d.structs {
		ks = append(ks, k)
	}
	sort.Strings(ks)
	for _, k := range ks {
		var q []string
		for _, x := range d.structs[k] {
			q = append(q, fmt.Sprintf("%q", x))
		}
		fmt.Printf("\t%q: {%s},\n", k, strings.Join(q, ", "))
	}
	fmt.Println("}")
	pm("frozenDeclShapes", d.shapes)
	pm("frozenDeclFuncs", d.funcs)
	pm("frozenDeclVars", d.vars)
	pm("frozenDeclConsts", d.consts)
	fmt.Println()
	fmt.Println("var frozenDeclOrder = map[string]int{")
	ks = ks[:0]
	for k := range d.order {
		ks = append(ks, k)
	}
	sort.Strings(ks)
	for _, k := range ks {
		fmt.Printf("\t%q: %d,\n", k, d.order[k])
	}
	fmt.Println("}")
	fmt.Println()
	fmt.Println("var frozenDeclIfaceMethods = map[string]bool{")
	ks = ks[:0]
	for k := range d.methods {
		ks = append(ks, k)
	}
	sort.Strings(ks)
	for _, k := range ks {
		fmt.Printf("\t%q: true,\n", k)
	}
	fmt.Println("}")
}

// shiftPositions adds delta to every position stored in the syntax tree below n.
func shiftPositions(n ast.Node, delta token.Pos) {
	posType := reflect.TypeOf(token.NoPos)
	ast.Inspect(n, func(m ast.Node) bool {
		if m == nil {
			return true
		}
		v := reflect.ValueOf(m)
		if v.Kind() != reflect.Ptr || v.IsNil() {
			return true
		}
		e := v.Elem()
		if e.Kind() != reflect.Struct {
			return true
		}
		for i := 0; i < e.NumField(); i++ {
			fv := e.Field(i)
			if fv.Type() == posType && fv.CanSet() && token.Pos(fv.Int()).IsValid() {
				fv.SetInt(fv.Int() + int64(delta))
			}
		}
		return true
	})
}
