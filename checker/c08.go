package main

import (
	"fmt"
	"go/token"
	"go/types"
	"sort"
	"strings"

	"golang.org/x/tools/go/ssa"
)

func init() {
	register("C08", "Structural clause decided: (1) every store that overwrites or drops a location holding key-exchange or DH-ratchet secrets (the exchange context c.ake, c.keys, ake.keys, the current/previous DH pairs, the exponent) is dominated by a wipe of that location, or the old value was moved (stored elsewhere as the very same object), or the location is provably fresh / nil — checked inter-procedurally for the allocation of a new exchange context; (2) the wipe helpers overwrite the same backing store with zeroes and every wipe() method covers every secret-capable field of its receiver type (a new field without a wipe line is reported); (3) End and the peer's disconnect wipe the exchange context, the session keys and the SMP state before dropping them; completion of an exchange wipes the old session keys before installing the new ones and the exchange context after the move; the temporary exponents are wiped after being copied; (3b) every long-lived buffer filled from the randomness source is zeroed by End and by the peer's disconnect; (4) sent text is kept only in the resend queue, which is emptied by storing nil (not by re-slicing), replaced by encrypted sends, and local copies of caller input are wiped on exit. Not decided: what the garbage collector or big.Int internals copy (SECURITY_ASSUMPTIONS 2–4), derived per-message keys, SMP exponents (dropped, not zeroed: not claimed), run-time reachability.",
		func(a *An) {
			a.wipeBeforeKill("S.wipe-before-kill")
			a.wipeHelpers("P.wipe-helpers")
			a.wipeCoverage("P.wipe-coverage")
			a.c08Lifecycle("S.lifecycle-wipes")
			a.c08Plaintext("S.plaintext-retention")
			a.randDestinations("S.rand-dest")
			a.endForgetsLastText("S.plaintext-retention")
			a.exchangeWipedOnEveryPath("S.lifecycle-wipes")
			a.abandonWipes("S.lifecycle-wipes")
			a.handlersOnlyThroughTable("S.tlv-loop")
			a.tlvParseLoopComplete("S.tlv-loop")
			a.resendKeepsCopy("S.plaintext-retention")
		})
}

// locations holding secrets drawn from the randomness source: leaves and their containers
func isSecretPath(abs string) bool {
	for _, c := range []string{"Conversation.ake", "Conversation.keys", "Conversation.ake.keys", "ake.keys"} {
		if abs == c {
			return true
		}
	}
	for _, suf := range []string{".secretExponent", ".ourCurrentDHKeys", ".ourPreviousDHKeys", ".ourCurrentDHKeys.priv", ".ourPreviousDHKeys.priv"} {
		if strings.HasSuffix(abs, suf) {
			return true
		}
	}
	if abs == "dhKeyPair.priv" || abs == "ake.r" || abs == "Conversation.ake.r" {
		return true
	}
	return false
}

// secretLeaves: the secret-bearing leaves below a container location; a container counts as wiped when each of them is.
func secretLeaves(abs string) []string {
	switch {
	case abs == "Conversation.ake" || abs == "ake":
		return []string{".secretExponent", ".r"}
	case abs == "Conversation.keys" || strings.HasSuffix(abs, "ake.keys"):
		return []string{".ourCurrentDHKeys.priv", ".ourPreviousDHKeys.priv"}
	case strings.HasSuffix(abs, ".ourCurrentDHKeys") || strings.HasSuffix(abs, ".ourPreviousDHKeys"):
		return []string{".priv"}
	}
	return []string{""}
}

func wipeCovers(wipes []string, rel, abs string) bool {
	one := func(p string) bool {
		for _, w := range wipes {
			if w == p || strings.HasPrefix(p, w+".") || strings.HasPrefix(w, p+".") || strings.HasPrefix(w, p+"[") {
				return true
			}
		}
		return false
	}
	for _, w := range wipes {
		if w == rel || strings.HasPrefix(rel, w+".") {
			return true
		}
	}
	for _, l := range secretLeaves(abs) {
		if !one(rel + l) {
			return false
		}
	}
	return true
}

func (a *An) wipeBeforeKill(rule string) {
	R := a.R
	cnt := map[string]int{}
	n := 0
	for _, f := range a.C.FuncSeq {
		fn := a.C.Name(f)
		if strings.Contains(strings.ToLower(f.Name()), "wipe") || f.Name() == "init" {
			continue
		}
		for _, b := range f.Blocks {
			for _, in := range b.Instrs {
				st, ok := in.(*ssa.Store)
				if !ok {
					continue
				}
				if _, local := st.Addr.(*ssa.Alloc); local {
					continue
				}
				p := a.C.pathOf(st.Addr)
				rel := a.C.rel(p)
				if !strings.HasPrefix(rel, "$") {
					continue // locals / fresh objects under construction
				}
				abs := a.C.abs(f, rel)
				if !isSecretPath(abs) {
					continue
				}
				n++
				key := ordinalKey(fn+"|store "+abs, cnt)
				// (a) wiped before: a dominating instruction with a wipe effect on this path (or on all of it)
				var wipes []string
				for _, b2 := range f.Blocks {
					for _, in2 := range b2.Instrs {
						if !instrDominates(in2, st) {
							continue
						}
						for _, ef := range a.E.InstrEffects(in2) {
							if ef.Kind == EffWipe {
								wipes = append(wipes, ef.Path)
							}
						}
					}
				}
				wiped := wipeCovers(wipes, rel, abs)
				// (b) moved: the old value (a load of the same location) was stored elsewhere before
				moved := false
				for _, b2 := range f.Blocks {
					for _, in2 := range b2.Instrs {
						s2, isSt := in2.(*ssa.Store)
						if !isSt || s2 == st || !instrDominates(s2, st) {
							continue
						}
						if ld, isLd := s2.Val.(*ssa.UnOp); isLd && a.C.rel(a.C.pathOf(ld.X)) == rel && a.C.rel(a.C.pathOf(s2.Addr)) != rel {
							moved = true
						}
					}
				}
				// (c) the location is nil / fresh on this path (lazy allocation), or wiped on every chain into this function
				fresh := false
				fs := a.F.At(st)
				if fs.Has("passed:("+abs+" == nil)") || fs.Has("called:(*ake).wipe["+abs+"]") || fs.Has("called:(*keyManagementContext).wipe["+abs+"]") {
					fresh = true
				}
				// a setter that wipes the old value itself: x.f = set*(x.f, …)
				if c, isCall := st.Val.(*ssa.Call); isCall && (a.F.callName(c) == "setSecretKeyValue" || a.F.callName(c) == "setBigInt") && len(c.Call.Args) > 0 && a.C.rel(a.C.pathOf(c.Call.Args[0])) == rel {
					wiped = true
				}
				// the context under construction in the same call chain (dhCommitMessage/dhKeyMessage start with initAKE)
				if strings.HasPrefix(abs, "Conversation.ake.") && (a.F.LocalAt(st).Has("called:(*Conversation).initAKE") || a.F.At(st).Has("called:(*Conversation).initAKE")) {
					fresh = true
				}
				// values that are themselves the result of the wipe-and-keep helper
				if c, isCall := st.Val.(*ssa.Call); isCall && a.F.callName(c) == "(*keyManagementContext).wipeAndKeepRevealKeys" {
					wiped = true
				}
				if !(wiped || moved || fresh) {
					// allocation helper: every caller must have wiped the old object or know it is nil
					sites := a.CallSites(f)
					all := len(sites) > 0
					for _, cs := range sites {
						cf := a.F.At(cs)
						if !(cf.Has("passed:("+abs+" == nil)") || cf.Has("called:(*ake).wipe["+abs+"]") || cf.Has("called:(*keyManagementContext).wipe["+abs+"]")) {
							all = false
						}
					}
					fresh = all
				}
				R.Check(wiped || moved || fresh, rule, key, "a location holding secrets is wiped (or its old value moved, or known fresh) before it is overwritten or dropped", a.C.InstrPos(st),
					fn+" overwrites "+abs+" without wiping it first: the old secret stays in memory although nothing refers to it any more")
			}
		}
	}
	R.Check(n >= 8, rule, "sites", "stores over secret-bearing locations found", "", fmt.Sprintf("%d", n))
}

func (a *An) wipeHelpers(rule string) {
	R := a.R
	if f := a.MustFn("wipeBytes"); f != nil {
		R.Check(a.zeroesWhole(f, "$b", false), rule, "wipeBytes", "wipeBytes overwrites the whole buffer in place with zeroes", a.C.Pos(f.Pos()), "body differs")
	}
	if f := a.MustFn("wipeSecretKeyValue"); f != nil {
		R.Check(a.zeroesWhole(f, "$k", true), rule, "wipeSecretKeyValue", "overwrites the whole secret in place with zeroes", a.C.Pos(f.Pos()), "body differs")
	}
	if f := a.MustFn("wipeBigInt"); f != nil {
		cs := a.CallsIn(f, "(*math/big.Int).SetBytes")
		ok := len(cs) == 1 && a.C.Term(cs[0].Common().Args[0]) == "$k" && a.C.Term(cs[0].Common().Args[1]) == "zeroes(len((*math/big.Int).Bytes($k)))"
		R.Check(ok, rule, "wipeBigInt", "overwrites the integer's words in place", a.C.Pos(f.Pos()), "body differs")
	}
	if f := a.MustFn("zeroes"); f != nil {
		for _, r := range a.returnsOf(f) {
			a.TermIs(rule, "zeroes", "a fresh zero buffer of the requested length", r, r.Results[0], "makeslice($n)")
		}
	}
}

// secretCapable: types whose values may hold secret bytes
func secretCapable(t types.Type) bool {
	switch u := t.Underlying().(type) {
	case *types.Slice:
		if b, ok := u.Elem().Underlying().(*types.Basic); ok && b.Kind() == types.Uint8 {
			return true
		}
		return secretCapable(u.Elem())
	case *types.Array:
		if b, ok := u.Elem().Underlying().(*types.Basic); ok && b.Kind() == types.Uint8 {
			return true
		}
	case *types.Pointer:
		if n, ok := u.Elem().(*types.Named); ok && n.Obj().Name() == "Int" {
			return true
		}
	case *types.Struct:
		for i := 0; i < u.NumFields(); i++ {
			if secretCapable(u.Field(i).Type()) {
				return true
			}
		}
	}
	return false
}

func (a *An) wipeCoverage(rule string) {
	R := a.R
	for _, tn := range []string{"ake", "akeKeys", "dhKeyPair", "keyManagementContext", "macKeyUsage"} {
		obj := a.C.Otr.Pkg.Scope().Lookup(tn)
		if obj == nil {
			R.Undec("anchor", "type|"+tn, "anchored type exists", "", "missing")
			continue
		}
		stt, ok := obj.Type().Underlying().(*types.Struct)
		if !ok {
			continue
		}
		w := a.MustFn("(*" + tn + ").wipe")
		if w == nil {
			continue
		}
		effs := a.E.Of(w)
		for i := 0; i < stt.NumFields(); i++ {
			fld := stt.Field(i)
			if !secretCapable(fld.Type()) {
				continue
			}
			covered := false
			for _, ef := range effs {
				if ef.Kind == EffWipe && (ef.Path == "$0."+fld.Name() || strings.HasPrefix(ef.Path, "$0."+fld.Name()+".") || strings.HasPrefix(ef.Path, "$0."+fld.Name()+"[")) {
					covered = true
				}
			}
			// ... and on every path: each return of wipe() other than the nil-receiver guard comes after the zeroing (the
			// key context of an exchange is handed over, not wiped, by wipe(false): that field is exempt)
			if covered && !(tn == "ake" && fld.Name() == "keys") {
				must := true
				at := ""
				for _, r := range a.returnsOf(w) {
					guard := false
					for _, fact := range a.F.LocalAt(r).List() {
						if strings.HasPrefix(fact, "passed:($") && strings.HasSuffix(fact, " == nil)") {
							guard = true
						}
					}
					if guard {
						continue
					}
					dom := false
					for _, b := range w.Blocks {
						for _, in := range b.Instrs {
							for _, ef := range a.E.InstrEffects(in) {
								if ef.Kind == EffWipe && (ef.Path == "$0."+fld.Name() || strings.HasPrefix(ef.Path, "$0."+fld.Name()+".") || strings.HasPrefix(ef.Path, "$0."+fld.Name()+"[")) {
									if instrDominates(in, r) {
										dom = true
									} else if l := loopContaining(naturalLoops(w), in); l != nil && l.Header.Dominates(r.Block()) {
										dom = true // zeroing every element in a loop that is passed on the way
									}
								}
							}
						}
					}
					if !dom {
						must = false
						at = a.C.InstrPos(r)
					}
				}
				R.Check(must, rule, tn+".wipe|"+fld.Name()+"|every-path", "wipe() zeroes "+tn+"."+fld.Name()+" on every path (only a nil receiver returns early)", a.C.Pos(w.Pos()),
					"the return at "+at+" is reachable without zeroing "+tn+"."+fld.Name()+": in that state the secret is dropped, not erased")
			}
			// ake.keys is deliberately handed over (not wiped) by wipe(false): covered on the wipeKeys=true path
			R.Check(covered, rule, tn+".wipe|"+fld.Name(), "wipe() zeroes every secret-capable field of "+tn, a.C.Pos(w.Pos()),
				"field "+tn+"."+fld.Name()+" can hold secret bytes but (*"+tn+").wipe does not zero it")
		}
	}
	R.Floor(rule, 14)
}

func (a *An) c08Lifecycle(rule string) {
	R := a.R
	// End and the peer's disconnect
	for _, name := range []string{"(*Conversation).End", "(*Conversation).processDisconnectedTLV"} {
		f := a.MustFn(name)
		if f == nil {
			continue
		}
		fld := a.MustField("Conversation", "ake")
		for _, st := range a.DirectStoresTo(fld) {
			if a.C.within(st, f) && isNilConst(st.Val) {
				a.GateLocal(rule, name+"|ake-wiped-before-drop", st, "dropping the exchange context", "called:(*ake).wipe[Conversation.ake]")
			}
		}
		// session keys: both DH pairs wiped on every path to the exit
		for _, r := range a.returnsOf(f) {
			wipedCur, wipedPrev := false, false
			for _, b := range f.Blocks {
				for _, in := range b.Instrs {
					if !instrDominates(in, r) {
						continue
					}
					for _, ef := range a.E.InstrEffects(in) {
						if ef.Kind == EffWipe && strings.HasPrefix(ef.Path, "$0.keys.ourCurrentDHKeys.priv") {
							wipedCur = true
						}
						if ef.Kind == EffWipe && strings.HasPrefix(ef.Path, "$0.keys.ourPreviousDHKeys.priv") {
							wipedPrev = true
						}
					}
				}
			}
			R.Check(wipedCur && wipedPrev, rule, name+"|dh-keys-wiped", "both DH private keys are zeroed when the session ends", a.C.InstrPos(r), fmt.Sprintf("current wiped=%v previous wiped=%v", wipedCur, wipedPrev))
		}
		cs := a.CallsIn(f, "(*smp).wipe")
		R.Check(len(cs) == 1, rule, name+"|smp-wiped", "the SMP state is wiped when the session ends", a.C.Pos(f.Pos()), fmt.Sprintf("%d calls of smp.wipe", len(cs)))
	}
	// completion: old session wiped, exchange context wiped after the move
	if f := a.MustFn("(*Conversation).akeHasFinished"); f != nil {
		fld := a.MustField("Conversation", "keys")
		for _, st := range a.DirectStoresTo(fld) {
			if !a.C.within(st, f) {
				continue
			}
			a.GateLocal(rule, "akeHasFinished|old-keys-wiped", st, "installing the new session keys", "called:(*keyManagementContext).wipe[Conversation.keys]")
			ok := false
			for _, cs := range a.CallsIn(f, "(*ake).wipe") {
				if instrDominates(st, cs) && a.C.Term(cs.Common().Args[1]) == "false" {
					ok = true
				}
			}
			R.Check(ok, rule, "akeHasFinished|ake-wiped-after-move", "the exchange context is wiped right after its keys were handed over (without wiping the handed-over keys)", a.C.InstrPos(st), "no ake.wipe(false) after the move")
		}
	}
	// ake.wipe(false) only right after the keys were moved out
	if w := a.MustFn("(*ake).wipe"); w != nil {
		for _, cs := range a.CallSites(w) {
			if a.C.Term(cs.Common().Args[1]) == "true" {
				continue
			}
			caller := a.C.Name(cs.Parent())
			R.Check(caller == "(*Conversation).akeHasFinished", rule, "ake.wipe(false)|"+caller, "the keys of an exchange are left un-wiped only when they were just installed as the session keys", a.C.InstrPos(cs), caller+" calls ake.wipe without wiping its keys")
		}
	}
	// a new exchange starts from a wiped context
	if f := a.MustFn("(*Conversation).sendDHCommit"); f != nil {
		if c := a.uniqueCall(rule, f, "(*Conversation).dhCommitMessage"); c != nil {
			a.GateLocal(rule, "sendDHCommit|old-exchange-wiped", c, "starting a new exchange", "called:(*ake).wipe[Conversation.ake]")
		}
	}
	if f := a.MustFn("(authStateNone).receiveDHCommitMessage"); f != nil {
		if c := a.uniqueCall(rule, f, "(*Conversation).dhKeyMessage"); c != nil {
			a.GateLocal(rule, "receiveDHCommit|old-exchange-wiped", c, "answering a new exchange", "called:(*ake).wipe[Conversation.ake]")
		}
	}
	// temporaries
	for _, name := range []string{"(*Conversation).dhCommitMessage", "(*Conversation).dhKeyMessage"} {
		f := a.MustFn(name)
		if f == nil {
			continue
		}
		set := a.uniqueCall(rule, f, "(*Conversation).setSecretExponent")
		if set == nil {
			continue
		}
		ok := false
		for _, cs := range a.CallsIn(f, "wipeSecretKeyValue") {
			if instrDominates(set, cs) && cs.Common().Args[0] == set.Call.Args[1] {
				ok = true
				for _, r := range a.returnsOf(f) {
					if isNilConst(r.Results[1]) && !instrDominates(cs, r) {
						ok = false
					}
				}
			}
		}
		R.Check(ok, rule, name+"|temporary-wiped", "the drawn exponent buffer is zeroed after it was copied into the exchange context", a.C.InstrPos(set), "no wipe of the temporary after setSecretExponent on the success path")
	}
	if f := a.MustFn("(*Conversation).setSecretExponent"); f != nil {
		for _, st := range a.DirectStoresTo(a.MustField("ake", "secretExponent")) {
			if a.C.within(st, f) {
				a.TermIs(rule, "setSecretExponent|copy", "the context keeps its own copy", st, st.Val, "createSecretKeyValue($val)")
			}
		}
	}
	// rotation of our keys: previous wiped, then current moved into it
	if f := a.MustFn("(*keyManagementContext).installNewDHKeyPair"); f != nil {
		prev := a.MustField("keyManagementContext", "ourPreviousDHKeys")
		for _, st := range a.DirectStoresTo(prev) {
			if a.C.within(st, f) {
				a.TermIs(rule, "generateNewDHKeyPair|move", "the current pair becomes the previous pair (same object, no copy)", st, st.Val, "keyManagementContext.ourCurrentDHKeys")
				a.GateLocal(rule, "generateNewDHKeyPair|previous-wiped", st, "overwriting the previous pair", "called:(*dhKeyPair).wipe[keyManagementContext.ourPreviousDHKeys]")
			}
		}
	}
	R.Floor(rule, 14)
}

func (a *An) c08Plaintext(rule string) {
	R := a.R
	if f := a.MustFn("(*resendContext).clear"); f != nil {
		n := 0
		for _, b := range f.Blocks {
			for _, in := range b.Instrs {
				if st, ok := in.(*ssa.Store); ok && strings.HasSuffix(a.C.AddrPath(st.Addr), ".messages.m") {
					n++
					a.TermIs(rule, "clear|drops-array", "clearing the queue drops the backing array (texts do not survive in spare capacity)", st, st.Val, "nil")
				}
			}
		}
		R.Check(n == 1, rule, "clear|store", "clear stores to the queue once", a.C.Pos(f.Pos()), fmt.Sprintf("%d", n))
	}
	// who keeps text: only the resend queue
	var keepers []string
	for _, f := range a.C.FuncSeq {
		for _, b := range f.Blocks {
			for _, in := range b.Instrs {
				st, ok := in.(*ssa.Store)
				if !ok {
					continue
				}
				p := a.C.AddrPath(st.Addr)
				if strings.HasSuffix(p, ".messages.m") {
					keepers = append(keepers, a.C.Name(f))
				}
			}
		}
	}
	sort.Strings(keepers)
	R.Check(strings.Join(keepers, ",") == "(*resendContext).clear,(*resendContext).later,(*resendContext).later", rule, "queue-writers", "the resend queue is written only by later() and clear()", "", strings.Join(keepers, ","))
	a.WhoMayCall("W.resend-queue", a.MustFn("(*resendContext).later"), "(*Conversation).lastMessage", "(*resendContext).last")
	a.WhoMayCall("W.resend-queue", a.MustFn("(*Conversation).lastMessage"), "(*Conversation).sendMessageOnPlaintext")
	if last := a.MustFn("(*resendContext).last"); last != nil {
		cl := a.CallsIn(last, "(*resendContext).clear")
		lt := a.CallsIn(last, "(*resendContext).later")
		R.Check(len(cl) == 1 && len(lt) == 1 && instrDominates(cl[0], lt[0]), rule, "last|replace", "while encrypted only the most recent text is kept (clear before later)", a.C.Pos(last.Pos()), "clear does not dominate later")
	}
	// local copies of caller input are wiped on exit
	n := 0
	for _, name := range []string{"(*Conversation).Send", "(*Conversation).receiveUnit"} {
		f := a.MustFn(name)
		if f == nil {
			continue
		}
		for _, b := range f.Blocks {
			for _, in := range b.Instrs {
				if d, ok := in.(*ssa.Defer); ok && a.F.callName(d) == "wipeBytes" {
					n++
					t := a.C.Term(d.Call.Args[0])
					R.Check(strings.HasPrefix(t, "makeCopy("), rule, name+"|local-copy-wiped", "the local copy of the caller's message is wiped on exit", a.C.InstrPos(d), "wipes "+t)
				}
			}
		}
	}
	R.Check(n == 2, rule, "deferred-wipes", "Send and receiveUnit wipe their local copy", "", fmt.Sprintf("%d", n))
}

// typeAliases: "Conversation.keys.x.y" also reads "keyManagementContext.x.y" and so on: every suffix of a
// type-rooted field path re-rooted at the (named) type of the field it passes through.
func (a *An) typeAliases(abs string) []string {
	out := []string{abs}
	parts := strings.Split(abs, ".")
	obj := a.C.Otr.Pkg.Scope().Lookup(parts[0])
	if obj == nil {
		return out
	}
	t := obj.Type()
	for i := 1; i < len(parts); i++ {
		name := parts[i]
		if j := strings.Index(name, "["); j >= 0 {
			name = name[:j]
		}
		for {
			if p, ok := t.Underlying().(*types.Pointer); ok {
				t = p.Elem()
				continue
			}
			break
		}
		st, ok := t.Underlying().(*types.Struct)
		if !ok {
			return out
		}
		var ft types.Type
		for k := 0; k < st.NumFields(); k++ {
			if st.Field(k).Name() == name {
				ft = st.Field(k).Type()
			}
		}
		if ft == nil {
			return out
		}
		t = ft
		for {
			if p, ok := t.Underlying().(*types.Pointer); ok {
				t = p.Elem()
				continue
			}
			break
		}
		if n, ok := t.(*types.Named); ok && i+1 < len(parts) {
			out = append(out, n.Obj().Name()+"."+strings.Join(parts[i+1:], "."))
		}
	}
	return out
}

// instancePaths: every place below Conversation where the type-rooted location abs ("T.f.g") exists
// ("Conversation.keys.f.g", "Conversation.ake.keys.f.g"); a Conversation-rooted path is its own only instance.
func (a *An) instancePaths(abs string) []string {
	i := strings.Index(abs, ".")
	if i < 0 {
		return nil
	}
	root, rest := abs[:i], abs[i:]
	if root == "Conversation" {
		return []string{abs}
	}
	obj := a.C.Otr.Pkg.Scope().Lookup("Conversation")
	if obj == nil {
		return nil
	}
	var out []string
	var walk func(t types.Type, path string, depth int)
	walk = func(t types.Type, path string, depth int) {
		for {
			if p, ok := t.Underlying().(*types.Pointer); ok {
				t = p.Elem()
				continue
			}
			break
		}
		if n, ok := t.(*types.Named); ok && n.Obj().Name() == root && path != "Conversation" {
			out = append(out, path+rest)
			return
		}
		st, ok := t.Underlying().(*types.Struct)
		if !ok || depth > 4 {
			return
		}
		for k := 0; k < st.NumFields(); k++ {
			walk(st.Field(k).Type(), path+"."+st.Field(k).Name(), depth+1)
		}
	}
	walk(obj.Type(), "Conversation", 0)
	return out
}

// randDestinations: every buffer that receives bytes drawn from the randomness source and that lives in a
// long-lived structure (a field reachable from a parameter, not a local of the drawing function) is zeroed when the
// conversation is ended locally and when the peer disconnects.
func (a *An) randDestinations(rule string) {
	R := a.R
	// which parameter of which function is filled from the randomness source
	type key struct {
		f *ssa.Function
		i int
	}
	dest := map[key]bool{}
	isDest := func(call ssa.CallInstruction) (ssa.Value, bool) {
		cc := call.Common()
		if cc.IsInvoke() {
			return nil, false
		}
		if sc := cc.StaticCallee(); sc != nil && sc.Pkg != nil && sc.Pkg.Pkg.Path() == "io" && sc.Name() == "ReadFull" && len(cc.Args) == 2 {
			return cc.Args[1], true
		}
		for _, g := range a.C.Callees(call) {
			g = a.C.unwrap(g)
			for i := range g.Params {
				if dest[key{g, i}] && i < len(cc.Args) {
					return cc.Args[i], true
				}
			}
		}
		return nil, false
	}
	root := func(v ssa.Value) ssa.Value {
		for {
			switch x := v.(type) {
			case *ssa.Slice:
				v = x.X
				continue
			case *ssa.ChangeType:
				v = x.X
				continue
			}
			return v
		}
	}
	for changed := true; changed; {
		changed = false
		for _, f := range a.C.FuncSeq {
			for _, b := range f.Blocks {
				for _, in := range b.Instrs {
					call, ok := in.(ssa.CallInstruction)
					if !ok {
						continue
					}
					if v, ok := isDest(call); ok {
						if p, isP := root(v).(*ssa.Parameter); isP {
							k := key{f, paramIndex(p)}
							if !dest[k] {
								dest[k] = true
								changed = true
							}
						}
					}
				}
			}
		}
	}
	var enders []*ssa.Function
	for _, name := range []string{"(*Conversation).End", "(*Conversation).processDisconnectedTLV"} {
		if f := a.MustFn(name); f != nil {
			enders = append(enders, f)
		}
	}
	n, persistent := 0, 0
	for _, f := range a.C.FuncSeq {
		for _, b := range f.Blocks {
			for _, in := range b.Instrs {
				call, ok := in.(ssa.CallInstruction)
				if !ok {
					continue
				}
				v, ok := isDest(call)
				if !ok {
					continue
				}
				if _, isP := root(v).(*ssa.Parameter); isP {
					continue // forwarded: judged at the caller
				}
				n++
				rel := a.C.rel(a.C.pathOf(v))
				if !strings.HasPrefix(rel, "$") {
					// a local buffer of the drawing function: when the function zeroes it at all (it holds a secret), it is
					// zeroed on every path from the successful draw to a return — an early return between the draw and the
					// erasure (a later step failing) drops the secret unerased
					a.localDrawErased(rule, f, call, root(v))
					continue
				}
				persistent++
				abs := a.C.abs(f, rel)
				abs = strings.TrimSuffix(abs, "[]")
				wants := a.instancePaths(abs)
				for _, e := range enders {
					covered := len(wants) > 0
					for _, want := range wants {
						one := false
						for _, ef := range a.E.Of(e) {
							if ef.Kind != EffWipe {
								continue
							}
							al := a.C.abs(e, ef.Path)
							if al == want || strings.HasPrefix(al, want+"[") || strings.HasPrefix(want, al+".") {
								one = true
							}
						}
						if !one {
							covered = false
						}
					}
					R.Check(covered, rule, a.C.Name(f)+"|"+abs+"|"+a.C.Name(e), "a long-lived buffer filled from the randomness source is zeroed when the session ends", a.C.InstrPos(in),
						a.C.Name(f)+" draws random (secret) bytes into "+abs+", which "+a.C.Name(e)+" does not zero: the bytes stay reachable from the conversation after it ended")
				}
			}
		}
	}
	R.Check(n >= 4 && persistent >= 1, rule, "sites", "draws from the randomness source found", "", fmt.Sprintf("%d draws, %d into long-lived buffers", n, persistent))
}

// endForgetsLastText: End() drops the text remembered for retransmission whenever it ends a session (message state
// encrypted or finished) and keeps what is queued while no session exists yet (plaintext state) — decided by
// enumerating the paths of End per value of the message state.
func (a *An) endForgetsLastText(rule string) {
	R := a.R
	f := a.MustFn("(*Conversation).End")
	if f == nil {
		return
	}
	clears := func(p *Path) bool {
		for _, in := range p.Instrs {
			call, ok := in.(ssa.CallInstruction)
			if !ok {
				continue
			}
			for _, ef := range a.E.InstrEffects(in) {
				if strings.HasSuffix(a.C.abs(f, ef.Path), "resend.messages.m") || strings.HasSuffix(ef.Path, ".messages.m") {
					_ = call
					return true
				}
			}
		}
		return false
	}
	for _, st := range []struct {
		name string
		val  int64
		want bool
	}{{"plainText", 0, false}, {"encrypted", 1, true}, {"finished", 2, true}} {
		if a.MustConst(st.name) != fmt.Sprint(st.val) {
			R.Undec(rule, "End|const|"+st.name, "message state constants are 0,1,2", a.C.Pos(f.Pos()), st.name+" = "+a.MustConst(st.name))
			continue
		}
		paths, complete := a.C.Paths(f, a.C.valOracle(valCase{"Conversation.msgState": st.val}, nil), 512)
		good, n := complete, 0
		for _, p := range paths {
			if p.Ret == nil {
				continue
			}
			n++
			if clears(p) != st.want {
				good = false
			}
		}
		what := "keeps the texts queued for a session that does not exist yet"
		if st.want {
			what = "forgets the text remembered for retransmission"
		}
		R.Check(good && n > 0, rule, "End|"+st.name, "End() in state "+st.name+" "+what, a.C.Pos(f.Pos()),
			fmt.Sprintf("not on every path (%d paths, enumeration complete=%v): a text already delivered in the ended session is sent again with the next queued text, or queued texts are lost", n, complete))
	}
}

// localDrawErased: see randDestinations.
func (a *An) localDrawErased(rule string, f *ssa.Function, draw ssa.CallInstruction, buf ssa.Value) {
	aliases := map[ssa.Value]bool{buf: true}
	if dv, ok := draw.(ssa.Value); ok {
		aliases[dv] = true
		if refs := dv.Referrers(); refs != nil {
			for _, r := range *refs {
				if ex, isEx := r.(*ssa.Extract); isEx {
					aliases[ex] = true
				}
			}
		}
	}
	rootOf := func(v ssa.Value) ssa.Value {
		for {
			switch x := v.(type) {
			case *ssa.Slice:
				v = x.X
				continue
			case *ssa.ChangeType:
				v = x.X
				continue
			case *ssa.Convert:
				v = x.X
				continue
			}
			return v
		}
	}
	var wipes []ssa.Instruction
	for _, b := range f.Blocks {
		for _, in := range b.Instrs {
			call, ok := in.(ssa.CallInstruction)
			if !ok {
				continue
			}
			sc := call.Common().StaticCallee()
			if sc == nil || !erasePrims[sc.Name()] || sc.Signature.Recv() != nil || len(call.Common().Args) == 0 {
				continue
			}
			if aliases[rootOf(call.Common().Args[0])] || aliases[call.Common().Args[0]] {
				wipes = append(wipes, in)
			}
		}
	}
	if len(wipes) == 0 {
		return // not treated as a secret by this function
	}
	name := ""
	if sc := draw.Common().StaticCallee(); sc != nil {
		name = a.C.Name(sc)
	}
	good, bad := true, ""
	for _, r := range a.returnsOf(f) {
		if !canReach(draw, r) {
			continue
		}
		if name != "" && a.F.LocalAt(r).Has("fail:"+name) {
			continue // the draw itself failed
		}
		if reachesAvoiding(draw, r, wipes, nil) {
			good, bad = false, a.C.InstrPos(r)
		}
	}
	a.R.Check(good, rule, a.C.Name(a.C.owner(f))+"|local-secret|"+a.C.Term(buf), "a secret drawn into a local buffer is zeroed on every path that follows the draw", a.C.InstrPos(draw),
		"the return at "+bad+" is reachable after the draw without the erasure the function applies elsewhere: a step failing in between drops the secret unerased")
}

// zeroesWhole: the function overwrites the whole of its slice parameter (rendered p) with zeroes, in one of the forms
// this is written in: copy(p, zeroes(len(p))); a loop over every index of p storing 0; or (delegate) handing p to
// wipeBytes, which is judged by the same rule.
func (a *An) zeroesWhole(f *ssa.Function, p string, delegate bool) bool {
	for _, b := range f.Blocks {
		for _, in := range b.Instrs {
			switch x := in.(type) {
			case *ssa.Call:
				if bi, isB := x.Call.Value.(*ssa.Builtin); isB && bi.Name() == "copy" {
					if a.C.Term(x.Call.Args[0]) == p && a.C.Term(x.Call.Args[1]) == "zeroes(len("+p+"))" {
						return true
					}
				}
				if sc := x.Call.StaticCallee(); delegate && sc != nil && a.C.Name(sc) == "wipeBytes" && len(x.Call.Args) == 1 {
					if t := a.C.Term(x.Call.Args[0]); t == p || t == "[]byte("+p+")" {
						return true
					}
				}
			case *ssa.Store:
				k, isK := x.Val.(*ssa.Const)
				ia, isIA := x.Addr.(*ssa.IndexAddr)
				if !isK || !isIA || k.Value == nil || k.Value.ExactString() != "0" || a.C.Term(ia.X) != p {
					continue
				}
				idx := a.C.Term(ia.Index)
				if idx != "phi((↺ + 1) / 0)" && idx != "(phi((↺ + 1) / -1) + 1)" {
					continue
				}
				// the loop runs while the index is below len(p)
				for _, bb := range f.Blocks {
					if iff, ok := bb.Instrs[len(bb.Instrs)-1].(*ssa.If); ok {
						if bo, isBO := iff.Cond.(*ssa.BinOp); isBO && bo.Op == token.LSS && a.C.Term(bo.Y) == "len("+p+")" {
							if t := a.C.Term(bo.X); t == idx || t == "phi((↺ + 1) / 0)" || t == "(phi((↺ + 1) / -1) + 1)" {
								return true
							}
						}
					}
				}
			}
		}
	}
	return false
}
