package main

import (
	"bufio"
	"encoding/json"
	"fmt"
	"os"
	"path/filepath"
	"sort"
	"strings"
	"time"
)

type Status int

const (
	OK Status = iota
	Violation
	Undecided
)

func (s Status) String() string {
	switch s {
	case OK:
		return "ok"
	case Violation:
		return "violation"
	default:
		return "undecided"
	}
}

// Obligation is one rule instance applied to one construct.
type Obligation struct {
	Rule   string   `json:"rule"`
	Key    string   `json:"key"` // stable: rule + construct, never a line number
	What   string   `json:"what"`
	Pos    string   `json:"pos,omitempty"`
	Status string   `json:"status"`
	Detail string   `json:"detail,omitempty"`
	Path   []string `json:"path,omitempty"`
	Config string   `json:"config,omitempty"`
	status Status
	known  string
}

// Report collects the obligations of one property run.
type Report struct {
	Property string
	Tier     string
	Obs      []*Obligation
	Floors   map[string]int // rule -> minimal number of obligations (anti-vacuity)
	Notes    []string
	Extra    map[string]interface{}
	Assume   []string
	Trusted  []string
	Explain  string
	start    time.Time
	cfg      string
}

func NewReport(prop, tier string) *Report {
	return &Report{Property: prop, Tier: tier, Floors: map[string]int{}, Extra: map[string]interface{}{}, start: time.Now(),
		Notes:   []string{},
		Trusted: []string{"go/packages, go/types, go/ssa, callgraph/vta of golang.org/x/tools v0.29.0", "the Go compiler front end agreeing with go/types", "math/big, constbn, crypto/* and user callbacks are not analysed (contracts assumed)"},
		Assume:  []string{"facts are must-facts: 'the success edge of check X was passed on every path to this point within the current API call'", "dynamic calls are resolved with the VTA call graph (sound for the two packages; reflection and unsafe are not followed)"}}
}

func (r *Report) add(rule, key, what, pos string, st Status, detail string, path ...string) *Obligation {
	key = strings.ReplaceAll(key, " ", "_")
	o := &Obligation{Rule: rule, Key: key, What: what, Pos: pos, status: st, Status: st.String(), Detail: detail, Path: path, Config: r.cfg}
	r.Obs = append(r.Obs, o)
	return o
}

func (r *Report) Ok(rule, key, what, pos string) { r.add(rule, key, what, pos, OK, "") }
func (r *Report) Viol(rule, key, what, pos, detail string, path ...string) {
	r.add(rule, key, what, pos, Violation, detail, path...)
}
func (r *Report) Undec(rule, key, what, pos, detail string) {
	r.add(rule, key, what, pos, Undecided, detail)
}

// Check is a convenience: ok → discharged, else violation with detail.
func (r *Report) Check(ok bool, rule, key, what, pos, detail string, path ...string) {
	if ok {
		r.Ok(rule, key, what, pos)
	} else {
		r.Viol(rule, key, what, pos, detail, path...)
	}
}

// Floor declares that rule must have produced at least n obligations.
func (r *Report) Floor(rule string, n int) { r.Floors[rule] = n }

func (r *Report) Note(f string, a ...interface{}) { r.Notes = append(r.Notes, fmt.Sprintf(f, a...)) }

// ---- known findings -------------------------------------------------------------------------

type knownFinding struct {
	Property, Rule, Key, Text string
}

func loadKnown(path string) ([]knownFinding, error) {
	f, err := os.Open(path)
	if err != nil {
		if os.IsNotExist(err) {
			return nil, nil
		}
		return nil, err
	}
	defer f.Close()
	var out []knownFinding
	sc := bufio.NewScanner(f)
	sc.Buffer(make([]byte, 1<<20), 1<<20)
	for sc.Scan() {
		line := strings.TrimSpace(sc.Text())
		if !strings.HasPrefix(line, "finding:") {
			continue // "fixed:" lines and comments suppress nothing
		}
		rest := strings.TrimSpace(line[len("finding:"):])
		kf := knownFinding{}
		// property=… rule=… key=…  free text
		for i := 0; i < 3; i++ {
			rest = strings.TrimLeft(rest, " \t")
			sp := strings.IndexAny(rest, " \t")
			tok := rest
			if sp >= 0 {
				tok = rest[:sp]
				rest = rest[sp:]
			} else {
				rest = ""
			}
			switch {
			case strings.HasPrefix(tok, "property="):
				kf.Property = tok[len("property="):]
			case strings.HasPrefix(tok, "rule="):
				kf.Rule = tok[len("rule="):]
			case strings.HasPrefix(tok, "key="):
				kf.Key = tok[len("key="):]
			}
		}
		kf.Text = strings.TrimSpace(rest)
		if kf.Property != "" && kf.Rule != "" && kf.Key != "" {
			out = append(out, kf)
		}
	}
	return out, sc.Err()
}

// ---- finishing ------------------------------------------------------------------------------

type evidence struct {
	PropertyID  string                 `json:"property_id"`
	Tier        string                 `json:"tier"`
	Seed        int                    `json:"seed"`
	Level       string                 `json:"level"`
	Coverage    map[string]interface{} `json:"coverage"`
	Assumptions []string               `json:"assumptions"`
	WallS       float64                `json:"wall_s"`
	Violations  int                    `json:"violations"`
}

// Finish prints results, writes evidence and replay files, and returns the exit code.
func (r *Report) Finish(verifDir string, seed int) int {
	known, kerr := loadKnown(filepath.Join(verifDir, "KNOWN_FINDINGS.txt"))
	if kerr != nil {
		r.Undec("infra", "known-findings", "read KNOWN_FINDINGS.txt", "", kerr.Error())
	}
	// anti-vacuity floors
	counts := map[string]int{}
	for _, o := range r.Obs {
		counts[o.Rule]++
	}
	var frules []string
	for rule := range r.Floors {
		frules = append(frules, rule)
	}
	sort.Strings(frules)
	for _, rule := range frules {
		if counts[rule] < r.Floors[rule] {
			r.Viol("floor", "floor|"+rule, fmt.Sprintf("rule %s must match at least %d constructs", rule, r.Floors[rule]), "",
				fmt.Sprintf("matched only %d: the rule has lost its anchors (vacuous pass refused)", counts[rule]))
		}
	}
	sort.SliceStable(r.Obs, func(i, j int) bool {
		if r.Obs[i].Rule != r.Obs[j].Rule {
			return r.Obs[i].Rule < r.Obs[j].Rule
		}
		return r.Obs[i].Key < r.Obs[j].Key
	})
	// duplicate keys within a rule get an ordinal so that keys stay unique
	seen := map[string]int{}
	for _, o := range r.Obs {
		k := o.Rule + "\x00" + o.Key + "\x00" + o.Config
		seen[k]++
		if seen[k] > 1 {
			o.Key = fmt.Sprintf("%s#%d", o.Key, seen[k])
		}
	}
	violDir := filepath.Join(verifDir, "evidence", "violations")
	_ = os.MkdirAll(violDir, 0o755)
	// remove stale replay files of this property
	if old, _ := filepath.Glob(filepath.Join(violDir, r.Property+"-*.json")); old != nil {
		for _, f := range old {
			_ = os.Remove(f)
		}
	}
	nviol, nknown, ndis := 0, 0, 0
	usedKnown := map[int]bool{}
	var knownLines []string
	for _, o := range r.Obs {
		if o.status == OK {
			ndis++
			continue
		}
		matched := false
		for i, kf := range known {
			if kf.Property == r.Property && kf.Rule == o.Rule && kf.Key == o.Key && o.status == Violation {
				matched = true
				if !usedKnown[i] {
					usedKnown[i] = true
					knownLines = append(knownLines, fmt.Sprintf("KNOWN-FINDING: property=%s rule=%s key=%s %s", r.Property, o.Rule, o.Key, kf.Text))
				}
				o.known = kf.Text
				o.Status = "known-finding"
				break
			}
		}
		if matched {
			nknown++
			continue
		}
		nviol++
		rp := filepath.Join(violDir, fmt.Sprintf("%s-%d.json", r.Property, nviol))
		b, _ := json.MarshalIndent(map[string]interface{}{"property": r.Property, "obligation": o}, "", " ")
		_ = os.WriteFile(rp, b, 0o644)
		if nviol <= 40 {
			fmt.Printf("  [%s] rule=%s key=%s at %s: %s — %s\n", o.Status, o.Rule, o.Key, o.Pos, o.What, o.Detail)
			for _, p := range o.Path {
				fmt.Printf("      %s\n", p)
			}
		}
		fmt.Printf("VIOLATION property=%s replay=%s\n", r.Property, rp)
	}
	for _, l := range knownLines {
		fmt.Println(l)
	}
	// evidence
	distinct := map[string]bool{}
	for _, o := range r.Obs {
		distinct[o.Rule+"|"+o.Key] = true
	}
	var samples []interface{}
	perRule := map[string]int{}
	for _, o := range r.Obs {
		if perRule[o.Rule] < 2 && len(samples) < 24 {
			perRule[o.Rule]++
			samples = append(samples, map[string]string{"rule": o.Rule, "construct": o.Key, "checked": o.What, "at": o.Pos, "verdict": o.Status, "detail": o.Detail})
		}
	}
	var all []string
	for _, o := range r.Obs {
		all = append(all, o.Rule+" "+o.Key+" @"+o.Pos+" "+o.Status)
	}
	sort.Strings(all)
	ruleCounts := map[string]map[string]int{}
	for _, o := range r.Obs {
		m := ruleCounts[o.Rule]
		if m == nil {
			m = map[string]int{}
			ruleCounts[o.Rule] = m
		}
		m["instances"]++
		if o.status == OK {
			m["discharged"]++
		}
		if f, ok := r.Floors[o.Rule]; ok {
			m["floor"] = f
		}
	}
	cov := map[string]interface{}{
		"explanation":         r.Explain,
		"obligations":         len(r.Obs),
		"discharged":          ndis,
		"evaluations":         len(r.Obs),
		"distinct_nontrivial": len(distinct),
		"rule":                "one obligation per (rule instance × construct), keyed by rule+construct; distinct = distinct keys; every obligation names a construct resolved through go/types objects in the current source",
		"samples":             samples,
		"all_obligations":     all,
		"per_rule":            ruleCounts,
		"known_findings":      nknown,
		"unsuppressed":        nviol,
		"trusted_base":        r.Trusted,
		"checker_cmd":         "bin/otrcheck -property " + r.Property + " -tier " + r.Tier,
		"notes":               r.Notes,
		"exhaustive":          true,
	}
	for k, v := range r.Extra {
		cov[k] = v
	}
	ev := evidence{PropertyID: r.Property, Tier: r.Tier, Seed: seed, Level: "other", Coverage: cov, Assumptions: r.Assume,
		WallS: time.Since(r.start).Seconds(), Violations: nviol}
	if ev.Assumptions == nil {
		ev.Assumptions = []string{}
	}
	b, _ := json.MarshalIndent(ev, "", " ")
	_ = os.MkdirAll(filepath.Join(verifDir, "evidence"), 0o755)
	if err := os.WriteFile(filepath.Join(verifDir, "evidence", r.Property+".json"), b, 0o644); err != nil {
		fmt.Fprintln(os.Stderr, "cannot write evidence:", err)
		return 2
	}
	fmt.Printf("%s tier=%s obligations=%d discharged=%d known-findings=%d violations=%d wall=%.1fs\n",
		r.Property, r.Tier, len(r.Obs), ndis, nknown, nviol, ev.WallS)
	if nviol > 0 {
		return 1
	}
	return 0
}
