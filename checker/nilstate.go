package main

import (
	"fmt"
	"go/token"
	"go/types"
	"sort"
	"strings"

	"golang.org/x/tools/go/ssa"
)

// Nil-typestate: a must-analysis "cell is non-nil" with kills, for lazily established fields of
// *Conversation (c.smp.state, c.ake). Cells are absolute access paths rooted at Conversation; inside
// methods of other receiver types (e.g. *smp) paths are mapped through the call sites.

type nilCells map[string]bool // set of cells known non-nil (must)

func (a nilCells) clone() nilCells {
	r := nilCells{}
	for k := range a {
		r[k] = true
	}
	return r
}

func meetCells(a, b nilCells, aTop, bTop bool) (nilCells, bool) {
	if aTop {
		return b, bTop
	}
	if bTop {
		return a, false
	}
	r := nilCells{}
	for k := range a {
		if b[k] {
			r[k] = true
		}
	}
	return r, false
}

type nilAn struct {
	a     *An
	cells []string // tracked absolute cells, e.g. "Conversation.smp.state"
	// per function: entry state (in the function's own relative paths), top = not yet reached
	entry    map[*ssa.Function]nilCells
	entryTop map[*ssa.Function]bool
	// summaries in relative paths
	mustGen map[*ssa.Function]nilCells // non-nil at every return
	mayKill map[*ssa.Function]nilCells // may be set to nil / unknown
	in      map[*ssa.BasicBlock]nilCells
	inTop   map[*ssa.BasicBlock]bool
	retNN   map[*ssa.Function]map[int]bool
}

// relCells: which relative paths of f correspond to tracked cells, found by type: a path "$i.suffix"
// is a candidate if abs(f, path) is a tracked cell or a suffix-typed match (receiver types other than Conversation).
func (n *nilAn) cellOf(f *ssa.Function, rel string) (string, bool) {
	if !strings.HasPrefix(rel, "$") {
		return "", false
	}
	abs := n.a.C.abs(f, rel)
	for _, c := range n.cells {
		if abs == c {
			return rel, true
		}
		// receiver-typed view: "smp.state" for cell "Conversation.smp.state"
		parts := strings.SplitN(c, ".", 2)
		if len(parts) == 2 && abs == parts[1] {
			return rel, true
		}
	}
	return "", false
}

func (n *nilAn) isCellAbs(abs string) bool {
	for _, c := range n.cells {
		if abs == c {
			return true
		}
		parts := strings.SplitN(c, ".", 2)
		if len(parts) == 2 && abs == parts[1] {
			return true
		}
	}
	return false
}

func newNilAn(a *An, cells ...string) *nilAn {
	n := &nilAn{a: a, cells: cells, entry: map[*ssa.Function]nilCells{}, entryTop: map[*ssa.Function]bool{}, mustGen: map[*ssa.Function]nilCells{},
		mayKill: map[*ssa.Function]nilCells{}, in: map[*ssa.BasicBlock]nilCells{}, inTop: map[*ssa.BasicBlock]bool{}, retNN: map[*ssa.Function]map[int]bool{}}
	n.computeRetNonNil()
	fe := a.F
	// summaries bottom-up (entry assumed empty), iterate to fixpoint
	for _, f := range a.C.FuncSeq {
		if f.Blocks != nil {
			n.mustGen[f] = nil // nil map = TOP for must (not yet computed)
			n.mayKill[f] = nilCells{}
		}
	}
	for iter := 0; iter < 20; iter++ {
		changed := false
		for _, f := range a.C.FuncSeq {
			if f.Blocks == nil {
				continue
			}
			g, k := n.summarise(f)
			if !sameCells(g, n.mustGen[f]) || !sameCells(k, n.mayKill[f]) || n.mustGen[f] == nil {
				changed = true
			}
			n.mustGen[f], n.mayKill[f] = g, k
		}
		if !changed {
			break
		}
	}
	// entry states top-down
	for _, f := range a.C.FuncSeq {
		if f.Blocks == nil {
			continue
		}
		if fe.roots[f] {
			n.entry[f] = nilCells{}
		} else {
			n.entryTop[f] = true
		}
	}
	for iter := 0; iter < 30; iter++ {
		changed := false
		for _, f := range a.C.FuncSeq {
			if f.Blocks == nil || n.entryTop[f] {
				continue
			}
			n.flow(f, n.entry[f])
			for _, b := range f.Blocks {
				if n.inTop[b] {
					continue
				}
				st := n.in[b].clone()
				for _, in := range b.Instrs {
					if call, ok := in.(ssa.CallInstruction); ok {
						for _, g := range a.C.Callees(call) {
							g = a.C.unwrap(g)
							if !a.C.IsLib(g) || fe.roots[g] && false {
								continue
							}
							mapped := n.mapToCallee(f, call, g, st)
							if n.entryTop[g] {
								n.entryTop[g] = false
								n.entry[g] = mapped
								changed = true
							} else if !fe.roots[g] {
								m, _ := meetCells(n.entry[g], mapped, false, false)
								if !sameCells(m, n.entry[g]) {
									n.entry[g] = m
									changed = true
								}
							}
						}
					}
					n.transfer(f, in, st)
				}
			}
		}
		if !changed {
			break
		}
	}
	// final flows with the final entries
	for _, f := range a.C.FuncSeq {
		if f.Blocks != nil && !n.entryTop[f] {
			n.flow(f, n.entry[f])
		}
	}
	return n
}

func sameCells(a, b nilCells) bool {
	if (a == nil) != (b == nil) {
		return false
	}
	if len(a) != len(b) {
		return false
	}
	for k := range a {
		if !b[k] {
			return false
		}
	}
	return true
}

func (n *nilAn) computeRetNonNil() {
	for iter := 0; iter < 6; iter++ {
		for _, f := range n.a.C.FuncSeq {
			if f.Blocks == nil {
				continue
			}
			res := map[int]bool{}
			nres := f.Signature.Results().Len()
			for i := 0; i < nres; i++ {
				all := true
				any := false
				for _, r := range n.a.returnsOf(f) {
					any = true
					if !n.valNonNil(r.Results[i], 0) {
						all = false
					}
				}
				if all && any {
					res[i] = true
				}
			}
			n.retNN[f] = res
		}
	}
}

func (n *nilAn) valNonNil(v ssa.Value, d int) bool {
	if d > 6 {
		return false
	}
	switch x := v.(type) {
	case *ssa.MakeInterface, *ssa.Alloc, *ssa.MakeClosure, *ssa.MakeSlice, *ssa.MakeMap, *ssa.FieldAddr, *ssa.IndexAddr:
		return true
	case *ssa.Const:
		return x.Value != nil
	case *ssa.Phi:
		for _, e := range x.Edges {
			if e != v && !n.valNonNil(e, d+1) {
				return false
			}
		}
		return true
	case *ssa.Extract:
		if call, ok := x.Tuple.(*ssa.Call); ok {
			return n.callRetNonNil(call, x.Index)
		}
	case *ssa.Call:
		return n.callRetNonNil(x, 0)
	case *ssa.ChangeInterface:
		return n.valNonNil(x.X, d+1)
	case *ssa.UnOp:
		if sv := localStore(x); sv != nil {
			return n.valNonNil(sv, d+1)
		}
	}
	return false
}

func (n *nilAn) callRetNonNil(call *ssa.Call, idx int) bool {
	cs := n.a.C.Callees(call)
	if len(cs) == 0 {
		return false
	}
	for _, g := range cs {
		g = n.a.C.unwrap(g)
		if !n.a.C.IsLib(g) || !n.retNN[g][idx] {
			return false
		}
	}
	return true
}

// mapToCallee translates the caller's non-nil cells into the callee's parameter-relative paths.
func (n *nilAn) mapToCallee(f *ssa.Function, call ssa.CallInstruction, g *ssa.Function, st nilCells) nilCells {
	out := nilCells{}
	cc := call.Common()
	args := cc.Args
	if cc.IsInvoke() {
		args = append([]ssa.Value{cc.Value}, args...)
	}
	for i, ar := range args {
		if i >= len(g.Params) || !pointerLike(ar.Type()) {
			continue
		}
		base := n.a.C.rel(n.a.C.pathOf(ar))
		for cell := range st {
			if cell == base || strings.HasPrefix(cell, base+".") {
				out[fmt.Sprintf("$%d%s", i, cell[len(base):])] = true
			}
		}
	}
	return out
}

// mapFromCallee translates callee-relative paths into the caller's paths.
func (n *nilAn) mapFromCallee(f *ssa.Function, call ssa.CallInstruction, cells nilCells) nilCells {
	out := nilCells{}
	cc := call.Common()
	args := cc.Args
	if cc.IsInvoke() {
		args = append([]ssa.Value{cc.Value}, args...)
	}
	for cell := range cells {
		if !strings.HasPrefix(cell, "$") {
			continue
		}
		i := 1
		for i < len(cell) && cell[i] >= '0' && cell[i] <= '9' {
			i++
		}
		var idx int
		fmt.Sscanf(cell[1:i], "%d", &idx)
		if idx >= len(args) || !pointerLike(args[idx].Type()) {
			continue
		}
		out[n.a.C.rel(n.a.C.pathOf(args[idx]))+cell[i:]] = true
	}
	return out
}

func (n *nilAn) transfer(f *ssa.Function, in ssa.Instruction, st nilCells) {
	c := n.a.C
	switch x := in.(type) {
	case *ssa.Store:
		rel := c.rel(c.pathOf(x.Addr))
		if _, ok := n.cellOf(f, rel); ok {
			if n.valNonNil(x.Val, 0) {
				st[rel] = true
			} else {
				delete(st, rel)
			}
			return
		}
		// store to a prefix (whole struct) kills cells below
		for cell := range st {
			if strings.HasPrefix(cell, rel+".") {
				delete(st, cell)
			}
		}
	case ssa.CallInstruction:
		if _, isDefer := in.(*ssa.Defer); isDefer {
			return
		}
		if _, isGo := in.(*ssa.Go); isGo {
			return
		}
		callees := c.Callees(x)
		var gen nilCells
		genTop := true
		for _, g := range callees {
			g = c.unwrap(g)
			if !c.IsLib(g) {
				gen, genTop = meetCells(gen, nilCells{}, genTop, false)
				continue
			}
			for cell := range n.mapFromCallee(f, x, n.mayKill[g]) {
				delete(st, cell)
				for other := range st {
					if strings.HasPrefix(other, cell+".") {
						delete(st, other)
					}
				}
			}
			mg := n.mustGen[g]
			if mg == nil {
				gen, genTop = meetCells(gen, nil, genTop, true)
			} else {
				gen, genTop = meetCells(gen, n.mapFromCallee(f, x, mg), genTop, false)
			}
		}
		if !genTop {
			for cell := range gen {
				st[cell] = true
			}
		}
	}
}

// edge refinement: `cell != nil` / `cell == nil`
func (n *nilAn) refine(f *ssa.Function, p, b *ssa.BasicBlock, st nilCells) {
	iff, ok := p.Instrs[len(p.Instrs)-1].(*ssa.If)
	if !ok || len(p.Succs) != 2 || p.Succs[0] == p.Succs[1] {
		return
	}
	truth := p.Succs[0] == b
	cond := iff.Cond
	for {
		if u, ok := cond.(*ssa.UnOp); ok && u.Op == token.NOT {
			cond = u.X
			truth = !truth
			continue
		}
		break
	}
	bo, ok := cond.(*ssa.BinOp)
	if !ok || (bo.Op != token.EQL && bo.Op != token.NEQ) {
		return
	}
	var other ssa.Value
	if isNilConst(bo.Y) {
		other = bo.X
	} else if isNilConst(bo.X) {
		other = bo.Y
	}
	if other == nil {
		return
	}
	ld, ok := other.(*ssa.UnOp)
	if !ok || ld.Op != token.MUL {
		return
	}
	rel := n.a.C.rel(n.a.C.pathOf(ld.X))
	if _, isCell := n.cellOf(f, rel); !isCell {
		return
	}
	nonNil := (bo.Op == token.NEQ) == truth
	if nonNil {
		st[rel] = true
	}
}

func (n *nilAn) flow(f *ssa.Function, entry nilCells) {
	order := rpo(f)
	for _, b := range f.Blocks {
		n.inTop[b] = true
		n.in[b] = nil
	}
	for iter := 0; iter < 60; iter++ {
		changed := false
		for _, b := range order {
			var st nilCells
			top := true
			if b == f.Blocks[0] {
				st, top = entry.clone(), false
			} else if len(b.Preds) == 0 {
				st, top = nilCells{}, false
			} else {
				for _, p := range b.Preds {
					if n.inTop[p] {
						continue
					}
					ps := n.in[p].clone()
					for _, in := range p.Instrs {
						n.transfer(f, in, ps)
					}
					n.refine(f, p, b, ps)
					st, top = meetCells(st, ps, top, false)
				}
			}
			if top {
				continue
			}
			if n.inTop[b] || !sameCells(st, n.in[b]) {
				n.inTop[b] = false
				n.in[b] = st
				changed = true
			}
		}
		if !changed {
			break
		}
	}
}

func (n *nilAn) summarise(f *ssa.Function) (mustGen, mayKill nilCells) {
	n.flow(f, nilCells{})
	var acc nilCells
	top := true
	for _, r := range n.a.returnsOf(f) {
		b := r.Block()
		if n.inTop[b] {
			continue
		}
		st := n.in[b].clone()
		for _, in := range b.Instrs {
			n.transfer(f, in, st)
		}
		acc, top = meetCells(acc, st, top, false)
	}
	if top {
		acc = nilCells{}
	}
	mayKill = nilCells{}
	for _, b := range f.Blocks {
		for _, in := range b.Instrs {
			switch x := in.(type) {
			case *ssa.Store:
				rel := n.a.C.rel(n.a.C.pathOf(x.Addr))
				if _, ok := n.cellOf(f, rel); ok && !n.valNonNil(x.Val, 0) {
					mayKill[rel] = true
				} else if strings.HasPrefix(rel, "$") {
					// whole-struct overwrite of a parent of a cell
					abs := n.a.C.abs(f, rel)
					for _, c := range n.cells {
						parts := strings.SplitN(c, ".", 2)
						if strings.HasPrefix(c, abs+".") {
							mayKill[rel+c[len(abs):]] = true
						} else if len(parts) == 2 && strings.HasPrefix(parts[1], abs+".") {
							mayKill[rel+parts[1][len(abs):]] = true
						}
					}
				}
			case ssa.CallInstruction:
				if _, isDefer := in.(*ssa.Defer); isDefer {
					// deferred kills happen at exit: count them
				}
				for _, g := range n.a.C.Callees(x) {
					g = n.a.C.unwrap(g)
					if n.a.C.IsLib(g) {
						for cell := range n.mapFromCallee(f, x, n.mayKill[g]) {
							if strings.HasPrefix(cell, "$") {
								mayKill[cell] = true
							}
						}
					}
				}
			}
		}
	}
	// only parameter-rooted cells are meaningful in a summary
	mg := nilCells{}
	for c := range acc {
		if strings.HasPrefix(c, "$") {
			mg[c] = true
		}
	}
	return mg, mayKill
}

// stateBefore: the non-nil cells right before an instruction.
func (n *nilAn) stateBefore(in ssa.Instruction) (nilCells, bool) {
	b := in.Block()
	if n.inTop[b] {
		return nil, false
	}
	st := n.in[b].clone()
	for _, x := range b.Instrs {
		if x == in {
			break
		}
		n.transfer(in.Parent(), x, st)
	}
	return st, true
}

// derefSites: instructions that dereference the value of a tracked cell (invoke on the interface,
// field access / method call through the pointer).
type derefSite struct {
	in   ssa.Instruction
	cell string // relative path in the function
	abs  string
}

func (n *nilAn) derefSites() []derefSite {
	var out []derefSite
	c := n.a.C
	for _, f := range c.FuncSeq {
		for _, b := range f.Blocks {
			for _, in := range b.Instrs {
				var ptr ssa.Value
				switch x := in.(type) {
				case ssa.CallInstruction:
					if x.Common().IsInvoke() {
						ptr = x.Common().Value
					}
				case *ssa.FieldAddr:
					ptr = x.X
				case *ssa.UnOp:
					if x.Op == token.MUL {
						if _, isPtr := x.X.Type().Underlying().(*types.Pointer); isPtr {
							ptr = x.X
						}
					}
				}
				if ptr == nil {
					continue
				}
				ld, ok := ptr.(*ssa.UnOp)
				if !ok || ld.Op != token.MUL {
					continue
				}
				rel := c.rel(c.pathOf(ld.X))
				if _, isCell := n.cellOf(f, rel); !isCell {
					continue
				}
				// a method with a nil-safe pointer receiver is a call, not a dereference: FieldAddr/invoke only
				out = append(out, derefSite{in, rel, c.abs(f, rel)})
			}
		}
	}
	sort.Slice(out, func(i, j int) bool { return c.InstrPos(out[i].in) < c.InstrPos(out[j].in) })
	return out
}
