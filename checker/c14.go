package main

import (
	"fmt"
	"sort"
	"strings"

	"golang.org/x/tools/go/ssa"
)

func init() {
	register("C14", "Structural clause decided: (sender) the piece arithmetic is done without lossy narrowing, the payload per piece is size-len(prefix)-1 computed from a prefix of fixed width, pieces are prefix ‖ data[i*r : min((i+1)*r, len)] ‖ ',' with count len/r+1, and the guards (size covers the message, no room for payload, more than 65535 pieces) fall back to the unfragmented message; (receiver) the four predicates and their order in receiveFragment equal the specified decision table over all orderings of (index, total, stored index, stored total), foreign-instance fragments and malformed prefixes leave the context untouched, data is stored only after prefix (incl. instance tags) and fragment parsed, a completed stream is dispatched once with the context reset before the dispatch, and any complete non-fragment message resets the context. Not decided: byte-exact reassembly for all lengths as an executed round trip.",
		func(a *An) {
			a.narrowings("U.narrow", false)
			a.c14Sender()
			a.c14Predicates()
			a.c14ReceiveOrder()
			a.fragmentResetBeforeDispatch("S.fragment-reset")
			a.c15FragmentPrefix()
			a.c14NonFragmentResets()
			a.c15VerifyTable("P.tag-table")
			a.c15Writers()
		})
}

func (a *An) c14Sender() {
	R := a.R
	rule := "V.fragment-arith"
	// every encoded message goes through the splitter, which alone decides whether it fits (no estimate beside it)
	if fe := a.MustFn("(*Conversation).fragEncode"); fe != nil {
		for _, r := range a.returnsOf(fe) {
			a.TermIs(rule, "fragEncode|always-split", "what is sent is fragment(encode(msg), fragment size)", r, r.Results[0], "(*Conversation).fragment($c, (*Conversation).encode($c, $msg), Conversation.fragmentSize)")
		}
	}
	fn := a.MustFn("(*Conversation).fragment")
	if fn == nil {
		return
	}
	// helpers
	for name, want := range map[string]string{"fragmentStart": "($i * $fraglen)", "fragmentEnd": "min((($i + 1) * $fraglen), $l)"} {
		// (written out in fragmentData instead of named: the rule on fragmentData below reads the same either way)
		if f, ok := a.C.Fn(name); ok {
			for _, r := range a.returnsOf(f) {
				a.TermIs(rule, name+"|formula", name, r, r.Results[0], want)
			}
		}
	}
	if f := a.MustFn("min"); f != nil {
		for _, c := range []struct{ l, r int64 }{{1, 2}, {2, 2}, {3, 2}} {
			paths, _ := a.C.Paths(f, a.C.valOracle(valCase{"$l": c.l, "$r": c.r}, nil), 8)
			ok := len(paths) == 1 && paths[0].Ret != nil
			if ok {
				t := a.C.Term(paths[0].Resolve(paths[0].Ret.Results[0]))
				ok = (c.l <= c.r && (t == "$l" || c.l == c.r && t == "$r")) || (c.l > c.r && t == "$r")
			}
			R.Check(ok, rule, fmt.Sprintf("min|%d,%d", c.l, c.r), "min returns the smaller argument", a.C.Pos(f.Pos()), "wrong result")
		}
	}
	if f := a.MustFn("fragmentData"); f != nil {
		for _, r := range a.returnsOf(f) {
			a.TermIs(rule, "fragmentData|slice", "payload of piece i", r, r.Results[0], "$data[($i * $fraglen):min((($i + 1) * $fraglen), $l)]")
		}
	}
	// the per-piece payload length and the piece count
	realT := "((int($fraglen) - len(otrVersion.fragmentPrefix(Conversation.version, 1, 1, Conversation.ourInstanceTag, Conversation.theirInstanceTag))) - 1)"
	numT := "((len($data) / " + realT + ") + 1)"
	var mk *ssa.MakeSlice
	for _, b := range fn.Blocks {
		for _, in := range b.Instrs {
			if m, ok := in.(*ssa.MakeSlice); ok && strings.Contains(m.Type().String(), "ValidMessage") {
				if _, isConst := m.Len.(*ssa.Const); !isConst {
					mk = m
				}
			}
		}
	}
	if mk == nil {
		R.Viol(rule, "fragment|count", "the pieces are collected in a slice of numFragments elements", a.C.Pos(fn.Pos()), "no such make")
		return
	}
	a.TermIs(rule, "fragment|count", "number of pieces = len/payload + 1 with payload = size - len(prefix) - 1", mk, mk.Len, numT)
	fs := a.F.LocalAt(mk)
	for key, want := range map[string]string{
		"guard-fits":     "passed:" + canonCmp("len($data)", ">", "int($fraglen)"),
		"guard-zero":     "passed:($fraglen != 0)",
		"guard-payload":  "passed:(" + realT + " > 0)",
		"guard-maxcount": "passed:(" + numT + " <= " + a.MustConst("maxFragments") + ")",
	} {
		R.Check(fs.Has(want), rule, "fragment|"+key, "fragmentation happens only behind the guard "+want[len("passed:"):], a.C.InstrPos(mk), "guard missing; facts: "+strings.Join(filterFacts(fs.List()), "; "))
	}
	// unfragmented fallbacks return the message itself
	for _, r := range a.returnsOf(fn) {
		t := a.C.Term(r.Results[0])
		if r.Results[0] == ssa.Value(mk) || strings.Contains(t, "makeslice("+numT) {
			continue
		}
		R.Check(strings.Contains(t, "$data") || strings.Contains(t, "new([1]ValidMessage)"), rule, "fragment|fallback", "fallback returns the unfragmented message", a.C.InstrPos(r), "returns "+t)
	}
	// piece assembly inside the loop
	n := 0
	for _, b := range fn.Blocks {
		for _, in := range b.Instrs {
			st, ok := in.(*ssa.Store)
			if !ok {
				continue
			}
			ia, ok := st.Addr.(*ssa.IndexAddr)
			if !ok || ia.X != ssa.Value(mk) {
				continue
			}
			n++
			wf := a.C.WriterFields(st.Val)
			okA := len(wf) == 3 && wf[0].Kind == "BASE" && strings.HasPrefix(wf[0].Term, "otrVersion.fragmentPrefix(Conversation.version, ") && strings.Contains(wf[0].Term, ", "+numT+", Conversation.ourInstanceTag, Conversation.theirInstanceTag)") &&
				wf[1].Kind == "BYTES" && strings.HasPrefix(wf[1].Term, "fragmentData($data, ") && strings.HasSuffix(wf[1].Term, ", "+realT+", len($data))") &&
				wf[2].Kind == "BYTE" && wf[2].Term == "global:fragmentSeparator[0]"
			R.Check(okA, rule, "fragment|piece", "piece i = fragmentPrefix(i, count, own tag, peer tag) ‖ fragmentData(data, i, payload, len) ‖ ','", a.C.InstrPos(st), "piece is "+fieldsStr(wf))
			// index of the piece and of the data are the same loop variable
			if okA {
				pi := strings.TrimPrefix(wf[0].Term, "otrVersion.fragmentPrefix(Conversation.version, ")
				pi = pi[:strings.Index(pi, ", ")]
				di := strings.TrimPrefix(wf[1].Term, "fragmentData($data, ")
				di = di[:strings.Index(di, ", ")]
				// compared as values (the same SSA value), not as rendered terms
				var pv, dv ssa.Value
				for _, b2 := range fn.Blocks {
					for _, in2 := range b2.Instrs {
						if c2, isC := in2.(*ssa.Call); isC {
							switch a.F.callName(c2) {
							case "otrVersion.fragmentPrefix":
								if len(c2.Call.Args) > 0 {
									pv = c2.Call.Args[0]
								}
							case "fragmentData":
								if len(c2.Call.Args) > 1 {
									dv = c2.Call.Args[1]
								}
							}
						}
					}
				}
				R.Check(pv != nil && pv == dv && ia.Index == pv, rule, "fragment|piece-index", "prefix index, data index and slot index are the same loop variable", a.C.InstrPos(st), "prefix "+pi+", data "+di+", slot "+a.C.Term(ia.Index))
			}
		}
	}
	R.Check(n == 1, rule, "fragment|piece-store", "pieces are produced in one place", a.C.Pos(fn.Pos()), fmt.Sprintf("%d stores", n))
	// prefix formats (fixed width)
	for v, want := range map[string]string{"(otrV2)": `"%s%05d,%05d,"`, "(otrV3)": `"%s%08x|%08x,%05d,%05d,"`} {
		f := a.MustFn(v + ".fragmentPrefix")
		if f == nil {
			continue
		}
		for _, b := range f.Blocks {
			for _, in := range b.Instrs {
				if c, ok := in.(*ssa.Call); ok && a.F.callName(c) == "fmt.Sprintf" {
					a.TermIs(rule, v+".fragmentPrefix|format", "fragment prefix format (fixed width for counts up to 99999)", c, c.Call.Args[0], want)
					elems := a.C.variadicElems(c.Call.Args[1])
					if len(elems) >= 2 {
						a.TermIs(rule, v+".fragmentPrefix|index", "transmitted index is n+1", c, elems[len(elems)-2], "($n + 1)")
						a.TermIs(rule, v+".fragmentPrefix|total", "transmitted total", c, elems[len(elems)-1], "$total")
					}
				}
			}
		}
	}
	R.Floor(rule, 16)
}

func (a *An) c14Predicates() {
	R := a.R
	rule := "P.fragment-predicates"
	type tc struct{ ix, l, cur, curLen int64 }
	var cases []tc
	for _, ix := range []int64{0, 1, 2, 3, 4} {
		for _, l := range []int64{0, 1, 3} {
			for _, cur := range []int64{0, 1, 2, 3} {
				for _, cl := range []int64{0, 3, 4} {
					cases = append(cases, tc{ix, l, cur, cl})
				}
			}
		}
	}
	eval := func(name string, vals valCase) (string, bool) {
		fn := a.MustFn(name)
		if fn == nil {
			return "", false
		}
		paths, complete := a.C.Paths(fn, a.C.valOracle(vals, nil), 64)
		if !complete || len(paths) == 0 {
			return "", false
		}
		res := ""
		for _, p := range paths {
			if p.Ret == nil {
				return "", false
			}
			v := p.Resolve(p.Ret.Results[0])
			t := a.C.Term(v)
			if t != "true" && t != "false" {
				// a comparison returned directly: evaluate it
				tri := a.C.valOracle(vals, nil)(p, v)
				if tri == Unknown {
					return "", false
				}
				t = boolStr(tri == True)
			}
			if res != "" && res != t {
				return "", false
			}
			res = t
		}
		return res, true
	}
	specs := []struct {
		fn   string
		spec func(c tc) bool
		vals func(c tc) valCase
	}{
		{"fragmentIsInvalid", func(c tc) bool { return c.ix == 0 || c.l == 0 || c.ix > c.l }, func(c tc) valCase { return valCase{"$ix": c.ix, "$l": c.l} }},
		{"fragmentIsFirstMessage", func(c tc) bool { return c.ix == 1 }, func(c tc) valCase { return valCase{"$ix": c.ix, "$l": c.l} }},
		{"fragmentIsNextMessage", func(c tc) bool { return c.cur+1 == c.ix && c.curLen == c.l }, func(c tc) valCase {
			return valCase{"$ix": c.ix, "$l": c.l, "$beforeCtx.currentIndex": c.cur, "$beforeCtx.currentLen": c.curLen, "fragmentationContext.currentIndex": c.cur, "fragmentationContext.currentLen": c.curLen}
		}},
		{"fragmentsFinished", func(c tc) bool { return c.cur > 0 && c.cur == c.curLen }, func(c tc) valCase {
			return valCase{"$fctx.currentIndex": c.cur, "$fctx.currentLen": c.curLen, "fragmentationContext.currentIndex": c.cur, "fragmentationContext.currentLen": c.curLen}
		}},
	}
	for _, s := range specs {
		bad := ""
		n := 0
		for _, c := range cases {
			got, ok := eval(s.fn, s.vals(c))
			n++
			if !ok {
				bad = fmt.Sprintf("undecided for ix=%d l=%d cur=%d curLen=%d", c.ix, c.l, c.cur, c.curLen)
				break
			}
			if got != boolStr(s.spec(c)) {
				bad = fmt.Sprintf("ix=%d l=%d cur=%d curLen=%d gives %s, specified %v", c.ix, c.l, c.cur, c.curLen, got, s.spec(c))
				break
			}
		}
		pos := ""
		if f := a.MustFn(s.fn); f != nil {
			pos = a.C.Pos(f.Pos())
		}
		R.Check(bad == "", rule, s.fn+"|truth-table", fmt.Sprintf("%s equals its specification on %d orderings of its operands", s.fn, n), pos, bad)
	}
	R.Floor(rule, 4)
}

// the order of the cases in receiveFragment
func (a *An) c14ReceiveOrder() {
	R := a.R
	rule := "P.fragment-order"
	fn := a.MustFn("(*Conversation).receiveFragment")
	if fn == nil {
		return
	}
	term := func(callee string) string {
		cs := a.CallsIn(fn, callee)
		if len(cs) != 1 {
			return "?"
		}
		return a.C.Term(cs[0].(*ssa.Call))
	}
	pfp, pf := term("(*Conversation).parseFragmentPrefix"), term("parseFragment")
	inv, first, next := term("fragmentIsInvalid"), term("fragmentIsFirstMessage"), term("fragmentIsNextMessage")
	if strings.Contains(pfp+pf+inv+first+next, "?") && (pfp == "?" || pf == "?" || inv == "?" || first == "?" || next == "?") {
		R.Viol(rule, "receiveFragment|calls", "receiveFragment uses each parser and predicate exactly once", a.C.Pos(fn.Pos()), "call sites not found")
		return
	}
	for _, c := range []struct {
		name                               string
		ignore, ok1, ok2, inv, first, next bool
		want                               string
		wantErr                            bool
	}{
		{"foreign-instance", true, true, true, false, true, false, "$beforeCtx", false},
		{"foreign-instance-unparsable", true, true, false, false, false, false, "$beforeCtx", false},
		{"bad-prefix", false, false, true, false, true, false, "$beforeCtx", true},
		{"bad-fragment", false, true, false, false, true, false, "$beforeCtx", true},
		{"invalid-index", false, true, true, true, true, true, "discard", false},
		{"first", false, true, true, false, true, true, "restart", false},
		{"next", false, true, true, false, false, true, "append", false},
		{"out-of-order", false, true, true, false, false, false, "forget", false},
	} {
		bools := map[string]bool{pfp + "#1": c.ignore, pfp + "#2": c.ok1, pf + "#3": c.ok2, inv: c.inv, first: c.first, next: c.next}
		paths, complete := a.C.Paths(fn, a.C.valOracle(nil, bools), 128)
		key := "receiveFragment|" + c.name
		if !complete || len(paths) == 0 {
			R.Undec(rule, key, "enumerate paths", a.C.Pos(fn.Pos()), "incomplete")
			continue
		}
		ok, d := true, ""
		for _, p := range paths {
			if p.Ret == nil {
				continue
			}
			t := a.C.Term(p.Resolve(p.Ret.Results[0]))
			got := t
			switch {
			case t == "$beforeCtx":
			case strings.HasPrefix(t, "(fragmentationContext).discardFragment($beforeCtx"):
				got = "discard"
			case strings.HasPrefix(t, "restartFragment("+pf+"#0, "+pf+"#1, "+pf+"#2)"):
				got = "restart"
			case strings.HasPrefix(t, "(fragmentationContext).appendFragment($beforeCtx, "+pf+"#0, "+pf+"#1, "+pf+"#2)"):
				got = "append"
			case t == "forgetFragment()":
				got = "forget"
			}
			if got != c.want {
				ok, d = false, "returns context "+t+" (decisions "+decisionsStr(p)+"), specified "+c.want
			}
			tri := a.F.ErrTri(p, p.Ret.Results[1])
			if c.wantErr && tri != False || !c.wantErr && tri != True {
				ok, d = false, fmt.Sprintf("error result %v, specified error=%v", tri, c.wantErr)
			}
		}
		R.Check(ok, rule, key, "outcome "+c.want, a.C.Pos(fn.Pos()), d)
	}
	// parseFragment is applied to the body returned by the prefix parser
	if cs := a.CallsIn(fn, "parseFragment"); len(cs) == 1 {
		a.TermIs(rule, "receiveFragment|body", "fragment body", cs[0], cs[0].Common().Args[0], pfp+"#0")
	}
	// context constructors
	if f := a.MustFn("(fragmentationContext).appendFragment"); f != nil {
		for _, r := range a.returnsOf(f) {
			cf := a.complitFields(r.Results[0])
			R.Check(cf["frag"] == "append(fragmentationContext.frag, $data)" && cf["currentIndex"] == "$ix" && cf["currentLen"] == "$l", rule, "appendFragment|appends", "the next piece is appended to the stored pieces and the position advances to (ix, l)", a.C.InstrPos(r), fmt.Sprintf("returns %v", cf))
		}
	}
	if f := a.MustFn("restartFragment"); f != nil {
		for _, r := range a.returnsOf(f) {
			cf := a.complitFields(r.Results[0])
			R.Check(cf["frag"] == "makeCopy($data)" && cf["currentIndex"] == "$ix" && cf["currentLen"] == "$l", rule, "restartFragment|copy", "a first piece starts a fresh buffer holding a copy of the piece", a.C.InstrPos(r), fmt.Sprintf("returns %v", cf))
		}
	}
	if f := a.MustFn("parseFragment"); f != nil {
		mo := a.F.MustOK(f)
		R.Check(mo.Has("passed:(len(bytes.Split($data, global:fragmentSeparator)) == 4)"), rule, "parseFragment|parts", "a fragment body has exactly index, total, data and a trailing separator", a.C.Pos(f.Pos()), "facts on success: "+strings.Join(filterFacts(mo.List()), "; "))
	}
	// ... and nothing more: the sender emits an empty last piece when the length is a multiple of the piece size, so
	// any further condition (on the piece, on what follows the separator) rejects fragments our own sender produces
	if f := a.MustFn("parseFragment"); f != nil {
		allowed := map[string]bool{
			"(len(bytes.Split($data, global:fragmentSeparator)) == 4)":                  true,
			"(bytesToUint16(bytes.Split($data, global:fragmentSeparator)[0])#1 == nil)": true,
			"(bytesToUint16(bytes.Split($data, global:fragmentSeparator)[1])#1 == nil)": true,
		}
		conds, complete := a.acceptConditions(f, 3)
		extra := []string{}
		for c := range conds {
			if !allowed[c] {
				extra = append(extra, c)
			}
		}
		sort.Strings(extra)
		R.Check(complete && len(conds) >= 3 && len(extra) == 0, rule, "parseFragment|no-extra-condition", "a fragment body is accepted under exactly: four '|'/','-separated parts, index and total parse as 16-bit decimals", a.C.Pos(f.Pos()),
			"acceptance also depends on: "+strings.Join(extra, "; ")+" — the sender emits an empty last piece when the message length is a multiple of the piece size, and such a series would never complete")
	}
	R.Floor(rule, 13)
}

// acceptConditions: the union of the branch conditions (with the truth taken) on the paths of f on which result idx
// may be true, plus the result expression itself where it is computed.
func (a *An) acceptConditions(f *ssa.Function, idx int) (map[string]bool, bool) {
	out := map[string]bool{}
	paths, complete := a.C.Paths(f, nil, 256)
	for _, p := range paths {
		if p.Ret == nil || p.Cut || idx >= len(p.Ret.Results) {
			if p.Cut {
				complete = false
			}
			continue
		}
		v := p.Resolve(resolveLocal(p.Ret.Results[idx]))
		if k, ok := v.(*ssa.Const); ok {
			if constStr(k) != "true" {
				continue
			}
		} else {
			out[a.C.Term(v)] = true
		}
		for _, d := range p.Decisions {
			out[d.Term] = true
		}
	}
	return out, complete
}

// any complete non-fragment message resets the context
func (a *An) c14NonFragmentResets() {
	R := a.R
	rule := "S.non-fragment-reset"
	fn := a.MustFn("(*Conversation).receiveUnit")
	fld := a.MustField("Conversation", "fragmentationContext")
	if fn == nil || fld == nil {
		return
	}
	cs := a.CallsIn(fn, "guessMessageType")
	if len(cs) != 1 {
		R.Viol(rule, "receiveUnit|guess", "receiveUnit classifies the message once", a.C.Pos(fn.Pos()), "guessMessageType call not found")
		return
	}
	gt := a.C.Term(cs[0].(*ssa.Call))
	frag := a.MustConst("msgGuessFragment")
	en := "(*policies).isOTREnabled(&Conversation.Policies)"
	for k := int64(0); k <= 11; k++ {
		isFrag := fmt.Sprint(k) == frag
		paths, complete := a.C.Paths(fn, a.C.valOracle(valCase{gt: k}, map[string]bool{en: true, "$forgetFragments": true}), 256)
		key := fmt.Sprintf("receiveUnit|kind=%d", k)
		if !complete || len(paths) == 0 {
			R.Undec(rule, key, "enumerate paths", a.C.Pos(fn.Pos()), "incomplete")
			continue
		}
		ok, d := true, ""
		for _, p := range paths {
			reset := false
			last := p.Instrs[len(p.Instrs)-1]
			_ = last
			for _, in := range p.Instrs {
				if st, isSt := in.(*ssa.Store); isSt {
					if fa, isFA := st.Addr.(*ssa.FieldAddr); isFA && fieldOf(fa) == fld && a.C.Term(st.Val) == "forgetFragment()" {
						reset = true
					}
				}
			}
			// early returns (error message, v1 key exchange) hand back before the common tail
			early := false
			if p.Ret != nil {
				for _, in := range p.Instrs {
					if c, isC := in.(*ssa.Call); isC && (a.F.callName(c) == "(*Conversation).receiveErrorMessage") {
						early = true
					}
				}
				t := a.C.Term(resolveLocal(p.Ret.Results[2]))
				if t == "global:errUnsupportedOTRVersion" {
					early = true
				}
			}
			if isFrag {
				if reset {
					// allowed only on the completed-stream path (before the dispatch); checked by S.fragment-reset
				}
				continue
			}
			if !reset && !early {
				ok, d = false, "a complete non-fragment message of this kind does not reset the fragment context"
			}
		}
		R.Check(ok, rule, key, "an unfragmented message of this kind forgets any partial fragment stream", a.C.Pos(fn.Pos()), d)
	}
	R.Floor(rule, 10)
}

// complitFields: for a struct value built by a composite literal (load of a local alloc whose fields
// were stored), the terms of the stored field values.
func (a *An) complitFields(v ssa.Value) map[string]string {
	out := map[string]string{}
	u, ok := v.(*ssa.UnOp)
	if !ok {
		return out
	}
	al, ok := u.X.(*ssa.Alloc)
	if !ok || al.Referrers() == nil {
		return out
	}
	for _, ref := range *al.Referrers() {
		fa, ok := ref.(*ssa.FieldAddr)
		if !ok || fa.Referrers() == nil {
			continue
		}
		for _, r2 := range *fa.Referrers() {
			if st, ok := r2.(*ssa.Store); ok && st.Addr == ssa.Value(fa) {
				out[fieldOf(fa).Name()] = a.C.Term(st.Val)
			}
		}
	}
	return out
}
