package main

import (
	"fmt"
	"go/token"
	"strings"

	"golang.org/x/tools/go/ssa"
)

func init() {
	register("C15", "Structural clause decided: (1) the own tag is stored by generateInstanceTag only on the exit edge of the `< 0x100 ⇒ redraw` loop and after the randomness error was propagated; (2) the decision table of otrV3.verifyInstanceTags over all orderings of (their, our, stored own tag, stored peer tag) equals the specified one, and the peer tag is stored only on accepting paths, with the message's sender tag; (3) theirInstanceTag has no other writer except snapshot restores on rejection; (4) every dispatch of a v3 message or fragment is behind a successful tag check, foreign-instance traffic returns before any handler; (5) header writer, header reader and the public ExtractInstanceTags helper agree on the offsets (3,7) and on the order of the two tags. (restore) in receiveDecoded and receiveFragment every path that refuses the message puts the peer tag back, and after a data message the tag is what it was before it whatever the handler reported (its refusal can be silent). Not decided: behaviour over whole histories; user-supplied own tags (InitializeInstanceTag) are taken as given.",
		func(a *An) {
			a.c15OwnTag()
			a.c15VerifyTable("P.tag-table")
			a.c15Writers()
			a.c15RestoreOnReject("S.tag-restore")
			// fragments are read with the parser of the version the conversation speaks (the tag-checking one under v3)
			if f := a.MustFn("(*Conversation).parseFragmentPrefix"); f != nil {
				n := 0
				for _, g := range a.ownedFns(f) {
					for _, b := range g.Blocks {
						for _, in := range b.Instrs {
							if call, ok := in.(ssa.CallInstruction); ok && call.Common().IsInvoke() && call.Common().Method.Name() == "parseFragmentPrefix" {
								n++
								a.TermIs("G.v3-fragment", "Conversation.parseFragmentPrefix|version", "prefix parser of the committed version", call, call.Common().Value, "Conversation.version")
							}
						}
					}
				}
				a.R.Check(n == 1, "G.v3-fragment", "Conversation.parseFragmentPrefix|dispatch", "one dispatch to the version's prefix parser", a.C.Pos(f.Pos()), fmt.Sprintf("%d", n))
			}
			// tags are read as 32-bit hexadecimal numbers, without silent truncation of longer fields
			a.narrowings("U.narrow", false)
			if f := a.MustFn("parseItag"); f != nil {
				if c := a.uniqueCall("P.tag-parse", f, "strconv.ParseUint"); c != nil {
					a.TermIs("P.tag-parse", "parseItag|base", "number base", c, c.Call.Args[1], "16")
					a.TermIs("P.tag-parse", "parseItag|bits", "number width", c, c.Call.Args[2], "32")
				}
			}
			a.c15Dispatch()
			a.c15Layout()
		})
}

func (a *An) c15OwnTag() {
	R := a.R
	fn := a.MustFn("(*Conversation).generateInstanceTag")
	fld := a.MustField("Conversation", "ourInstanceTag")
	min := a.MustConst("minValidInstanceTag")
	if fn == nil || fld == nil {
		return
	}
	a.WhoMayWrite("W.own-tag", fld, "(*Conversation).generateInstanceTag", "(*Conversation).InitializeInstanceTag")
	n := 0
	for _, st := range a.DirectStoresTo(fld) {
		if !a.C.within(st, fn) {
			continue
		}
		n++
		t := a.C.Term(st.Val)
		fs := a.F.LocalAt(st)
		want := "passed:(" + t + " >= " + min + ")"
		R.Check(fs.Has(want), "P.own-tag", "generateInstanceTag|store|range", "the stored own tag passed the `>= minValidInstanceTag` exit test of the redraw loop", a.C.InstrPos(st),
			"store of "+t+" is reachable without "+want)
		// drawn value: every non-constant alternative of the stored value is the 4-byte draw made after a successful randomInto
		var alts []ssa.Value
		if phi, ok := st.Val.(*ssa.Phi); ok {
			alts = phi.Edges
		} else {
			alts = []ssa.Value{st.Val}
		}
		for _, alt := range alts {
			if _, isConst := alt.(*ssa.Const); isConst {
				continue
			}
			call, isCall := alt.(*ssa.Call)
			okDraw := isCall && strings.HasSuffix(a.F.callName(call), "Uint32") && a.F.LocalAt(call).Has("ok:(*Conversation).randomInto")
			R.Check(okDraw, "P.own-tag", "generateInstanceTag|store|random-ok", "the tag is the 4-byte value drawn through randomInto, whose error was tested before the value is used", a.C.InstrPos(st),
				"stored alternative "+a.C.Term(alt)+" is not a draw made after a successful randomInto")
		}
	}
	if n == 0 {
		R.Viol("P.own-tag", "generateInstanceTag|store", "generateInstanceTag stores the drawn tag", a.C.Pos(fn.Pos()), "no store to ourInstanceTag")
	}
	R.Floor("P.own-tag", 2)
}

// decision table of otrV3.verifyInstanceTags by enumeration of the orderings of its operands
func (a *An) c15VerifyTable(rule string) {
	fn := a.MustFn("(otrV3).verifyInstanceTags")
	if fn == nil {
		return
	}
	R := a.R
	var min int64 = 256
	fmt.Sscan(a.MustConst("minValidInstanceTag"), &min)
	fld := a.MustField("Conversation", "theirInstanceTag")
	type tc struct {
		name                     string
		their, our, cOur, cTheir int64
	}
	var cases []tc
	for _, our := range []struct {
		n string
		v int64
	}{{"our=0", 0}, {"our=1", 1}, {"our=min-1", min - 1}, {"our=min", min}, {"our=big", min + 1000}} {
		for _, their := range []struct {
			n string
			v int64
		}{{"their=0", 0}, {"their=min-1", min - 1}, {"their=min", min}, {"their=big", min + 2000}} {
			for _, co := range []string{"own=our", "own≠our", "own=0"} {
				for _, ct := range []string{"peer=0", "peer=their", "peer≠their"} {
					c := tc{name: our.n + "," + their.n + "," + co + "," + ct, their: their.v, our: our.v}
					switch co {
					case "own=our":
						c.cOur = our.v
					case "own=0":
						// the own tag is generated lazily: it can still be unset when a message arrives
						if our.v == 0 {
							continue
						}
						c.cOur = 0
					default:
						c.cOur = our.v + 7777
					}
					switch ct {
					case "peer=0":
						c.cTheir = 0
					case "peer=their":
						c.cTheir = their.v
						if their.v == 0 {
							continue
						}
					default:
						c.cTheir = their.v + 5555
					}
					cases = append(cases, c)
				}
			}
		}
	}
	for _, c := range cases {
		// specification
		want := "accept"
		switch {
		case c.our > 0 && c.our < min:
			want = "invalid"
		case c.their < min:
			want = "invalid"
		case c.our != 0 && c.cOur != c.our:
			want = "other"
		case c.cTheir != 0 && c.cTheir != c.their:
			want = "other"
		}
		wantStore := want == "accept" && c.cTheir == 0
		vals := valCase{"$their": c.their, "$our": c.our, "Conversation.ourInstanceTag": c.cOur, "Conversation.theirInstanceTag": c.cTheir}
		paths, complete := a.C.Paths(fn, a.C.valOracle(vals, nil), 64)
		key := "verifyInstanceTags|" + c.name
		if !complete || len(paths) == 0 {
			R.Undec(rule, key, "enumerate paths", a.C.Pos(fn.Pos()), "path enumeration incomplete")
			continue
		}
		ok := true
		detail := ""
		for _, p := range paths {
			if p.Ret == nil {
				ok, detail = false, "path ends without return"
				continue
			}
			got := "?"
			ev := p.Resolve(p.Ret.Results[0])
			switch {
			case isNilConst(ev):
				got = "accept"
			case a.C.Term(ev) == "global:errInvalidOTRMessage":
				got = "invalid"
			case a.C.Term(ev) == "global:errReceivedMessageForOtherInstance":
				got = "other"
			default:
				got = a.C.Term(ev)
			}
			stored := ""
			for _, in := range p.Instrs {
				if st, isSt := in.(*ssa.Store); isSt {
					if fa, isFA := st.Addr.(*ssa.FieldAddr); isFA && fieldOf(fa) == fld {
						stored = a.C.Term(st.Val)
					}
				}
			}
			if got != want {
				ok, detail = false, fmt.Sprintf("outcome %s, specified %s (decisions: %s)", got, want, decisionsStr(p))
			}
			if wantStore && stored != "$their" {
				ok, detail = false, fmt.Sprintf("accepting path with no peer tag yet must store the message's sender tag; stored %q", stored)
			}
			if !wantStore && stored != "" && !(want == "accept" && stored == "$their") {
				ok, detail = false, fmt.Sprintf("peer tag stored (%s) on a path whose outcome is %s", stored, got)
			}
		}
		R.Check(ok, rule, key, "verifyInstanceTags outcome="+want+" store="+boolStr(wantStore), a.C.Pos(fn.Pos()), detail)
	}
	R.Floor(rule, 100)
}

func (a *An) c15Writers() {
	fld := a.MustField("Conversation", "theirInstanceTag")
	if fld == nil {
		return
	}
	for _, st := range a.StoresTo(fld) {
		fn := a.C.Name(a.C.owner(st.Parent()))
		key := "write|theirInstanceTag|" + fn
		if fn == "(otrV3).verifyInstanceTags" {
			a.R.Ok("W.peer-tag", key, "peer tag written by the validating function", a.C.InstrPos(st))
			continue
		}
		// allowed elsewhere: restoring a snapshot taken earlier in the same function
		isRestore := false
		if ld, ok := st.Val.(*ssa.UnOp); ok {
			if a.C.rel(a.C.pathOf(ld.X)) == a.C.rel(a.C.pathOf(st.Addr)) && instrDominates(ld, st) {
				isRestore = true
			}
		}
		a.R.Check(isRestore, "W.peer-tag", key, "outside verifyInstanceTags the peer tag is only restored from a snapshot", a.C.InstrPos(st),
			fn+" stores "+a.C.Term(st.Val)+" into theirInstanceTag")
		// ... and only when the message or fragment was refused (an unconditional restore un-binds every accepted one)
		if isRestore {
			cond := false
			for _, fact := range a.F.LocalAt(st).List() {
				if strings.HasPrefix(fact, "@fail:") || strings.HasPrefix(fact, "fail:") || strings.HasPrefix(fact, "passed:!") || strings.HasSuffix(fact, " != nil)") {
					cond = true
				}
			}
			// or structurally: the store is on the "error is not nil" / "not ok" side of a dominating test
			for b := st.Block(); b != nil && !cond; b = b.Idom() {
				d := b.Idom()
				if d == nil {
					break
				}
				iff, isIf := d.Instrs[len(d.Instrs)-1].(*ssa.If)
				if !isIf {
					continue
				}
				side := -1
				if d.Succs[0] == b || d.Succs[0].Dominates(b) && !d.Succs[1].Dominates(b) {
					side = 0
				} else if d.Succs[1] == b || d.Succs[1].Dominates(b) {
					side = 1
				}
				switch c := iff.Cond.(type) {
				case *ssa.BinOp:
					errCmp := (isNilConst(c.Y) && isErrorType(c.X.Type())) || (isNilConst(c.X) && isErrorType(c.Y.Type()))
					if errCmp && (c.Op == token.NEQ && side == 0 || c.Op == token.EQL && side == 1) {
						cond = true
					}
				case *ssa.UnOp:
					if c.Op == token.NOT && side == 0 {
						cond = true
					}
				default:
					if isBoolType(iff.Cond.Type()) && side == 1 {
						cond = true // the "not ok" side of a plain bool verdict
					}
				}
			}
			a.R.Check(cond, "W.peer-tag", key+"|on-reject", "the snapshot is restored on the rejecting path only", a.C.InstrPos(st), fn+" restores the peer tag without a refusal on the way: accepting a message or fragment never binds the conversation to its sender")
		}
	}
	a.R.Floor("W.peer-tag", 1)
}

func (a *An) c15Dispatch() {
	// every dispatch in receiveDecoded is behind version check and header parsing
	for _, name := range []string{"(*Conversation).receiveDataMessage", "(*Conversation).receiveAKEMessage"} {
		fn := a.MustFn(name)
		cnt := map[string]int{}
		for _, cs := range a.CallSites(fn) {
			a.Gate("G.dispatch", ordinalKey(a.C.Name(cs.Parent())+"|call "+name, cnt), cs, "dispatch of a decoded message",
				"ok:(*Conversation).checkVersion", "ok:(*Conversation).parseMessageHeader")
		}
	}
	a.R.Floor("G.dispatch", 4)
	// v3 header parser accepts only behind the tag check
	if fn := a.MustFn("(otrV3).parseMessageHeader"); fn != nil {
		a.R.Check(a.F.MustOK(fn).Has("ok:(otrV3).verifyInstanceTags"), "G.v3-header", "otrV3.parseMessageHeader|success", "a successfully parsed v3 header passed verifyInstanceTags", a.C.Pos(fn.Pos()),
			"otrV3.parseMessageHeader can report success without a successful verifyInstanceTags")
	}
	// fragment prefix: every (ignore=false, ok=true) return passed the tag check; the error values of
	// verifyInstanceTags are enumerated so that the switch in parseFragmentPrefix is known to be exhaustive
	a.c15FragmentPrefix()
	// fragments: appendFragment / restartFragment only behind a successful prefix and fragment parse, and not for foreign instances
	if rf := a.MustFn("(*Conversation).receiveFragment"); rf != nil {
		for _, callee := range []string{"(fragmentationContext).appendFragment", "restartFragment"} {
			for _, cs := range a.CallsIn(rf, callee) {
				fs := a.F.LocalAt(cs)
				var missing []string
				for _, w := range []string{"ok:(*Conversation).parseFragmentPrefix", "ok:parseFragment"} {
					if !fs.Has(w) {
						missing = append(missing, w)
					}
				}
				a.R.Check(len(missing) == 0, "G.fragment-store", "receiveFragment|call "+callee, "fragment data is stored only after prefix (incl. instance tags) and fragment were parsed", a.C.InstrPos(cs),
					"missing: "+strings.Join(missing, ", "))
			}
		}
		a.R.Floor("G.fragment-store", 2)
	}
}

func (a *An) errValueSet(fn *ssa.Function) (vals []string, exact bool) {
	exact = true
	seen := map[string]bool{}
	si := statusIndex(fn.Signature)
	for _, b := range fn.Blocks {
		ret, ok := b.Instrs[len(b.Instrs)-1].(*ssa.Return)
		if !ok || si < 0 {
			continue
		}
		var add func(v ssa.Value, d int)
		add = func(v ssa.Value, d int) {
			if phi, ok := v.(*ssa.Phi); ok && d < 4 {
				for _, e := range phi.Edges {
					add(e, d+1)
				}
				return
			}
			t := a.C.Term(v)
			if !strings.HasPrefix(t, "global:") && t != "nil" {
				exact = false
			}
			if !seen[t] {
				seen[t] = true
				vals = append(vals, t)
			}
		}
		add(ret.Results[si], 0)
	}
	return
}

func (a *An) c15FragmentPrefix() {
	fn := a.MustFn("(otrV3).parseFragmentPrefix")
	vit := a.MustFn("(otrV3).verifyInstanceTags")
	if fn == nil || vit == nil {
		return
	}
	vals, exact := a.errValueSet(vit)
	if !exact {
		a.R.Undec("G.v3-fragment", "parseFragmentPrefix|error-values", "verifyInstanceTags returns only nil or package-level error values", a.C.Pos(vit.Pos()), "returns "+strings.Join(vals, ", "))
		return
	}
	calls := a.CallsIn(fn, "(otrV3).verifyInstanceTags")
	if len(calls) != 1 {
		a.R.Viol("G.v3-fragment", "parseFragmentPrefix|tag-check", "the fragment prefix parser checks the instance tags", a.C.Pos(fn.Pos()), fmt.Sprintf("%d calls of verifyInstanceTags", len(calls)))
		return
	}
	vcall := calls[0].(*ssa.Call)
	for _, ev := range vals {
		ev := ev
		oracle := func(p *Path, cond ssa.Value) Tri {
			v := p.Resolve(cond)
			if b, ok := v.(*ssa.BinOp); ok {
				x, y := p.Resolve(b.X), p.Resolve(b.Y)
				var other ssa.Value
				if x == ssa.Value(vcall) {
					other = y
				} else if y == ssa.Value(vcall) {
					other = x
				}
				if other != nil {
					t := a.C.Term(other)
					eq := t == ev
					if b.Op.String() == "==" {
						return triOf(eq)
					}
					if b.Op.String() == "!=" {
						return triOf(!eq)
					}
				}
			}
			return Unknown
		}
		paths, complete := a.C.Paths(fn, oracle, 512)
		key := "parseFragmentPrefix|verifyInstanceTags=" + ev
		if !complete {
			a.R.Undec("G.v3-fragment", key, "enumerate paths", a.C.Pos(fn.Pos()), "incomplete")
			continue
		}
		ok := true
		detail := ""
		for _, p := range paths {
			if p.Ret == nil {
				continue
			}
			called := false
			for _, in := range p.Instrs {
				if in == ssa.Instruction(vcall) {
					called = true
				}
			}
			ign, okv := p.Resolve(p.Ret.Results[1]), p.Resolve(p.Ret.Results[2])
			accept := a.C.Term(okv) != "false" && a.C.Term(ign) != "true"
			ignore := a.C.Term(ign) == "true"
			switch {
			case !called:
				if accept {
					ok, detail = false, "accepts a prefix without checking the instance tags"
				}
			case ev == "nil":
				if !accept {
					ok, detail = false, "valid tags but the prefix is not accepted"
				}
			case ev == "global:errReceivedMessageForOtherInstance":
				if !ignore {
					ok, detail = false, "a fragment for another instance is not ignored"
				}
			default:
				if accept || ignore {
					ok, detail = false, "a fragment with invalid tags is accepted or silently ignored (outcome ignore="+a.C.Term(ign)+" ok="+a.C.Term(okv)+")"
				}
			}
		}
		a.R.Check(ok, "G.v3-fragment", key, "fragment prefix outcome for tag check result "+ev, a.C.Pos(fn.Pos()), detail)
	}
	a.R.Floor("G.v3-fragment", 3)
}

func (a *An) c15Layout() {
	R := a.R
	rule := "L.tags"
	// writer
	if fn := a.MustFn("(otrV3).messageHeader"); fn != nil {
		found := false
		for _, b := range fn.Blocks {
			ret, ok := b.Instrs[len(b.Instrs)-1].(*ssa.Return)
			if !ok || isNilConst(ret.Results[0]) {
				continue
			}
			found = true
			fs := a.C.WriterFields(ret.Results[0])
			got := fieldsStr(fs)
			okL := len(fs) == 4 && fs[0].Kind == "SHORT" && fs[1].Kind == "BYTE" && fs[1].Term == "$msgType" &&
				fs[2].Kind == "WORD" && fs[2].Term == "Conversation.ourInstanceTag" && fs[3].Kind == "WORD" && fs[3].Term == "Conversation.theirInstanceTag"
			R.Check(okL, rule, "otrV3.messageHeader|layout", "v3 header = SHORT version, BYTE type, WORD own tag (sender), WORD peer tag (receiver)", a.C.InstrPos(ret), "writes "+got)
		}
		if !found {
			R.Viol(rule, "otrV3.messageHeader|layout", "v3 header writer returns a header", a.C.Pos(fn.Pos()), "no non-nil return")
		}
	}
	// reader in the conversation
	if fn := a.MustFn("(otrV3).parseMessageHeader"); fn != nil {
		calls := a.CallsIn(fn, "(otrV3).verifyInstanceTags")
		if len(calls) != 1 {
			R.Viol(rule, "otrV3.parseMessageHeader|tags", "header reader checks the tags once", a.C.Pos(fn.Pos()), fmt.Sprintf("%d calls", len(calls)))
		} else {
			args := calls[0].Common().Args
			k1, o1, ok1 := a.C.ReadAt(args[2])
			k2, o2, ok2 := a.C.ReadAt(args[3])
			good := ok1 && ok2 && k1 == "ExtractWord" && k2 == "ExtractWord" && !o1.Var && !o2.Var && o1.Off == 3 && o2.Off == 7 && o1.Base == o2.Base
			if good {
				_, isParam := o1.Base.(*ssa.Parameter)
				good = isParam
			}
			d := ""
			if ok1 && ok2 {
				d = "sender read at " + o1.String(a.C) + ", receiver at " + o2.String(a.C)
			} else {
				d = "tag arguments are " + a.C.Term(args[2]) + " / " + a.C.Term(args[3])
			}
			R.Check(good, rule, "otrV3.parseMessageHeader|offsets", "sender tag read as WORD at offset 3, receiver tag at offset 7 of the message, passed as (their, our)", a.C.InstrPos(calls[0]), d)
		}
	}
	// public helper
	if fn := a.MustFn("ExtractInstanceTags"); fn != nil {
		nmsg, nfrag := 0, 0
		for _, ret := range a.returnsDeep(fn, 0) {
			if len(ret.Results) != 3 || a.C.Term(ret.Results[2]) != "true" {
				continue
			}
			k1, o1, ok1 := a.C.ReadAt(ret.Results[0])
			k2, o2, ok2 := a.C.ReadAt(ret.Results[1])
			if ok1 || ok2 {
				nmsg++
				good := ok1 && ok2 && k1 == "ExtractWord" && k2 == "ExtractWord" && !o1.Var && !o2.Var && o1.Off == 7 && o2.Off == 3 && o1.Base == o2.Base
				d := "returns (" + a.C.Term(ret.Results[0]) + ", " + a.C.Term(ret.Results[1]) + ")"
				if ok1 && ok2 {
					d = "ours read at " + o1.String(a.C) + ", theirs at " + o2.String(a.C)
				}
				R.Check(good, rule, "ExtractInstanceTags|message", "helper returns (receiver tag @7, sender tag @3) of the decoded message", a.C.InstrPos(ret), d)
				continue
			}
			nfrag++
			t0, t1 := a.C.Term(ret.Results[0]), a.C.Term(ret.Results[1])
			good := strings.HasPrefix(t0, "parseItag(") && strings.Contains(t0, "[2])") && strings.HasPrefix(t1, "parseItag(") && strings.Contains(t1, "[1])")
			R.Check(good, rule, "ExtractInstanceTags|fragment", "helper returns (third, second) '|'-separated field of a v3 fragment prefix", a.C.InstrPos(ret), "returns ("+t0+", "+t1+")")
		}
		R.Check(nmsg == 1 && nfrag == 1, rule, "ExtractInstanceTags|branches", "helper has one accepting return for messages and one for fragments", a.C.Pos(fn.Pos()), fmt.Sprintf("%d message / %d fragment accepting returns", nmsg, nfrag))
	}
	// fragment prefix: reader fields and writer format
	if fn := a.MustFn("(otrV3).parseFragmentPrefix"); fn != nil {
		calls := a.CallsIn(fn, "(otrV3).verifyInstanceTags")
		if len(calls) == 1 {
			args := calls[0].Common().Args
			t1, t2 := a.C.Term(args[2]), a.C.Term(args[3])
			good := strings.HasPrefix(t1, "parseItag(") && strings.Contains(t1, "[1])") && strings.HasPrefix(t2, "parseItag(") && strings.Contains(t2, "[2])")
			R.Check(good, rule, "otrV3.parseFragmentPrefix|fields", "sender = second, receiver = third '|'-separated field", a.C.InstrPos(calls[0]), "their="+t1+" our="+t2)
		}
	}
	if fn := a.MustFn("(otrV3).fragmentPrefix"); fn != nil {
		var sp *ssa.Call
		for _, b := range fn.Blocks {
			for _, in := range b.Instrs {
				if c, ok := in.(*ssa.Call); ok && a.F.callName(c) == "fmt.Sprintf" {
					sp = c
				}
			}
		}
		if sp == nil {
			R.Undec(rule, "otrV3.fragmentPrefix|format", "prefix built with fmt.Sprintf", a.C.Pos(fn.Pos()), "no Sprintf call")
		} else {
			format := a.C.Term(sp.Call.Args[0])
			elems := a.C.variadicElems(sp.Call.Args[1])
			var ts []string
			for _, e := range elems {
				ts = append(ts, a.C.Term(e))
			}
			want := `"%s%08x|%08x,%05d,%05d,"`
			R.Check(format == want, rule, "otrV3.fragmentPrefix|format", "v3 fragment prefix format is "+want, a.C.InstrPos(sp), "format is "+format)
			okArgs := len(ts) == 5 && strings.Contains(ts[1], "$itags") && strings.Contains(ts[2], "$itagr") && strings.Contains(ts[3], "($n + 1)") && strings.Contains(ts[4], "$total")
			R.Check(okArgs, rule, "otrV3.fragmentPrefix|args", "arguments are (prefix, sender tag, receiver tag, index+1, total)", a.C.InstrPos(sp), "arguments: "+strings.Join(ts, ", "))
		}
	}
	if fn := a.MustFn("(*Conversation).fragment"); fn != nil {
		for i, cs := range a.CallsIn(fn, "otrVersion.fragmentPrefix") {
			args := cs.Common().Args
			good := len(args) == 4 && a.C.Term(args[2]) == "Conversation.ourInstanceTag" && a.C.Term(args[3]) == "Conversation.theirInstanceTag"
			R.Check(good, rule, fmt.Sprintf("fragment|prefix-tags#%d", i+1), "fragments carry (own tag, peer tag) as (sender, receiver)", a.C.InstrPos(cs), "tag arguments: "+a.C.Term(args[len(args)-2])+", "+a.C.Term(args[len(args)-1]))
		}
	}
	R.Floor(rule, 9)
}

// returnsDeep: the returns of fn, where a return that merely hands on all results of one call of another function of
// the two packages (return g(x)) is replaced by the returns of that function (two levels at most).
func (a *An) returnsDeep(fn *ssa.Function, depth int) []*ssa.Return {
	var out []*ssa.Return
	for _, r := range a.returnsOf(fn) {
		var call *ssa.Call
		deleg := len(r.Results) > 1 && depth < 2
		for i, v := range r.Results {
			ex, ok := resolveLocal(v).(*ssa.Extract)
			if !ok || ex.Index != i {
				deleg = false
				break
			}
			c, isC := ex.Tuple.(*ssa.Call)
			if !isC || (call != nil && c != call) {
				deleg = false
				break
			}
			call = c
		}
		if deleg && call != nil {
			if g := call.Call.StaticCallee(); g != nil && a.C.isNew(g) {
				out = append(out, a.returnsDeep(g, depth+1)...)
				continue
			}
		}
		out = append(out, r)
	}
	return out
}

// c15RestoreOnReject: in the two functions that run the tag check and then a handler (receiveDecoded, receiveFragment)
// every path that went through a handler and may return an error either took the "no error" branch of a test of that
// error or restored the snapshot of the peer tag: a message that is rejected does not bind the conversation.
func (a *An) c15RestoreOnReject(rule string) {
	R := a.R
	fld := a.MustField("Conversation", "theirInstanceTag")
	for _, spec := range []struct {
		fn       string
		handlers []string
	}{
		{"(*Conversation).receiveDecoded", []string{"(*Conversation).receiveDataMessage", "(*Conversation).receiveAKEMessage"}},
		// a fragment: the tag is adopted while its prefix is parsed; every way of refusing the fragment afterwards puts it back
		{"(*Conversation).receiveFragment", []string{"(*Conversation).parseFragmentPrefix"}},
	} {
		f := a.MustFn(spec.fn)
		if f == nil || fld == nil {
			continue
		}
		si := statusIndex(f.Signature)
		// the same test of the same value decides the same way each time it is met on a path
		consistent := func(p *Path, cond ssa.Value) Tri {
			t := a.C.Term(p.Resolve(cond))
			for _, d := range p.Decisions {
				if a.C.Term(p.Resolve(d.If.Cond)) == t {
					return triOf(d.Truth)
				}
			}
			return Unknown
		}
		paths, complete := a.C.Paths(f, consistent, 512)
		n, good, bad := 0, complete, ""
		nData, dataGood, dataBad := 0, complete, ""
		for _, p := range paths {
			if p.Ret == nil || si < 0 {
				continue
			}
			through := false
			for _, in := range p.Instrs {
				if call, ok := in.(ssa.CallInstruction); ok {
					for _, h := range spec.handlers {
						if a.F.callName(call) == h {
							through = true
						}
					}
				}
			}
			if !through {
				continue
			}
			n++
			restored, testedNil := false, false
			for _, in := range p.Instrs {
				if st, ok := in.(*ssa.Store); ok {
					if fa, isFA := st.Addr.(*ssa.FieldAddr); isFA && fieldOf(fa) == fld {
						if ld, isLd := st.Val.(*ssa.UnOp); isLd && a.C.rel(a.C.pathOf(ld.X)) == a.C.rel(a.C.pathOf(st.Addr)) {
							restored = true
						}
					}
				}
			}
			// a data message never binds: its rejection can be silent (the error of a message flagged IGNORE_UNREADABLE
			// is dropped on the way up), so the tag is put back on every path through the data-message handler
			for _, in := range p.Instrs {
				if call, ok := in.(ssa.CallInstruction); ok && a.F.callName(call) == "(*Conversation).receiveDataMessage" {
					nData++
					if !restored {
						dataGood = false
						dataBad = a.C.InstrPos(p.Ret)
					}
				}
			}
			sv := p.Resolve(resolveLocal(p.Ret.Results[si]))
			if isNilConst(sv) {
				continue
			}
			for _, d := range p.Decisions {
				bo, ok := d.If.Cond.(*ssa.BinOp)
				if !ok || !(isNilConst(bo.Y) || isNilConst(bo.X)) {
					continue
				}
				x := bo.X
				if isNilConst(x) {
					x = bo.Y
				}
				if p.Resolve(resolveLocal(x)) != sv {
					continue
				}
				isNil := (bo.Op == token.EQL) == d.Truth
				if isNil {
					testedNil = true
				}
			}
			if !restored && !testedNil {
				good = false
				bad = a.C.InstrPos(p.Ret)
			}
		}
		R.Check(good && n >= 2, rule, spec.fn+"|restore-on-reject", "when a handler rejects the message the peer tag is put back to what it was before the message", a.C.Pos(f.Pos()),
			fmt.Sprintf("a path through a handler returns a possibly non-nil error at %s without restoring the tag (%d paths, complete=%v): a rejected message binds the conversation to its sender", bad, n, complete))
		if spec.fn != "(*Conversation).receiveDecoded" {
			continue
		}
		R.Check(dataGood && nData >= 1, rule, spec.fn+"|data-never-binds", "after a data message the peer tag is what it was before it, whatever the handler reported", a.C.Pos(f.Pos()),
			fmt.Sprintf("a path through the data-message handler returns at %s with the adopted tag kept (%d paths, complete=%v): a data message that is refused silently (IGNORE_UNREADABLE) binds the conversation to whoever sent it", dataBad, nData, complete))
	}
}
