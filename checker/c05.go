package main

import (
	"fmt"
	"strings"

	"golang.org/x/tools/go/ssa"
)

func init() {
	register("C05", "Structural clause decided: the replay test compares the message's big-endian counter with the stored one by strict order (< and = reject, > accepts and stores the message's counter into the same record), the record is found per (recipient key id, sender key id) of the message with both ids matched, plaintext/TLVs/rotation are behind the counter test and the MAC, retired key ids are rejected, a completed key exchange wipes and replaces all key material, and a reassembled fragment stream is dispatched only after the fragment context was reset. Not decided: at-most-once delivery over arbitrary duplicating networks end to end.",
		func(a *An) {
			a.c05CounterTable()
			auth, counter := a.dataAuthFacts()
			full := append(append([]string{}, auth...), counter)
			for _, name := range []string{"(*Conversation).processTLVs", "(*Conversation).rotateKeys", "(*plainDataMsg).decrypt"} {
				fn := a.MustFn(name)
				cnt := map[string]int{}
				for _, cs := range a.CallSites(fn) {
					a.Gate("G.replay-gate", ordinalKey(a.C.Name(cs.Parent())+"|call "+name, cnt), cs, "call of "+name, full...)
				}
			}
			a.R.Floor("G.replay-gate", 3*len(full))
			a.counterStoreGate("G.counter-store", auth)
			a.pickKeysTable()
			a.retireOrder("S.retire-order")
			a.c05NewSession()
			a.c05Retire()
			a.freshExponentWriters("W.exponent")
			a.retireImpliesMove()
			a.fragmentResetBeforeDispatch("S.fragment-reset")
		})
}

func (a *An) c05CounterTable() {
	R := a.R
	rule := "P.counter"
	fn := a.MustFn("(*keyManagementContext).checkMessageCounter")
	if fn == nil {
		return
	}
	// record lookup keyed by the message's ids
	if c := a.uniqueCall(rule, fn, "(*counterHistory).findCounterFor"); c != nil {
		a.TermIs(rule, "checkMessageCounter|record-our", "record key: our id = recipient key id of the message", c, c.Call.Args[1], "$message.recipientKeyID", "dataMsg.recipientKeyID")
		a.TermIs(rule, "checkMessageCounter|record-their", "record key: their id = sender key id of the message", c, c.Call.Args[2], "$message.senderKeyID", "dataMsg.senderKeyID")
		recT := a.C.Term(c)
		// find the comparison between the message counter and the stored counter
		var newT string
		for _, b := range fn.Blocks {
			for _, in := range b.Instrs {
				if call, ok := in.(*ssa.Call); ok && strings.HasSuffix(a.F.callName(call), ".Uint64") {
					newT = a.C.Term(call)
					R.Check(strings.Contains(newT, "topHalfCtr"), rule, "checkMessageCounter|new-operand", "the compared value is the big-endian counter of the message", a.C.InstrPos(call), "it is "+newT)
				}
			}
		}
		storedT := "ret:(*counterHistory).findCounterFor.theirCounter"
		_ = recT
		fld := a.MustField("keyPairCounter", "theirCounter")
		for _, ord := range []struct {
			name   string
			nv, sv int64
			accept bool
		}{{"new<stored", 5, 9, false}, {"new=stored", 9, 9, false}, {"new>stored", 10, 9, true}} {
			vals := valCase{newT: ord.nv, storedT: ord.sv}
			paths, complete := a.C.Paths(fn, a.C.valOracle(vals, nil), 64)
			key := "checkMessageCounter|" + ord.name
			if !complete || len(paths) == 0 || newT == "" {
				R.Undec(rule, key, "enumerate paths", a.C.Pos(fn.Pos()), "incomplete or counter operand not found")
				continue
			}
			ok, detail := true, ""
			for _, p := range paths {
				if p.Ret == nil {
					continue
				}
				tri := a.F.ErrTri(p, p.Ret.Results[0])
				stored := ""
				for _, in := range p.Instrs {
					if st, isSt := in.(*ssa.Store); isSt {
						if fa, isFA := st.Addr.(*ssa.FieldAddr); isFA && fieldOf(fa) == fld {
							stored = a.C.Term(st.Val)
							if fa.X != ssa.Value(c) {
								ok, detail = false, "the counter is stored into a different record than the one compared"
							}
						}
					}
				}
				if len(p.Decisions) == 0 || !p.Decisions[0].Forced && len(p.Decisions) == 1 {
					ok, detail = false, "the outcome does not depend on the order of the two counters (decisions: "+decisionsStr(p)+")"
				}
				if ord.accept {
					if tri != True {
						ok, detail = false, "a larger counter is not accepted"
					}
					if stored != newT {
						ok, detail = false, "accepting path must store the message's counter; stored "+stored
					}
				} else {
					if tri != False {
						ok, detail = false, "a counter not larger than the stored one is accepted or may be accepted"
					}
					if stored != "" {
						ok, detail = false, "rejecting path stores "+stored
					}
				}
			}
			R.Check(ok, rule, key, fmt.Sprintf("counter test outcome for %s: accept=%v", ord.name, ord.accept), a.C.Pos(fn.Pos()), detail)
		}
	}
	a.counterRecordLookup(rule)
	R.Floor(rule, 8)
}

// a completed exchange wipes the old key context and installs the one of the exchange
func (a *An) c05NewSession() {
	R := a.R
	rule := "S.new-session"
	fn := a.MustFn("(*Conversation).akeHasFinished")
	fld := a.MustField("Conversation", "keys")
	if fn == nil || fld == nil {
		return
	}
	n := 0
	for _, st := range a.DirectStoresTo(fld) {
		if !a.C.within(st, fn) {
			continue
		}
		n++
		a.TermIs(rule, "akeHasFinished|install", "installed key context", st, st.Val, "Conversation.ake.keys")
		R.Check(a.F.LocalAt(st).Has("called:(*keyManagementContext).wipe[Conversation.keys]"), rule, "akeHasFinished|wipe-old", "the old session keys are wiped before being replaced", a.C.InstrPos(st), "no dominating wipe of Conversation.keys")
	}
	R.Check(n == 1, rule, "akeHasFinished|replace", "akeHasFinished replaces the whole key context once", a.C.Pos(fn.Pos()), fmt.Sprintf("%d stores", n))
	if c := a.uniqueCall(rule, fn, "(*Conversation).generateNewDHKeyPair"); c != nil {
		R.Ok(rule, "akeHasFinished|rotate", "a fresh DH pair is generated on completion", a.C.InstrPos(c))
	}
}

// fragmentResetBeforeDispatch: the dispatch of a reassembled message (recursive receiveUnit) happens only
// after the fragmentation context was reset, or the reset follows on every path to the exit.
func (a *An) fragmentResetBeforeDispatch(rule string) {
	R := a.R
	fn := a.MustFn("(*Conversation).receiveUnit")
	fld := a.MustField("Conversation", "fragmentationContext")
	if fn == nil || fld == nil {
		return
	}
	var resets []ssa.Instruction
	for _, st := range a.DirectStoresTo(fld) {
		if !a.C.within(st, fn) {
			continue
		}
		t := a.C.Term(st.Val)
		if t == "forgetFragment()" || strings.HasPrefix(t, "fragmentationContext{") {
			resets = append(resets, st)
		}
	}
	n := 0
	for _, cs := range a.CallsIn(fn, "(*Conversation).receiveUnit") {
		n++
		ok := false
		for _, rs := range resets {
			if instrDominates(rs, cs) && a.F.LocalAt(rs).Has("ok:fragmentsFinished") {
				ok = true
			}
		}
		if !ok {
			// reset on every path from the dispatch to the exit
			all := true
			for _, r := range a.returnsOf(fn) {
				if canReach(cs, r) && reachesAvoiding(cs, r, resets, nil) {
					all = false
				}
			}
			ok = all && len(resets) > 0
		}
		R.Check(ok, rule, "receiveUnit|dispatch-reassembled", "the fragment context is reset when a completed stream is dispatched", a.C.InstrPos(cs),
			"a completed fragment stream is dispatched while the context stays complete: any later fragment makes it complete again and the message is processed a second time")
		// the dispatched bytes are the assembled fragment buffer
		t := a.C.Term(cs.Common().Args[1])
		R.Check(strings.Contains(t, "fragmentationContext.frag"), rule, "receiveUnit|dispatch-input", "the dispatched message is the reassembled buffer", a.C.InstrPos(cs), "dispatched "+t)
		a.GateLocal(rule, "receiveUnit|dispatch-guard", cs, "dispatch of the reassembled message", "ok:fragmentsFinished")
	}
	R.Check(n == 1, rule, "receiveUnit|dispatch-site", "exactly one dispatch of reassembled messages", a.C.Pos(fn.Pos()), fmt.Sprintf("%d", n))
}

// c05Retire: a replay record is erased only when its generation is retired (or the whole context is wiped): the
// per-record wipe is called from the history's wipe and from forgetCounters only, and in forgetCounters exactly the
// record handed to the retire predicate is wiped, under the predicate's true outcome; the records kept are those
// for which it was false.
func (a *An) c05Retire() {
	R := a.R
	rule := "P.counter-retire"
	a.WhoMayCall(rule, a.MustFn("(*keyPairCounter).wipe"), "(*counterHistory).wipe", "(*counterHistory).forgetCounters")
	fn := a.MustFn("(*counterHistory).forgetCounters")
	if fn == nil {
		return
	}
	nw, nk := 0, 0
	for _, b := range fn.Blocks {
		for _, in := range b.Instrs {
			writes := false
			for _, ef := range a.E.InstrEffects(in) {
				if ab := a.C.abs(fn, ef.Path); strings.HasPrefix(ab, "keyPairCounter.") || strings.HasPrefix(ab, "counterHistory.counters[].") {
					writes = true
				}
			}
			if writes {
				nw++
				var target ssa.Value
				switch x := in.(type) {
				case ssa.CallInstruction:
					if len(x.Common().Args) > 0 {
						target = x.Common().Args[0]
					}
				case *ssa.Store:
					if fa, ok := x.Addr.(*ssa.FieldAddr); ok {
						target = fa.X
					}
				}
				ok := false
				for _, pc := range predicateCalls(fn) {
					if len(pc.Call.Args) == 1 && pc.Call.Args[0] == target && a.F.LocalAt(in).Has("@ok:"+pc.Name()) {
						ok = true
					}
				}
				R.Check(ok, rule, ordinalKey("forgetCounters|erase", map[string]int{}), "a record is erased only when the retire predicate held for that very record", a.C.InstrPos(in),
					"the erased record is not the one the predicate was asked about, or the erase is not under the predicate's true outcome: a live replay counter is zeroed and old messages under a surviving key pair are accepted again")
			}
			if call, ok := in.(*ssa.Call); ok {
				if bi, isB := call.Call.Value.(*ssa.Builtin); isB && bi.Name() == "append" {
					nk++
					elems := a.C.variadicElems(call.Call.Args[1])
					ok := false
					for _, pc := range predicateCalls(fn) {
						if len(elems) == 1 && len(pc.Call.Args) == 1 && pc.Call.Args[0] == elems[0] && a.F.LocalAt(in).Has("@fail:"+pc.Name()) {
							ok = true
						}
					}
					R.Check(ok, rule, "forgetCounters|keep", "the records kept are exactly those the retire predicate rejected", a.C.InstrPos(in), "a record is kept without (or against) the predicate's outcome for it")
				}
			}
		}
	}
	R.Check(nw >= 1 && nk >= 1, rule, "forgetCounters|shape", "forgetCounters erases retired records and keeps the others", a.C.Pos(fn.Pos()), fmt.Sprintf("%d erasing instructions, %d keeps", nw, nk))
	// the history slice is replaced by the kept records
	for _, st := range a.DirectStoresTo(a.MustField("counterHistory", "counters")) {
		if !a.C.within(st, fn) {
			continue
		}
		t := a.C.Term(st.Val)
		R.Check(strings.Contains(t, "append("), rule, "forgetCounters|replace", "the history becomes the kept records", a.C.InstrPos(st), "stores "+t)
	}
	R.Floor(rule, 5)
}

// predicateCalls: calls of a function-typed parameter inside fn.
func predicateCalls(fn *ssa.Function) []*ssa.Call {
	var out []*ssa.Call
	for _, b := range fn.Blocks {
		for _, in := range b.Instrs {
			if call, ok := in.(*ssa.Call); ok {
				if _, isP := call.Call.Value.(*ssa.Parameter); isP {
					out = append(out, call)
				}
			}
		}
	}
	return out
}

// counterRecordLookup: the counter records are kept per pair of key ids: an existing record is handed out only when both
// ids match, a new one carries the ids asked for. (A record shared between pairs makes the first message under a new
// pair look like a replay: a genuine message is lost.)
func (a *An) counterRecordLookup(rule string) {
	R := a.R
	// findCounterFor matches on both ids
	if ff := a.MustFn("(*counterHistory).findCounterFor"); ff != nil {
		n := 0
		for _, r := range a.returnsOf(ff) {
			if _, isAlloc := r.Results[0].(*ssa.Alloc); isAlloc {
				continue // the freshly created record
			}
			n++
			fs := a.F.LocalAt(r)
			okBoth := false
			var have []string
			for _, f := range fs.List() {
				if strings.HasPrefix(f, "passed:(") && strings.Contains(f, " == ") {
					have = append(have, f)
				}
			}
			hasOur, hasTheir := false, false
			for _, f := range have {
				if strings.Contains(f, "$ourKeyID") && strings.Contains(f, ".ourKeyID") {
					hasOur = true
				}
				if strings.Contains(f, "$theirKeyID") && strings.Contains(f, ".theirKeyID") {
					hasTheir = true
				}
			}
			okBoth = hasOur && hasTheir
			R.Check(okBoth, rule, "findCounterFor|match-both", "an existing record is returned only when both key ids match", a.C.InstrPos(r), "equalities passed: "+strings.Join(have, "; "))
		}
		R.Check(n >= 1, rule, "findCounterFor|lookup", "findCounterFor returns existing records", a.C.Pos(ff.Pos()), "no return of an existing record")
		// a new record carries the requested ids
		for _, b := range ff.Blocks {
			for _, in := range b.Instrs {
				st, ok := in.(*ssa.Store)
				if !ok {
					continue
				}
				if fa, ok := st.Addr.(*ssa.FieldAddr); ok {
					if _, isAlloc := fa.X.(*ssa.Alloc); isAlloc {
						switch fieldOf(fa).Name() {
						case "ourKeyID":
							a.TermIs(rule, "findCounterFor|new-our", "new record our id", st, st.Val, "$ourKeyID")
						case "theirKeyID":
							a.TermIs(rule, "findCounterFor|new-their", "new record their id", st, st.Val, "$theirKeyID")
						}
					}
				}
			}
		}
	}
}
