package main

import (
	"fmt"
	"sort"
	"strings"

	"golang.org/x/tools/go/ssa"
)

func init() {
	register("C12", "Structural clause decided: (table) every SMP handler returns smpStateExpect1 on every path except its one full-success path, the abort helpers return (EXPECT1, abort message), an abort TLV resets to EXPECT1, and the only handlers that consume a message are those of the expecting state; (use-after-verify) every use of a peer SMP message — generating the reply, the final comparison, storing it in the waiting state, the success event — is behind the successful verifier of that message, whatever function it appears in; (verifiers) each verifier range-checks every group element of its message through the version's isGroupElement and checks every zero-knowledge proof with the specified index before accepting; (siblings) every implementation of otrVersion.isGroupElement implies the package-level range check; (dispatch) no dispatch on a nil SMP state; (parsing) each toSmpMessageN requires its element count; (user calls) a start in a running exchange sends the abort before the new first message, and Start/Provide establish the state machine first. Not decided: that a subsequent honest run succeeds; the number theory.",
		func(a *An) {
			a.smpStateWriters("W.smp-state")
			a.smpStateCommittedLast("S.smp-commit-last")
			a.zkpFormulas("P.zkp-formulas")
			a.smpAcceptConditions("P.smp-accept")
			a.smpTable("T.smp-table")
			a.smpUseAfterVerify("G.smp-verify")
			a.smpVerifiers("P.smp-verifiers")
			a.smpSiblings("P.group-siblings")
			a.smpNil("U.nil")
			a.smpParsing("U.smp-counts")
			a.smpUserCalls("P.smp-user-calls")
			// "never a crash": the undischarged bounds checks and the divisions on the SMP paths
			a.boundsTableFor("U.bounds", "(*Conversation).receiveSMP", "(*Conversation).processSMPTLV", "(*Conversation).StartAuthenticate", "(*Conversation).ProvideAuthenticationSecret", "(*Conversation).AbortAuthentication", "(tlv).smpMessage")
			a.closedBigOps("U.bigint-ops", "(*Conversation).receiveSMP", "(*Conversation).processSMPTLV", "(*Conversation).StartAuthenticate", "(*Conversation).ProvideAuthenticationSecret", "(tlv).smpMessage")
		})
}

func (a *An) smpHandlers() []*ssa.Function {
	var out []*ssa.Function
	for _, f := range a.C.FuncSeq {
		if f.Signature.Recv() == nil || f.Blocks == nil {
			continue
		}
		if !strings.HasPrefix(typeName(f.Signature.Recv().Type()), "smpState") {
			continue
		}
		n := f.Name()
		if strings.HasPrefix(n, "receiveMessage") || n == "continueMessage1" {
			out = append(out, f)
		}
	}
	sort.Slice(out, func(i, j int) bool { return a.C.Name(out[i]) < a.C.Name(out[j]) })
	return out
}

// stateOf classifies a returned smpState value.
func (a *An) smpStateOf(p *Path, v ssa.Value, depth int) string {
	v = p.Resolve(v)
	switch x := v.(type) {
	case *ssa.MakeInterface:
		return typeName(x.X.Type())
	case *ssa.Extract:
		if call, ok := x.Tuple.(*ssa.Call); ok && depth < 4 {
			if sc := call.Call.StaticCallee(); sc != nil && a.C.IsLib(sc) {
				// a helper returning (state, message, error): all its returns must agree
				res := ""
				ps, _ := a.C.Paths(sc, nil, 64)
				for _, q := range ps {
					if q.Ret == nil || len(q.Ret.Results) <= x.Index {
						continue
					}
					s := a.smpStateOf(q, q.Ret.Results[x.Index], depth+1)
					if res != "" && res != s {
						return "?mixed"
					}
					res = s
				}
				return res
			}
		}
	}
	return "?" + a.C.Term(v)
}

func (a *An) smpTable(rule string) {
	R := a.R
	want := map[string]string{ // handler -> state after its full-success path
		"(smpStateExpect1).receiveMessage1":           "smpStateWaitingForSecret",
		"(smpStateWaitingForSecret).continueMessage1": "smpStateExpect3",
		"(smpStateExpect2).receiveMessage2":           "smpStateExpect4",
		"(smpStateExpect3).receiveMessage3":           "smpStateExpect1",
		"(smpStateExpect4).receiveMessage4":           "smpStateExpect1",
	}
	hs := a.smpHandlers()
	for _, h := range hs {
		name := a.C.Name(h)
		paths, complete := a.C.Paths(h, nil, 1024)
		if !complete {
			R.Undec(rule, name, "enumerate paths", a.C.Pos(h.Pos()), "incomplete")
			continue
		}
		succ, isConsumer := want[name]
		if !isConsumer && !strings.HasPrefix(name, "(smpStateBase).") {
			R.Viol(rule, name+"|consumer", "only the state that expects a message defines a handler for it (everything else falls back to the aborting base handlers)", a.C.Pos(h.Pos()),
				name+" is not one of the five specified consuming handlers")
		}
		ok, d := true, ""
		nsucc := 0
		for _, p := range paths {
			if p.Ret == nil {
				continue
			}
			st := a.smpStateOf(p, p.Ret.Results[0], 0)
			// full-success path: every status decision on it is a success
			full := isConsumer
			for _, dc := range p.Decisions {
				if a.F.statusCond(p, dc.If.Cond, true) != Unknown {
					if (a.F.statusCond(p, dc.If.Cond, true) == True) != dc.Truth {
						full = false
					}
				}
			}
			if full {
				nsucc++
				if st != succ {
					ok, d = false, "full-success path leads to "+st+", specified "+succ
				}
				continue
			}
			if st != "smpStateExpect1" {
				ok, d = false, "a path on which a check failed (or an unexpected message arrived) leads to "+st+" instead of smpStateExpect1: "+decisionsStr(p)
			}
		}
		if isConsumer && nsucc == 0 {
			ok, d = false, "no full-success path found"
		}
		R.Check(ok, rule, name, "next state: "+succ+" after full success, smpStateExpect1 otherwise", a.C.Pos(h.Pos()), d)
	}
	// abort helpers
	for _, name := range []string{"abortState", "sendSMPAbortAndRestartStateMachine", "(*Conversation).abortStateMachineAndNotifyCheated", "abortStateMachineAndNotifyError"} {
		f := a.MustFn(name)
		if f == nil {
			continue
		}
		ps, _ := a.C.Paths(f, nil, 32)
		ok, d := len(ps) > 0, ""
		for _, p := range ps {
			if p.Ret == nil {
				continue
			}
			st := a.smpStateOf(p, p.Ret.Results[0], 0)
			if st != "smpStateExpect1" {
				ok, d = false, "returns state "+st
			}
		}
		R.Check(ok, rule, name+"|expect1", "abort helper restarts the state machine in EXPECT1", a.C.Pos(f.Pos()), d)
	}
	if f := a.MustFn("abortState"); f != nil {
		for _, r := range a.returnsOf(f) {
			a.TermIs(rule, "abortState|message", "abort helper emits the abort message", r, r.Results[1], "make(smpMessageAbort)")
		}
	}
	// an abort TLV resets
	if f := a.MustFn("(smpMessageAbort).receivedMessage"); f != nil {
		n := 0
		for _, st := range a.DirectStoresTo(a.MustField("smp", "state")) {
			if a.C.within(st, f) {
				n++
				a.TermIs(rule, "abort-tlv|reset", "state after a received abort", st, st.Val, "make(smpStateExpect1)")
			}
		}
		R.Check(n == 1, rule, "abort-tlv|store", "a received abort resets the state machine", a.C.Pos(f.Pos()), fmt.Sprintf("%d stores", n))
	}
	// the dispatchers store what the handler returned
	for i, name := range []string{"(smp1Message).receivedMessage", "(smp2Message).receivedMessage", "(smp3Message).receivedMessage", "(smp4Message).receivedMessage"} {
		f := a.MustFn(name)
		if f == nil {
			continue
		}
		m := fmt.Sprintf("receiveMessage%d", i+1)
		cs := a.CallsIn(f, "smpState."+m)
		R.Check(len(cs) == 1, rule, name+"|dispatch", "message "+fmt.Sprint(i+1)+" is dispatched to "+m, a.C.Pos(f.Pos()), fmt.Sprintf("%d dispatches", len(cs)))
	}
	R.Floor(rule, 18)
}

// smpUseAfterVerify: uses of peer messages are behind their verifier wherever they occur.
func (a *An) smpUseAfterVerify(rule string) {
	R := a.R
	type use struct{ callee, needs string }
	uses := []use{
		{"(*Conversation).generateSMP3", "ok:(*Conversation).verifySMP2"},
		{"(*Conversation).generateSMP4", "ok:(*Conversation).verifySMP3"},
		{"(*Conversation).verifySMP3ProtocolSuccess", "ok:(*Conversation).verifySMP3"},
		{"(*Conversation).verifySMP4ProtocolSuccess", "ok:(*Conversation).verifySMP4"},
	}
	for _, u := range uses {
		f := a.MustFn(u.callee)
		cnt := map[string]int{}
		for _, cs := range a.CallSites(f) {
			a.GateLocal(rule, ordinalKey(a.C.Name(cs.Parent())+"|call "+u.callee, cnt), cs, "use of a peer SMP message", u.needs)
		}
	}
	// a message is parked in the waiting state only after it was verified
	n := 0
	for _, f := range a.C.FuncSeq {
		for _, b := range f.Blocks {
			for _, in := range b.Instrs {
				mi, ok := in.(*ssa.MakeInterface)
				if !ok || typeName(mi.X.Type()) != "smpStateWaitingForSecret" || typeName(mi.Type()) != "smpState" {
					continue
				}
				if _, isParam := mi.X.(*ssa.Parameter); isParam {
					continue
				}
				if u, isU := mi.X.(*ssa.UnOp); isU {
					if al, isAl := u.X.(*ssa.Alloc); isAl && spilledParam(al) != nil {
						continue
					}
				}
				n++
				a.GateLocal(rule, a.C.Name(f)+"|park message 1", in, "parking the peer's first message until the user answers", "ok:(*Conversation).verifySMP1")
			}
		}
	}
	R.Check(n >= 1, rule, "park-sites", "construction of the waiting state found", "", fmt.Sprintf("%d", n))
	// the parked message is what the second step uses
	if f := a.MustFn("(smpStateWaitingForSecret).continueMessage1"); f != nil {
		if c := a.uniqueCall(rule, f, "(*Conversation).generateSMP2"); c != nil {
			t := a.C.Term(c.Call.Args[2])
			R.Check(strings.HasSuffix(t, ".msg"), rule, "continueMessage1|uses-parked", "the reply is generated from the parked (verified) message", a.C.InstrPos(c), "uses "+t)
		}
	}
	// success events only behind both the proof verification and the final comparison
	ev := a.MustFn("(*Conversation).smpEvent")
	succ := a.MustConst("SMPEventSuccess")
	ns := 0
	for _, cs := range a.CallSites(ev) {
		if a.C.Term(cs.Common().Args[1]) != succ {
			continue
		}
		ns++
		fs := a.F.LocalAt(cs)
		ok3 := fs.Has("ok:(*Conversation).verifySMP3") && fs.Has("ok:(*Conversation).verifySMP3ProtocolSuccess")
		ok4 := fs.Has("ok:(*Conversation).verifySMP4") && fs.Has("ok:(*Conversation).verifySMP4ProtocolSuccess")
		R.Check(ok3 || ok4, rule, a.C.Name(cs.Parent())+"|success-event", "success is reported only after the proofs verified and the final comparison held", a.C.InstrPos(cs), "success event reachable without both checks")
	}
	R.Check(ns == 2, rule, "success-events", "success is reported in exactly two places (responder after message 3, initiator after message 4)", "", fmt.Sprintf("%d", ns))
	R.Floor(rule, 8)
}

func (a *An) smpVerifiers(rule string) {
	ige := func(f string) string { return "passed:otrVersion.isGroupElement(Conversation.version, $msg." + f + ")" }
	_ = ige
	v := "Conversation.version"
	specs := map[string][]string{
		"(*Conversation).verifySMP1": {ige("g2a"), ige("g3a"),
			"passed:verifyZKP($msg.d2, $msg.g2a, $msg.c2, 1, " + v + ")", "passed:verifyZKP($msg.d3, $msg.g3a, $msg.c3, 2, " + v + ")"},
		"(*Conversation).verifySMP2": {ige("g2b"), ige("g3b"), ige("pb"), ige("qb"),
			"passed:verifyZKP($msg.d2, $msg.g2b, $msg.c2, 3, " + v + ")", "passed:verifyZKP($msg.d3, $msg.g3b, $msg.c3, 4, " + v + ")",
			"passed:verifyZKP2(modExpP($msg.g2b, smp1State.a2), modExpP($msg.g3b, smp1State.a3), $msg.d5, $msg.d6, $msg.pb, $msg.qb, $msg.cp, 5, " + v + ")"},
		"(*Conversation).verifySMP3": {ige("pa"), ige("qa"), ige("ra"),
			"passed:verifyZKP3($msg.cp, smp2State.g2, smp2State.g3, $msg.d5, $msg.d6, $msg.pa, $msg.qa, 6, " + v + ")",
			"passed:verifyZKP4($msg.cr, smp2State.g3a, $msg.d7, divMod($msg.qa, smp2State.qb, global:p), $msg.ra, 7, " + v + ")"},
		"(*Conversation).verifySMP4": {ige("rb"),
			"passed:verifyZKP4($msg.cr, smp3State.g3b, $msg.d7, smp3State.qaqb, $msg.rb, 8, " + v + ")"},
	}
	var names []string
	for n := range specs {
		names = append(names, n)
	}
	sort.Strings(names)
	msgType := map[string]string{"(*Conversation).verifySMP1": "smp1Message", "(*Conversation).verifySMP2": "smp2Message", "(*Conversation).verifySMP3": "smp3Message", "(*Conversation).verifySMP4": "smp4Message",
		"(*Conversation).verifySMP3ProtocolSuccess": "smp3Message", "(*Conversation).verifySMP4ProtocolSuccess": "smp4Message"}
	for _, n := range names {
		var want []string
		for _, w := range specs[n] {
			want = append(want, strings.ReplaceAll(w, "$msg.", msgType[n]+"."))
		}
		a.SuccessRequires(rule, a.MustFn(n), want...)
	}
	// final comparisons
	for n, want := range map[string]string{
		"(*Conversation).verifySMP3ProtocolSuccess": "passed:eq(modExpP($msg.ra, smp2State.b3), divMod($msg.pa, smp2State.pb, global:p))",
		"(*Conversation).verifySMP4ProtocolSuccess": "passed:eq(modExpP($msg.rb, smp1State.a3), smp3State.papb)",
	} {
		a.SuccessRequires(rule, a.MustFn(n), strings.ReplaceAll(want, "$msg.", msgType[n]+"."))
	}
	a.R.Floor(rule, 20)
}

func (a *An) smpSiblings(rule string) {
	// every implementation of otrVersion.isGroupElement must imply the package-level range check
	n := 0
	for _, f := range a.C.FuncSeq {
		if f.Name() != "isGroupElement" || f.Signature.Recv() == nil {
			continue
		}
		n++
		mo := a.F.MustOK(f)
		a.R.Check(mo.Has("ok:isGroupElement"), rule, a.C.Name(f), "this version's group-element check implies 2 <= n <= p-2", a.C.Pos(f.Pos()),
			"this implementation of otrVersion.isGroupElement accepts values the package-level check rejects (0, 1, p-1, multiples of p): under this version peer-supplied SMP values reach modular inverses and exponentiations unchecked")
	}
	a.R.Check(n >= 2, rule, "implementations", "implementations of otrVersion.isGroupElement found", "", fmt.Sprintf("%d", n))
	// all SMP verifiers go through the interface method (so the sibling rule covers every site)
	for _, name := range []string{"(*Conversation).verifySMP1", "(*Conversation).verifySMP2", "(*Conversation).verifySMP3", "(*Conversation).verifySMP4"} {
		f := a.MustFn(name)
		if f == nil {
			continue
		}
		cs := a.CallsIn(f, "otrVersion.isGroupElement")
		a.R.Check(len(cs) >= 1, rule, name+"|uses-version-check", "the verifier range-checks through the version's method", a.C.Pos(f.Pos()), "no call")
	}
}

func (a *An) smpNil(rule string) {
	n := newNilAn(a, "Conversation.smp.state")
	cnt := map[string]int{}
	k := 0
	for _, s := range n.derefSites() {
		call, ok := s.in.(ssa.CallInstruction)
		if !ok {
			continue
		}
		k++
		fn := a.C.Name(s.in.Parent())
		key := ordinalKey(fn+"|dispatch "+a.F.callName(call), cnt)
		st, reached := n.stateBefore(s.in)
		a.R.Check(!reached || st[s.cell], rule, key, "the SMP state machine is established (ensureSMP) and not wiped since, on every path to this dispatch", a.C.InstrPos(s.in),
			"c.smp.state may be nil here (fresh conversation, after End/disconnect, or wiped earlier while handling the same message)")
	}
	a.R.Check(k >= 6, rule, "dispatch-sites", "dispatch sites on the SMP state found", "", fmt.Sprintf("%d", k))
}

func (a *An) smpParsing(rule string) {
	for name, cnt := range map[string]string{"toSmpMessage1": "6", "toSmpMessage2": "11", "toSmpMessage3": "8", "toSmpMessage4": "3"} {
		f := a.MustFn(name)
		if f == nil {
			continue
		}
		a.SuccessRequires(rule, f, "ok:ExtractMPIs", "passed:(len(ExtractMPIs(tlv.tlvValue)#1) >= "+cnt+")")
	}
	if f := a.MustFn("toSmpMessage1Q"); f != nil {
		a.SuccessRequires(rule, f, "ok:toSmpMessage1")
	}
	if f := a.MustFn("(*Conversation).processSMPTLV"); f != nil {
		for _, cs := range a.CallsIn(f, "(*Conversation).receiveSMP") {
			a.GateLocal(rule, "processSMPTLV|parsed", cs, "handling an SMP message", "ok:(tlv).smpMessage")
		}
	}
	a.R.Floor(rule, 10)
}

func (a *An) smpUserCalls(rule string) {
	R := a.R
	// restart while running: abort first, then the fresh first message
	if f := a.MustFn("(smpStateBase).startAuthenticate"); f != nil {
		for _, r := range a.returnsOf(f) {
			call, ok := r.Results[0].(*ssa.Call)
			good := false
			d := a.C.Term(r.Results[0])
			if ok {
				if bi, isB := call.Call.Value.(*ssa.Builtin); isB && bi.Name() == "append" {
					first := a.C.variadicElems(call.Call.Args[0])
					t1 := a.C.Term(call.Call.Args[1])
					if len(first) == 1 && strings.HasPrefix(a.C.Term(first[0]), "(smpMessageAbort).tlv(") && strings.HasPrefix(t1, "(smpStateExpect1).startAuthenticate(") {
						good = true
					}
					var ft []string
					for _, e := range first {
						ft = append(ft, a.C.Term(e))
					}
					d = "append([" + strings.Join(ft, ", ") + "], " + t1 + "...)"
				}
			}
			R.Check(good, rule, "startAuthenticate|abort-first", "a start during a running exchange sends [abort, new first message] in this order", a.C.InstrPos(r), "returns "+d)
		}
	}
	for name, callee := range map[string]string{"(*Conversation).StartAuthenticate": "smpState.startAuthenticate", "(*Conversation).continueMessage": "smpState.continueMessage1"} {
		f := a.MustFn(name)
		if f == nil {
			continue
		}
		R.Check(len(a.CallsIn(f, callee)) == 1, rule, name+"|dispatch", "user call is dispatched to the state machine", a.C.Pos(f.Pos()), "dispatch not found")
	}
	if f := a.MustFn("(*Conversation).restartSMP"); f != nil {
		n := 0
		for _, st := range a.DirectStoresTo(a.MustField("smp", "state")) {
			if a.C.within(st, f) {
				n++
				R.Check(a.smpStateOf(&Path{}, st.Val, 0) == "smpStateExpect1", rule, "AbortAuthentication|reset", "a user abort resets to EXPECT1", a.C.InstrPos(st), "stores "+a.C.Term(st.Val))
			}
		}
		R.Check(n == 1, rule, "AbortAuthentication|store", "a user abort resets the state machine", a.C.Pos(f.Pos()), fmt.Sprintf("%d stores", n))
	}
	// both SMP entry points refuse outside an encrypted session
	for _, name := range []string{"(smpStateExpect1).startAuthenticate", "(smpStateWaitingForSecret).continueMessage1"} {
		f := a.MustFn(name)
		if f == nil {
			continue
		}
		for _, cs := range a.CallsIn(f, "generateSMPSecret") {
			a.GateLocal(rule, name+"|encrypted", cs, "deriving the SMP secret", "ok:(*Conversation).IsEncrypted")
		}
	}
	R.Floor(rule, 6)
}

// smpAcceptConditions: which SMP TLVs are taken apart is decided by the TLV type and by the parsers of the individual
// messages and by nothing else (no extra size or content test in front of them): the conditions on the accepting paths
// of tlv.smpMessage are the reviewed ones.
func (a *An) smpAcceptConditions(rule string) {
	R := a.R
	f := a.MustFn("(tlv).smpMessage")
	if f == nil {
		return
	}
	conds, complete := a.acceptConditions(f, 1)
	var extra []string
	for c := range conds {
		ok := false
		for _, pre := range []string{"(tlv.tlvType == ", "(tlv.tlvType != ", "toSmpMessage", "!toSmpMessage"} {
			if strings.HasPrefix(c, pre) {
				ok = true
			}
		}
		if !ok {
			extra = append(extra, c)
		}
	}
	sort.Strings(extra)
	R.Check(complete && len(conds) >= 6 && len(extra) == 0, rule, "tlv.smpMessage|conditions", "an SMP TLV is accepted by type and by its message parser only", a.C.Pos(f.Pos()),
		fmt.Sprintf("%d conditions, complete=%v; additional: %s — an SMP message the honest peer sends (a long question, say) can be dropped before it is parsed, and the run never completes", len(conds), complete, strings.Join(extra, "; ")))
}

// zkpFormulas: each proof verifier returns the comparison of the *received* proof value with the recomputed hash, over
// the specified products of the received values raised to the received exponents (no reduction, shadowing or
// substitution of an operand).
func (a *An) zkpFormulas(rule string) {
	R := a.R
	h := func(args string) string { return "hashMPIsBN(otrVersion.hash2Instance($v), $ix, " + args + ")" }
	want := map[string]string{
		"verifyZKP":  "eq($c, " + h("mulMod(modExpP(global:g1, $d), modExpP($gen, $c), global:p)") + ")",
		"verifyZKP2": "eq($cp, " + h("mulMod(modExpP($g3, $d5), modExpP($pb, $cp), global:p), mulMod(mul(modExpP(global:g1, $d5), modExpP($g2, $d6)), modExpP($qb, $cp), global:p)") + ")",
		"verifyZKP3": "eq($cp, " + h("mulMod(modExpP($g3, $d5), modExpP($pa, $cp), global:p), mulMod(mul(modExpP(global:g1, $d5), modExpP($g2, $d6)), modExpP($qa, $cp), global:p)") + ")",
		"verifyZKP4": "eq($cr, " + h("mulMod(modExpP(global:g1, $d7), modExpP($g3a, $cr), global:p), mulMod(modExpP($qaqb, $d7), modExpP($ra, $cr), global:p)") + ")",
	}
	for _, name := range []string{"verifyZKP", "verifyZKP2", "verifyZKP3", "verifyZKP4"} {
		f := a.MustFn(name)
		if f == nil {
			continue
		}
		rets := a.returnsOf(f)
		if len(rets) != 1 {
			R.Viol(rule, name+"|single-return", "the verifier is one comparison", a.C.Pos(f.Pos()), fmt.Sprintf("%d returns", len(rets)))
			continue
		}
		call, ok := rets[0].Results[0].(*ssa.Call)
		got := a.C.Term(rets[0].Results[0])
		if ok && len(call.Call.Args) == 2 {
			// render the variadic hash arguments element by element
			if hc, isC := call.Call.Args[1].(*ssa.Call); isC && len(hc.Call.Args) == 3 {
				var parts []string
				for _, el := range a.C.variadicElems(hc.Call.Args[2]) {
					parts = append(parts, a.C.Term(el))
				}
				got = a.F.callName(call) + "(" + a.C.Term(call.Call.Args[0]) + ", " + a.F.callName(hc) + "(" + a.C.Term(hc.Call.Args[0]) + ", " + a.C.Term(hc.Call.Args[1]) + ", " + strings.Join(parts, ", ") + "))"
			}
		}
		R.Check(got == want[name], rule, name+"|formula", "verdict = eq(received proof value, hash(index, products of received values))", a.C.InstrPos(rets[0]), "it is "+got)
	}
}

// smpStateWriters: the SMP state is moved by the state machine driver, the reset helpers and the abort handler only;
// a received abort always resets it and tells the user, whatever state the machine is in.
func (a *An) smpStateWriters(rule string) {
	R := a.R
	fld := a.MustField("smp", "state")
	a.WhoMayWriteDirect(rule, fld, smpStateWriterFns...)
	f := a.MustFn("(smpMessageAbort).receivedMessage")
	if f == nil || fld == nil {
		return
	}
	var reset, event ssa.Instruction
	for _, b := range f.Blocks {
		for _, in := range b.Instrs {
			if st, ok := in.(*ssa.Store); ok {
				if fa, isFA := st.Addr.(*ssa.FieldAddr); isFA && fieldOf(fa) == fld && strings.Contains(a.C.Term(st.Val), "smpStateExpect1") {
					reset = in
				}
			}
			if call, ok := in.(*ssa.Call); ok && a.F.callName(call) == "(*Conversation).smpEvent" && a.C.Term(call.Call.Args[1]) == a.MustConst("SMPEventAbort") {
				event = in
			}
		}
	}
	ok := reset != nil && event != nil
	if ok {
		for _, r := range a.returnsOf(f) {
			if !instrDominates(reset, r) || !instrDominates(event, r) {
				ok = false
			}
		}
	}
	R.Check(ok, rule, "abort|unconditional", "a received abort resets the state machine to EXPECT1 and raises SMPEventAbort on every path", a.C.Pos(f.Pos()),
		"a return is reachable without the reset or without the event: in some state the peer's abort is ignored and the next first message is refused as unexpected")
}

var smpStateWriterFns = []string{"(*Conversation).continueMessage", "(*Conversation).restartSMP", "(*smp).ensureSMP", "(*smp).wipe",
	"(smp1Message).receivedMessage", "(smp2Message).receivedMessage", "(smp3Message).receivedMessage", "(smp4Message).receivedMessage",
	"(smpMessageAbort).receivedMessage", "(smpStateExpect1).startAuthenticate", "(smpStateBase).startAuthenticate"}
