package main

import (
	"go/token"
	"go/types"
	"sort"
	"strings"

	"golang.org/x/tools/go/ssa"
)

// ---- error origins ------------------------------------------------------------------------------

type Origin int

const (
	OrigValidation Origin = 1 << iota
	OrigRandom
	OrigConfig
	OrigUnknown
)

func (o Origin) String() string {
	var s []string
	if o&OrigValidation != 0 {
		s = append(s, "validation")
	}
	if o&OrigRandom != 0 {
		s = append(s, "randomness")
	}
	if o&OrigConfig != 0 {
		s = append(s, "configuration")
	}
	if o&OrigUnknown != 0 {
		s = append(s, "unknown")
	}
	if len(s) == 0 {
		return "none"
	}
	return strings.Join(s, "+")
}

type origins struct {
	c    *Ctx
	memo map[*ssa.Function]Origin
	busy map[*ssa.Function]bool
}

func newOrigins(c *Ctx) *origins {
	return &origins{c: c, memo: map[*ssa.Function]Origin{}, busy: map[*ssa.Function]bool{}}
}

// functions whose own newOtrError sites report a configuration problem of the local conversation
// (not a property of the received message)
var configErrorSites = map[string]bool{
	"(*Conversation).generateEncryptedSignature": true, // "no long-term key available": ourCurrentKey == nil
}

var extOrigins = map[string]Origin{
	"io.ReadFull":                        OrigRandom,
	"crypto/dsa.Sign":                    OrigRandom,
	"crypto/dsa.GenerateKey":             OrigRandom,
	"crypto/dsa.GenerateParameters":      OrigRandom,
	"crypto/aes.NewCipher":               OrigConfig,
	"errors.New":                         OrigConfig,
	"fmt.Errorf":                         OrigConfig,
	"os.Open":                            OrigConfig,
	"os.OpenFile":                        OrigConfig,
	"(*os.File).Close":                   OrigConfig,
	"strconv.ParseUint":                  OrigValidation,
	"strconv.ParseInt":                   OrigValidation,
	"strconv.Atoi":                       OrigValidation,
	"(*encoding/base64.Encoding).Decode": OrigValidation,
	"encoding/hex.Decode":                OrigValidation,
}

func (o *origins) fn(f *ssa.Function) Origin {
	f = o.c.unwrap(f)
	if v, ok := o.memo[f]; ok {
		return v
	}
	if !o.c.IsLib(f) {
		if v, ok := extOrigins[f.String()]; ok {
			return v
		}
		return OrigUnknown
	}
	if o.busy[f] {
		return 0
	}
	o.busy[f] = true
	var res Origin
	si := statusIndex(f.Signature)
	if si >= 0 {
		for _, b := range f.Blocks {
			if ret, ok := b.Instrs[len(b.Instrs)-1].(*ssa.Return); ok && len(ret.Results) > si {
				res |= o.val(ret.Results[si], 0)
			}
		}
	}
	o.busy[f] = false
	o.memo[f] = res
	return res
}

func (o *origins) val(v ssa.Value, d int) Origin {
	if d > 8 {
		return OrigUnknown
	}
	if isNilConst(v) {
		return 0
	}
	if !isErrorType(v.Type()) {
		if isBoolType(v.Type()) {
			return OrigValidation
		}
	}
	switch x := v.(type) {
	case *ssa.MakeInterface:
		return OrigValidation
	case *ssa.Call:
		return o.call(x, d)
	case *ssa.Extract:
		if call, ok := x.Tuple.(*ssa.Call); ok {
			return o.call(call, d)
		}
	case *ssa.Phi:
		var r Origin
		for _, e := range x.Edges {
			if e != v {
				r |= o.val(e, d+1)
			}
		}
		return r
	case *ssa.UnOp:
		if x.Op == token.MUL {
			if g, ok := x.X.(*ssa.Global); ok {
				if g.Name() == "errShortRandomRead" {
					return OrigRandom
				}
				return OrigValidation
			}
			if al, ok := x.X.(*ssa.Alloc); ok {
				var r Origin
				for _, ref := range *al.Referrers() {
					if st, ok := ref.(*ssa.Store); ok && st.Addr == ssa.Value(al) {
						r |= o.val(st.Val, d+1)
					}
				}
				return r
			}
			if ia, ok := x.X.(*ssa.IndexAddr); ok {
				_ = ia
				return OrigUnknown
			}
		}
	case *ssa.ChangeInterface:
		return o.val(x.X, d+1)
	case *ssa.Const:
		return 0
	}
	return OrigUnknown
}

func (o *origins) call(call *ssa.Call, d int) Origin {
	name := ""
	if sc := call.Call.StaticCallee(); sc != nil {
		name = o.c.Name(sc)
	}
	switch name {
	case "newOtrError", "newOtrConflictError", "newOtrErrorf":
		if configErrorSites[o.c.Name(call.Parent())] {
			return OrigConfig
		}
		return OrigValidation
	case "firstError":
		// union of the variadic arguments
		var r Origin
		if len(call.Call.Args) == 1 {
			if sl, ok := call.Call.Args[0].(*ssa.Slice); ok {
				if al, ok := sl.X.(*ssa.Alloc); ok {
					for _, ref := range *al.Referrers() {
						if ia, ok := ref.(*ssa.IndexAddr); ok {
							for _, r2 := range *ia.Referrers() {
								if st, ok := r2.(*ssa.Store); ok {
									r |= o.val(st.Val, d+1)
								}
							}
						}
					}
					return r
				}
			}
		}
		return OrigUnknown
	}
	var r Origin
	callees := o.c.Callees(call)
	if len(callees) == 0 {
		return OrigUnknown
	}
	for _, g := range callees {
		r |= o.fn(g)
	}
	return r
}

// ---- failure atomicity --------------------------------------------------------------------------

type AtomicHit struct {
	Fn     *ssa.Function
	W      ssa.Instruction
	Path   string // absolute path written
	Class  string
	R      *ssa.Return
	Origin Origin
	ErrSrc string
	SrcKey string
}

// classify decides whether an absolute path is tracked state; returns class "" when not tracked.
type classify func(abs string) string

// AtomicScan lists every (write, later rejecting return) pair of f. A write made by a call whose own
// failure is what is returned is the callee's obligation and is not listed here.
func (a *An) AtomicScan(f *ssa.Function, cls classify, og *origins) []AtomicHit {
	var hits []AtomicHit
	si := statusIndex(f.Signature)
	if si < 0 || f.Blocks == nil {
		return nil
	}
	// a new function's lone unnamed bool result is an answer, not a verdict on its input
	if a.C.isNew(f) && !isErrorType(f.Signature.Results().At(si).Type()) && !strings.Contains(strings.ToLower(f.Signature.Results().At(si).Name()), "ok") {
		return nil
	}
	var rets []*ssa.Return
	for _, b := range f.Blocks {
		if b != f.Blocks[0] && len(b.Preds) == 0 {
			continue
		}
		if r, ok := b.Instrs[len(b.Instrs)-1].(*ssa.Return); ok {
			rets = append(rets, r)
		}
	}
	type rinfo struct {
		r      *ssa.Return
		via    *ssa.BasicBlock // for a phi alternative: the predecessor block it comes from
		origin Origin
		src    string
		sc     *ssa.Call
		srcs   map[*ssa.Call]bool
		val    ssa.Value
	}
	var failing []rinfo
	var addAlt func(r *ssa.Return, sv ssa.Value, via *ssa.BasicBlock, facts Facts, depth int)
	addAlt = func(r *ssa.Return, sv ssa.Value, via *ssa.BasicBlock, facts Facts, depth int) {
		if isNilConst(sv) {
			return
		}
		if k, ok := sv.(*ssa.Const); ok && isBoolType(k.Type()) && k.Value != nil && k.Value.ExactString() == "true" {
			return
		}
		if phi, ok := sv.(*ssa.Phi); ok && depth < 4 {
			for i, e := range phi.Edges {
				pred := phi.Block().Preds[i]
				addAlt(r, e, pred, a.F.endFacts(pred), depth+1)
			}
			return
		}
		if u, ok := sv.(*ssa.UnOp); ok && u.Op == token.MUL && isErrorType(sv.Type()) {
			if st := localStore(u); st != nil {
				addAlt(r, st, via, facts, depth+1)
				return
			}
		}
		sc := statusCall(sv)
		if sc != nil && facts.Has("@ok:"+instKey(sc)) {
			return // provably success
		}
		var or Origin
		if isErrorType(sv.Type()) {
			or = og.val(sv, 0)
		} else {
			or = OrigValidation
		}
		mask := a.atomicMask
		if mask == 0 {
			mask = OrigValidation | OrigUnknown
		}
		if or&mask == 0 {
			return // (default) only randomness / configuration failures: not a rejection of the input
		}
		if a.atomicMask != 0 && or&^mask&^OrigConfig != 0 && or&mask == 0 {
			return
		}
		srcs := map[*ssa.Call]bool{}
		errSources(sv, srcs, 0)
		failing = append(failing, rinfo{r, via, or, a.C.Term(sv), sc, srcs, sv})
	}
	for _, r := range rets {
		addAlt(r, r.Results[si], nil, a.F.LocalAt(r), 0)
	}
	if len(failing) == 0 {
		return nil
	}
	for _, b := range f.Blocks {
		for _, in := range b.Instrs {
			effs := a.E.InstrEffects(in)
			if len(effs) == 0 {
				continue
			}
			var tracked []Effect
			for _, ef := range effs {
				if cls(a.C.abs(f, ef.Path)) != "" {
					tracked = append(tracked, ef)
				}
			}
			if len(tracked) == 0 {
				continue
			}
			wcall, _ := in.(*ssa.Call)
			if st, ok := in.(*ssa.Store); ok {
				// a store of a value previously loaded from the same location (restore of a snapshot) introduces nothing new
				if ld, ok := st.Val.(*ssa.UnOp); ok && ld.Op == token.MUL && a.C.rel(a.C.pathOf(ld.X)) == a.C.rel(a.C.pathOf(st.Addr)) {
					continue
				}
			}
			for _, ri := range failing {
				if ri.via != nil {
					if !(in.Block() == ri.via || reachableFrom(in.Block().Succs...)[ri.via]) {
						continue
					}
				} else if !canReach(in, ri.r) {
					continue
				}
				if ri.sc != nil && a.F.LocalAt(in).Has("@ok:"+instKey(ri.sc)) {
					continue // the write happens only after that step is known to have succeeded
				}
				if wcall != nil {
					if ri.sc == wcall || ri.srcs[wcall] {
						continue // the callee's own failure (possibly passed through a wrapper)
					}
					var fs Facts
					if ri.via != nil {
						fs = a.F.endFacts(ri.via)
					} else {
						fs = a.F.LocalAt(ri.r)
					}
					if fs.Has("@fail:" + instKey(wcall)) {
						continue // reached only after this call failed: callee's obligation
					}
				}
				seen := map[string]bool{}
				for _, ef := range tracked {
					abs := a.C.abs(f, ef.Path)
					if seen[abs] {
						continue
					}
					seen[abs] = true
					if a.compensated(f, in, ef, ri.r, ri.via, map[ssa.Value]bool{ri.r.Results[si]: true, ri.val: true}) {
						continue // snapshot/restore: the old value is written back on every path to this return
					}
					hits = append(hits, AtomicHit{Fn: f, W: in, Path: abs, Class: cls(abs), R: ri.r, Origin: ri.origin, ErrSrc: ri.src, SrcKey: a.srcKey(ri.val)})
				}
			}
		}
	}
	sort.Slice(hits, func(i, j int) bool {
		if hits[i].Path != hits[j].Path {
			return hits[i].Path < hits[j].Path
		}
		return hits[i].ErrSrc < hits[j].ErrSrc
	})
	return hits
}

// errSources collects the calls whose failure an error value may represent: the call whose status it is,
// the error arguments handed through a wrapper call, and errors wrapped into a new message (x.Error()).
func errSources(v ssa.Value, out map[*ssa.Call]bool, d int) {
	if d > 8 || v == nil {
		return
	}
	switch x := v.(type) {
	case *ssa.Phi:
		for _, e := range x.Edges {
			if e != v {
				errSources(e, out, d+1)
			}
		}
	case *ssa.Extract:
		if c, ok := x.Tuple.(*ssa.Call); ok {
			errSources(c, out, d)
		}
	case *ssa.Call:
		if out[x] {
			return
		}
		out[x] = true
		args := x.Call.Args
		if x.Call.IsInvoke() {
			args = append([]ssa.Value{x.Call.Value}, args...)
		}
		for _, a := range args {
			if isErrorType(a.Type()) || isStringType(a) {
				errSources(a, out, d+1)
			}
		}
	case *ssa.BinOp:
		errSources(x.X, out, d+1)
		errSources(x.Y, out, d+1)
	case *ssa.UnOp:
		if x.Op == token.MUL {
			if al, ok := x.X.(*ssa.Alloc); ok && al.Referrers() != nil {
				// flow-insensitive: any value ever stored into the local
				for _, ref := range *al.Referrers() {
					if st, ok := ref.(*ssa.Store); ok && st.Addr == ssa.Value(al) {
						errSources(st.Val, out, d+1)
					}
				}
			}
		}
	case *ssa.ChangeInterface:
		errSources(x.X, out, d+1)
	case *ssa.MakeInterface:
		errSources(x.X, out, d+1)
	}
}

func isStringType(v ssa.Value) bool {
	b, ok := v.Type().Underlying().(*types.Basic)
	return ok && b.Kind() == types.String
}

// compensated: every path from the write W to the failing return passes a store to the same location
// of a value that was loaded from that location before W (snapshot taken before, restored on rejection).
func (a *An) compensated(f *ssa.Function, w ssa.Instruction, ef Effect, r *ssa.Return, via *ssa.BasicBlock, nonNil map[ssa.Value]bool) bool {
	var cuts []ssa.Instruction
	for _, b := range f.Blocks {
		for _, in := range b.Instrs {
			st, ok := in.(*ssa.Store)
			if !ok {
				continue
			}
			if a.C.rel(a.C.pathOf(st.Addr)) != ef.Path {
				continue
			}
			ld, ok := st.Val.(*ssa.UnOp)
			if !ok || ld.Op != token.MUL {
				continue
			}
			if a.C.rel(a.C.pathOf(ld.X)) != ef.Path {
				continue
			}
			if !instrDominates(ld, w) {
				continue
			}
			cuts = append(cuts, in)
		}
	}
	if len(cuts) == 0 {
		return false
	}
	if via != nil {
		last := via.Instrs[len(via.Instrs)-1]
		if w.Block() != via || instrIndex(w) < instrIndex(last) {
			if !reachesAvoiding(w, last, cuts, nonNil) {
				return true
			}
		}
		return !reachesAvoiding(last, r, cuts, nonNil)
	}
	return !reachesAvoiding(w, r, cuts, nonNil)
}

// reachesAvoiding: is there a CFG path from just after `from` to `to` that executes none of cuts?
// nonNil: values assumed non-nil (the failing error): branches testing them are followed consistently.
func reachesAvoiding(from, to ssa.Instruction, cuts []ssa.Instruction, nonNil map[ssa.Value]bool) bool {
	if from.Parent() != to.Parent() && theCtx != nil {
		// through a new single-use helper: leave the helper by one of its returns without passing a cut, then go on
		// behind its call; or reach the call and then the target from the helper's entry
		if cs := theCtx.soleCall(from.Parent()); cs != nil {
			out := false
			for _, b := range from.Parent().Blocks {
				if r, ok := b.Instrs[len(b.Instrs)-1].(*ssa.Return); ok && reachesAvoiding(from, r, cuts, nil) {
					out = true
				}
			}
			return out && reachesAvoiding(cs, to, cuts, nonNil)
		}
		if cs := theCtx.soleCall(to.Parent()); cs != nil {
			for _, c := range cuts {
				if c == ssa.Instruction(cs) {
					return false
				}
			}
			if !(from == ssa.Instruction(cs) || reachesAvoiding(from, cs, cuts, nonNil)) {
				return false
			}
			entry := to.Parent().Blocks[0].Instrs[0]
			return entry == to || reachesAvoiding(entry, to, cuts, nil) && !isCut(entry, cuts)
		}
		return false
	}
	cut := map[ssa.Instruction]bool{}
	for _, c := range cuts {
		cut[c] = true
	}
	seen := map[*ssa.BasicBlock]bool{}
	var scan func(b *ssa.BasicBlock, i int) bool
	scan = func(b *ssa.BasicBlock, i int) bool {
		for ; i < len(b.Instrs); i++ {
			in := b.Instrs[i]
			if in == to {
				return true
			}
			if cut[in] {
				return false
			}
			// a call of a new single-use helper through which no path avoids the cuts is a cut itself
			if call, isCall := in.(*ssa.Call); isCall && theCtx != nil && len(cuts) > 0 {
				if g := call.Call.StaticCallee(); g != nil && theCtx.isNew(g) && theCtx.soleCall(g) == ssa.CallInstruction(call) && g != b.Parent() {
					through := false
					entry := g.Blocks[0].Instrs[0]
					if !cut[entry] {
						for _, gb := range g.Blocks {
							if r, ok := gb.Instrs[len(gb.Instrs)-1].(*ssa.Return); ok && (gb == g.Blocks[0] || len(gb.Preds) > 0) {
								if ssa.Instruction(r) == entry || reachesAvoiding(entry, r, cuts, nil) {
									through = true
								}
							}
						}
					}
					if !through {
						return false
					}
				}
			}
		}
		skip := -1
		if iff, ok := b.Instrs[len(b.Instrs)-1].(*ssa.If); ok {
			if bo, ok := iff.Cond.(*ssa.BinOp); ok && (bo.Op == token.NEQ || bo.Op == token.EQL) {
				var other ssa.Value
				if isNilConst(bo.Y) {
					other = bo.X
				} else if isNilConst(bo.X) {
					other = bo.Y
				}
				if other != nil && nonNil[other] {
					// other != nil holds: the NEQ test is true (succ 0), the EQL test false (succ 1)
					if bo.Op == token.NEQ {
						skip = 1
					} else {
						skip = 0
					}
				}
			}
		}
		for i, s := range b.Succs {
			if i == skip || seen[s] {
				continue
			}
			seen[s] = true
			if scan(s, 0) {
				return true
			}
		}
		return false
	}
	return scan(from.Block(), instrIndex(from)+1)
}

// srcKey: a short, stable name for the source of a failing status value.
func (a *An) srcKey(v ssa.Value) string {
	if c := statusCall(v); c != nil {
		n := a.F.callName(c)
		// a new single-use helper is named as the function it belongs to
		if sc := c.Common().StaticCallee(); sc != nil && a.C.isNew(sc) && a.C.owner(sc) != sc {
			n = a.C.Name(a.C.owner(sc))
			// where the helper only hands on one kind of failure, that failure is the source
			if si := statusIndex(sc.Signature); si >= 0 {
				keys := map[string]bool{}
				for _, r := range a.returnsOf(sc) {
					rv := resolveLocal(r.Results[si])
					if isNilConst(rv) {
						continue
					}
					keys[a.srcKey(rv)] = true
				}
				if len(keys) == 1 {
					for k := range keys {
						return k
					}
				}
			}
		}
		switch n {
		case "newOtrError", "newOtrConflictError", "newOtrErrorf":
			if len(c.Call.Args) > 0 {
				return n + ":" + leftString(c.Call.Args[0])
			}
		}
		return n
	}
	if u, ok := v.(*ssa.UnOp); ok && u.Op == token.MUL {
		if g, ok := u.X.(*ssa.Global); ok {
			return g.Name()
		}
	}
	t := a.C.Term(v)
	if len(t) > 60 {
		t = t[:60]
	}
	return t
}

func leftString(v ssa.Value) string {
	for i := 0; i < 6; i++ {
		switch x := v.(type) {
		case *ssa.Const:
			s := constStr(x)
			if len(s) > 42 {
				s = s[:42]
			}
			return s
		case *ssa.BinOp:
			v = x.X
		default:
			return "_"
		}
	}
	return "_"
}

func isCut(in ssa.Instruction, cuts []ssa.Instruction) bool {
	for _, c := range cuts {
		if c == in {
			return true
		}
	}
	return false
}
