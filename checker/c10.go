package main

import (
	"fmt"
	"strings"

	"golang.org/x/tools/go/ssa"
)

func init() {
	register("C10", "Structural clause decided (static part of wire conformance, against tables transcribed from the OTR v2/v3 specification): field lists, widths and order of every emitted structure and of the matching parsers; message header and fragment prefix formats; message type, TLV type and flag constants; key derivation (secbytes = MPI(s); ssid, c/c', m1, m2, m1', m2' from h2 with bytes 0..5 and the specified slices; data keys from h1 with the send/receive byte chosen by the numeric comparison of the two public keys, MAC keys as the hash of the AES keys, extra key h2(0xFF)); MAC inputs and truncation; CTR initial value; padding rule; SMP proof indices and secret preimage; query, error and whitespace-tag encodings; the 1536-bit group; that replies are addressed with the peer tag adopted from the message being answered. Not decided: numeric correctness of big-integer arithmetic and the Go crypto packages; acceptance of messages built by an independent implementation (interoperability needs execution against libotr); dynamic values (counters, key ids — see C04).",
		func(a *An) {
			a.pairLayouts("L.pairs")
			a.primitives("L.primitives")
			a.smpOrder("L.smp-order")
			a.c15Layout()
			a.c10Constants("K.constants")
			a.c10KDF("K.kdf")
			a.c10MACs("K.mac")
			a.c10Cipher("K.cipher")
			a.cipherBuffers("K.cipher-buffers")
			a.c14Sender()
			a.signatureLayout("K.signature")
			a.macKeyByteWipes("W.mac-wipe")
			a.c16Whitespace()
			a.heartbeatOrder("V.heartbeat-order")
			a.tlvLoopComplete("S.tlv-loop")
			a.tlvParseLoopComplete("S.tlv-loop")
			a.noSessionKeyCache("S.rotation")
			a.secretSizes("K.secret-size")
			// messages the specification's sender produces are accepted: the stored peer values that later messages are checked
			// against (the peer's DH value of the exchange, the peer's counter) move only with verified/authentic messages
			a.theirDHWriters()
			auth10, _ := a.dataAuthFacts()
			a.counterStoreGate("G.counter-store", auth10)
			// numbers in the fragment prefix: index and count are decimal 16-bit, instance tags hexadecimal 32-bit
			for _, nf := range []struct{ fn, base, bits string }{{"bytesToUint16", "10", "16"}, {"parseItag", "16", "32"}} {
				if f := a.MustFn(nf.fn); f != nil {
					if c := a.uniqueCall("K.text", f, "strconv.ParseUint"); c != nil {
						a.TermIs("K.text", nf.fn+"|base", "number base", c, c.Call.Args[1], nf.base)
						a.TermIs("K.text", nf.fn+"|bits", "number width", c, c.Call.Args[2], nf.bits)
					}
				}
			}
			a.c10Text("K.text")
			a.c10SMPIndices("K.smp-indices")
			a.groupConstants("K.group")
			a.c10ReplyTag("S.reply-tag")
		})
}

func (a *An) c10Constants(rule string) {
	want := map[string]string{
		"msgTypeDHCommit": "2", "msgTypeData": "3", "msgTypeDHKey": "10", "msgTypeRevealSig": "17", "msgTypeSig": "18",
		"tlvTypePadding": "0", "tlvTypeDisconnected": "1", "tlvTypeSMP1": "2", "tlvTypeSMP2": "3", "tlvTypeSMP3": "4", "tlvTypeSMP4": "5",
		"tlvTypeSMPAbort": "6", "tlvTypeSMP1WithQuestion": "7", "tlvTypeExtraSymmetricKey": "8",
		"messageFlagNormal": "0", "messageFlagIgnoreUnreadable": "1", "smpVersion": "1", "minValidInstanceTag": "256",
		"paddingGranularity": "256", "otrv3HeaderLen": "11", "otrv2HeaderLen": "3", "messageHeaderPrefix": "3", "revealSigRSize": "16",
	}
	for name, w := range want {
		got := a.MustConst(name)
		a.R.Check(got == w, rule, name, "constant "+name+" = "+w, "", "it is "+got)
	}
	a.R.Floor(rule, 20)
}

func (a *An) c10KDF(rule string) {
	R := a.R
	if f := a.MustFn("h"); f != nil {
		var seq []string
		for _, b := range f.Blocks {
			for _, in := range b.Instrs {
				if c, ok := in.(*ssa.Call); ok && c.Call.IsInvoke() {
					switch c.Call.Method.Name() {
					case "Reset":
						seq = append(seq, "Reset")
					case "Write":
						seq = append(seq, "Write("+a.C.Term(c.Call.Args[0])+")")
					case "Sum":
						seq = append(seq, "Sum("+a.C.Term(c.Call.Args[0])+")")
					}
				}
			}
		}
		elemOK := false
		for _, b := range f.Blocks {
			for _, in := range b.Instrs {
				if st, ok := in.(*ssa.Store); ok {
					if _, isIA := st.Addr.(*ssa.IndexAddr); isIA && a.C.Term(st.Val) == "$b" {
						elemOK = true
					}
				}
			}
		}
		R.Check(strings.Join(seq, " ") == "Reset Write(new([1]byte)[:]) Write($secbytes) Sum(nil)" && elemOK, rule, "h|definition", "h(b, secbytes) = Hash(b ‖ secbytes)", a.C.Pos(f.Pos()), strings.Join(seq, " "))
	}
	if f := a.MustFn("calculateAKEKeys"); f != nil {
		sec := "AppendMPI(nil, $s)"
		sha := "otrVersion.hash2Instance($v)"
		hh := func(b string) string { return "h(" + b + ", " + sec + ", " + sha + ")" }
		got := map[string]string{}
		for _, b := range f.Blocks {
			for _, in := range b.Instrs {
				switch x := in.(type) {
				case *ssa.Store:
					if fa, ok := x.Addr.(*ssa.FieldAddr); ok {
						root := "?"
						if al, isAl := fa.X.(*ssa.Alloc); isAl {
							root = al.Comment
						}
						got[root+"."+fieldOf(fa).Name()] = a.C.Term(x.Val)
					}
				case *ssa.Call:
					if bi, ok := x.Call.Value.(*ssa.Builtin); ok && bi.Name() == "copy" {
						got["copy"] = a.C.Term(x.Call.Args[0]) + " ← " + a.C.Term(x.Call.Args[1])
					}
				}
			}
		}
		want := map[string]string{
			"copy":             "new([8]byte)[:] ← " + hh("0") + "[:8]",
			"revealSigKeys.c":  hh("1") + "[:16]",
			"signatureKeys.c":  hh("1") + "[16:]",
			"revealSigKeys.m1": hh("2"), "revealSigKeys.m2": hh("3"), "signatureKeys.m1": hh("4"), "signatureKeys.m2": hh("5"),
		}
		for k, w := range want {
			R.Check(got[k] == w, rule, "calculateAKEKeys|"+k, k+" = "+w, a.C.Pos(f.Pos()), "it is "+got[k])
		}
	}
	if f := a.MustFn("calculateDHSessionKeys"); f != nil {
		s := "(*github.com/coyim/constbn.Int).GetBigInt(modExpCT((*github.com/coyim/constbn.Int).SetBigInt(new(Int), $theirPubKey), $ourPrivKey, global:pct))"
		sec := "AppendMPI(nil, " + s + ")"
		sha := "otrVersion.hashInstance($v)"
		gtT := "gt($ourPubKey, $theirPubKey)"
		for _, high := range []bool{true, false} {
			paths, _ := a.C.Paths(f, a.C.valOracle(nil, map[string]bool{gtT: high}), 16)
			sb, rb := "2", "1"
			if high {
				sb, rb = "1", "2"
			}
			ok, d := len(paths) == 1, fmt.Sprintf("%d paths", len(paths))
			if ok {
				p := paths[0]
				forced := false
				for _, dc := range p.Decisions {
					if dc.Forced {
						forced = true
					}
				}
				if !forced {
					ok, d = false, "the end is not chosen by "+gtT
				}
				got := map[string]string{}
				for _, in := range p.Instrs {
					if st, isSt := in.(*ssa.Store); isSt {
						if fa, isFA := st.Addr.(*ssa.FieldAddr); isFA {
							got[fieldOf(fa).Name()] = termResolved(a, p, st.Val)
						}
					}
				}
				want := map[string]string{
					"sendingAESKey":   "h(" + sb + ", " + sec + ", " + sha + ")[:otrVersion.keyLength($v)]",
					"receivingAESKey": "h(" + rb + ", " + sec + ", " + sha + ")[:otrVersion.keyLength($v)]",
					"sendingMACKey":   "otrVersion.hash($v, new(sessionKeys).sendingAESKey)",
					"receivingMACKey": "otrVersion.hash($v, new(sessionKeys).receivingAESKey)",
					"extraKey":        "h(255, " + sec + ", otrVersion.hash2Instance($v))",
				}
				for k, w := range want {
					if got[k] != w {
						ok, d = false, k+" = "+got[k]+", specified "+w
					}
				}
			}
			R.Check(ok, rule, fmt.Sprintf("calculateDHSessionKeys|high-end=%v", high), "session keys for the "+map[bool]string{true: "high", false: "low"}[high]+" end", a.C.Pos(f.Pos()), d)
		}
	}
	for v := range map[string]bool{"(otrV2)": true, "(otrV3)": true} {
		for m, want := range map[string]string{"hashInstance": "crypto/sha1.New()", "hash2Instance": "crypto/sha256.New()", "hashLength": "20", "hash2Length": "32", "keyLength": "16", "truncateLength": "20"} {
			f := a.MustFn(v + "." + m)
			if f == nil {
				continue
			}
			for _, r := range a.returnsOf(f) {
				t := a.C.Term(r.Results[0])
				R.Check(strings.Contains(t, want), rule, v+"."+m, m+" is "+want, a.C.InstrPos(r), "it is "+t)
			}
		}
		for m, callee := range map[string]string{"hash": "crypto/sha1.Sum", "hash2": "crypto/sha256.Sum256"} {
			f := a.MustFn(v + "." + m)
			if f == nil {
				continue
			}
			cs := a.CallsIn(f, callee)
			ok := len(cs) == 1 && a.C.Term(cs[0].Common().Args[0]) == "$val"
			R.Check(ok, rule, v+"."+m, m+" is "+callee+" of the whole input", a.C.Pos(f.Pos()), "hash function differs")
		}
	}
	for name, want := range map[string]string{"gt": "gt"} {
		if fn := a.MustFn(name); fn != nil {
			for _, r := range a.returnsOf(fn) {
				got := strings.Join(a.gateTerms(r.Results[0], true, 0), " & ")
				a.R.Check(got == "cmp[(*math/big.Int).Cmp($l, $r)] "+want, rule, name+"|definition", "numeric comparison of the public keys", a.C.InstrPos(r), "it decides "+got)
			}
		}
	}
	R.Floor(rule, 20)
}

// termResolved renders a value with phis resolved along a path (one level of operands).
func termResolved(a *An, p *Path, v ssa.Value) string {
	t := a.C.Term(v)
	// replace phi sub-terms by their resolved alternative where the phi is an operand of a call
	var walk func(v ssa.Value, d int)
	repl := map[string]string{}
	walk = func(v ssa.Value, d int) {
		if d > 6 {
			return
		}
		switch v.(type) {
		case *ssa.Phi, *ssa.Extract, *ssa.Call:
			// a phi, or a result of a helper walked inline on this path
			if r := p.Resolve(v); r != v {
				repl[a.C.Term(v)] = a.C.Term(r)
				return
			}
			if _, isPhi := v.(*ssa.Phi); isPhi {
				return
			}
		}
		if in, ok := v.(ssa.Instruction); ok {
			for _, op := range in.Operands(nil) {
				if *op != nil {
					walk(*op, d+1)
				}
			}
		}
	}
	walk(v, 0)
	for k, w := range repl {
		t = strings.ReplaceAll(t, k, w)
	}
	return t
}

func (a *An) c10MACs(rule string) {
	R := a.R
	if f := a.MustFn("(*dataMsg).sign"); f != nil {
		var sum *ssa.Call
		for _, b := range f.Blocks {
			for _, in := range b.Instrs {
				if c, ok := in.(*ssa.Call); ok && c.Call.IsInvoke() && c.Call.Method.Name() == "Sum" {
					sum = c
				}
			}
		}
		if sum == nil {
			R.Viol(rule, "sign|sum", "the data MAC is an HMAC sum", a.C.Pos(f.Pos()), "no Sum")
		} else {
			a.checkHMACStream(rule, "sign", f, sum, "(otrVersion).hashInstance", "$key", []string{"$header", "dataMsg.serializeUnsignedCache"})
			for _, st := range a.DirectStoresTo(a.MustField("dataMsg", "authenticator")) {
				if a.C.within(st, f) {
					R.Check(st.Val == ssa.Value(sum), rule, "sign|whole", "the authenticator is the whole HMAC-SHA1 value", a.C.InstrPos(st), "stores "+a.C.Term(st.Val))
				}
			}
		}
	}
	if f := a.MustFn("(*Conversation).genDataMsgWithFlag"); f != nil {
		if c := a.uniqueCall(rule, f, "(*dataMsg).sign"); c != nil {
			R.Check(strings.HasSuffix(a.C.Term(c.Call.Args[1]), ".sendingMACKey"), rule, "genDataMsg|mac-key", "signed with the sending MAC key", a.C.InstrPos(c), a.C.Term(c.Call.Args[1]))
			R.Check(strings.HasPrefix(a.C.Term(c.Call.Args[2]), "(*Conversation).messageHeader($c, "+a.MustConst("msgTypeData")+")"), rule, "genDataMsg|mac-header", "the MAC covers the data message header", a.C.InstrPos(c), a.C.Term(c.Call.Args[2]))
		}
	}
	for _, m := range []struct{ fn, key string }{{"(*Conversation).revealSigMessage", "Conversation.ake.revealKey.m2"}, {"(*Conversation).sigMessage", "Conversation.ake.sigKey.m2"}} {
		f := a.MustFn(m.fn)
		if c := a.uniqueCall(rule, f, "sumHMAC"); c != nil {
			a.TermIs(rule, m.fn+"|mac-key", "MAC key", c, c.Call.Args[0], m.key)
			R.Check(strings.HasPrefix(a.C.Term(c.Call.Args[1]), "(*Conversation).generateEncryptedSignature("), rule, m.fn+"|mac-input", "MAC over the length-prefixed encrypted signature", a.C.InstrPos(c), a.C.Term(c.Call.Args[1]))
		}
	}
	for _, v := range []string{"(revealSig)", "(sig)"} {
		if f := a.MustFn(v + ".serialize"); f != nil {
			wf, at := a.writerOf(f)
			n := len(wf)
			R.Check(n > 0 && strings.HasSuffix(wf[n-1].Term, ".macSig[:otrVersion.truncateLength($v)]"), rule, v+"|mac-truncation", "the AKE MAC is sent truncated to 160 bits", a.C.InstrPos(at), fieldsStr(wf))
		}
	}
	if f := a.MustFn("(*Conversation).generateEncryptedSignature"); f != nil {
		if c := a.uniqueCall(rule, f, "sumHMAC"); c != nil {
			a.TermIs(rule, "generateEncryptedSignature|m1", "M_B is keyed with m1", c, c.Call.Args[0], "akeKeys.m1")
		}
	}
	if f := a.MustFn("(*Conversation).calcXb"); f != nil {
		if c := a.uniqueCall(rule, f, "encrypt"); c != nil {
			a.TermIs(rule, "calcXb|key", "X_B is encrypted with c", c, c.Call.Args[0], "akeKeys.c")
			wf := a.C.WriterFields(c.Call.Args[1])
			ok := len(wf) == 3 && wf[0].Kind == "BASE" && strings.HasPrefix(wf[0].Term, "PublicKey.serialize(") && wf[1].Kind == "WORD" && wf[1].Term == "Conversation.ake.keys.ourKeyID" && wf[2].Kind == "BYTES" && strings.HasPrefix(wf[2].Term, "PrivateKey.Sign(")
			R.Check(ok, rule, "calcXb|layout", "X_B = public key ‖ key id ‖ signature", a.C.InstrPos(c), fieldsStr(wf))
		}
	}
	R.Floor(rule, 12)
}

func (a *An) c10Cipher(rule string) {
	R := a.R
	for _, name := range []string{"(plainDataMsg).encrypt", "(*plainDataMsg).decrypt"} {
		f := a.MustFn(name)
		if f == nil {
			continue
		}
		ivOK := false
		for _, b := range f.Blocks {
			for _, in := range b.Instrs {
				if c, ok := in.(*ssa.Call); ok {
					if bi, isB := c.Call.Value.(*ssa.Builtin); isB && bi.Name() == "copy" {
						src := a.C.pathOf(c.Call.Args[1])
						prm, isP := src.Root.(*ssa.Parameter)
						ivOK = strings.HasPrefix(a.C.Term(c.Call.Args[0]), "new([16]byte)[:]") && isP && prm.Name() == "topHalfCtr" && src.Suffix == ""
					}
				}
			}
		}
		R.Check(ivOK, rule, name+"|iv", "CTR initial value = top half counter ‖ zeroes", a.C.Pos(f.Pos()), "IV construction differs")
		if c := a.uniqueCall(rule, f, "counterEncipher"); c != nil {
			a.TermIs(rule, name+"|key", "cipher key", c, c.Call.Args[0], "$key")
			R.Check(strings.HasPrefix(a.C.Term(c.Call.Args[1]), "new([16]byte)[:]"), rule, name+"|iv-arg", "the IV handed to the cipher", a.C.InstrPos(c), a.C.Term(c.Call.Args[1]))
			if name == "(plainDataMsg).encrypt" {
				a.TermIs(rule, name+"|plaintext", "what is enciphered", c, c.Call.Args[2], "(plainDataMsg).serialize((plainDataMsg).pad(plainDataMsg))", "(plainDataMsg).serialize((plainDataMsg).pad($c))")
			}
		}
	}
	if f := a.MustFn("counterEncipher"); f != nil {
		ok := len(a.CallsIn(f, "crypto/aes.NewCipher")) == 1 && len(a.CallsIn(f, "crypto/cipher.NewCTR")) == 1
		R.Check(ok, rule, "counterEncipher|aes-ctr", "AES in counter mode", a.C.Pos(f.Pos()), "cipher construction differs")
	}
	if f := a.MustFn("(plainDataMsg).pad"); f != nil {
		for _, b := range f.Blocks {
			for _, in := range b.Instrs {
				if m, ok := in.(*ssa.MakeSlice); ok {
					a.TermIs(rule, "pad|length", "padding to a multiple of 256 (message + 4 byte TLV header + NUL)", m, m.Len, "(256 - (((len(plainDataMsg.message) + 4) + 1) % 256))")
				}
			}
		}
	}
	if f := a.MustFn("encrypt"); f != nil {
		if c := a.uniqueCall(rule, f, "counterEncipher"); c != nil {
			R.Check(strings.HasPrefix(a.C.Term(c.Call.Args[1]), "makeslice(len($data))[:16]"), rule, "encrypt|zero-iv", "AKE encryption uses counter 0", a.C.InstrPos(c), a.C.Term(c.Call.Args[1]))
		}
	}
	if f := a.MustFn("decrypt"); f != nil {
		if c := a.uniqueCall(rule, f, "counterEncipher"); c != nil {
			a.TermIs(rule, "decrypt|zero-iv", "AKE decryption uses counter 0", c, c.Call.Args[1], "makeslice(16)", "new([16]byte)[:16]")
		}
	}
	R.Floor(rule, 8)
}

func (a *An) c10Text(rule string) {
	R := a.R
	globals := map[string]string{}
	for _, f := range a.C.FuncSeq {
		if f.Name() != "init" {
			continue
		}
		for _, b := range f.Blocks {
			for _, in := range b.Instrs {
				if st, ok := in.(*ssa.Store); ok {
					if g, isG := st.Addr.(*ssa.Global); isG {
						globals[g.Name()] = a.C.Term(st.Val)
					}
				}
			}
		}
	}
	for name, want := range map[string]string{
		"queryMarker": `"?OTR"`, "errorMarker": `"?OTR Error:"`, "msgMarker": `"?OTR:"`,
		"otrv3FragmentationPrefix": `"?OTR|"`, "otrv2FragmentationPrefix": `"?OTR,"`,
		"whitespaceTagHeader": `convertToWhitespace("OT")`,
	} {
		R.Check(globals[name] == want, rule, "global|"+name, name+" = "+want, "", "it is "+globals[name])
	}
	if f := a.MustFn("(*Conversation).encode"); f != nil {
		wf, at := a.writerOf(f)
		ok := len(wf) == 3 && wf[0].Term == "global:msgMarker" && wf[1].Term == "b64encode($msg)" && wf[2].Term == "46"
		R.Check(ok, rule, "encode", "encoded message = ?OTR: ‖ base64 ‖ '.'", a.C.InstrPos(at), fieldsStr(wf))
	}
	if f := a.MustFn("convertToWhitespace"); f != nil {
		var reps []string
		for _, b := range f.Blocks {
			for _, in := range b.Instrs {
				if c, ok := in.(*ssa.Call); ok && a.F.callName(c) == "strings.Replace" {
					reps = append(reps, a.C.Term(c.Call.Args[1])+"→"+a.C.Term(c.Call.Args[2]))
				}
				if c, ok := in.(*ssa.Call); ok && a.F.callName(c) == "strconv.FormatInt" {
					a.TermIs(rule, "convertToWhitespace|base", "binary rendering", c, c.Call.Args[1], "2")
				}
			}
		}
		R.Check(strings.Join(reps, ",") == `"0"→" ","1"→"\t"` || strings.Join(reps, ",") == `"1"→"\t","0"→" "`, rule, "convertToWhitespace|mapping", "0 → space, 1 → tab", a.C.Pos(f.Pos()), strings.Join(reps, ","))
	}
	if f := a.MustFn("(*Conversation).QueryMessage"); f != nil {
		base := false
		for _, b := range f.Blocks {
			for _, in := range b.Instrs {
				if cv, ok := in.(*ssa.Convert); ok && a.C.Term(cv.X) == `"?OTRv"` {
					base = true
				}
			}
		}
		R.Check(base, rule, "QueryMessage|base", "query starts with ?OTRv", a.C.Pos(f.Pos()), "base string differs")
	}
	if f := a.MustFn("(*Conversation).generatePotentialErrorMessage"); f != nil {
		for _, cs := range a.CallsIn(f, "(*Conversation).injectMessage") {
			wf := a.C.WriterFields(cs.Common().Args[1])
			ok := len(wf) == 3 && wf[0].Term == "global:errorMarker" && wf[1].Term == "32"
			R.Check(ok, rule, "error-message", "error message = ?OTR Error: ‖ ' ' ‖ text", a.C.InstrPos(cs), fieldsStr(wf))
		}
	}
	// v2 header
	if f := a.MustFn("(otrV2).messageHeader"); f != nil {
		wf, at := a.writerOf(f)
		ok := len(wf) == 2 && wf[0].Kind == "SHORT" && wf[1].Kind == "BYTE" && wf[1].Term == "$msgType"
		R.Check(ok, rule, "otrV2.messageHeader", "v2 header = SHORT version, BYTE type", a.C.InstrPos(at), fieldsStr(wf))
	}
	R.Floor(rule, 10)
}

func (a *An) c10SMPIndices(rule string) {
	R := a.R
	want := map[string][]string{
		"generateSMP1Message": {"generateZKP:1", "generateZKP:2"},
		"generateSMP2Message": {"generateZKP:3", "generateZKP:4", "hashMPIsBN:5"},
		"generateSMP3Message": {"hashMPIsBN:6", "hashMPIsBN:7"},
		"generateSMP4Message": {"hashMPIsBN:8"},
	}
	for name, w := range want {
		f := a.MustFn(name)
		if f == nil {
			continue
		}
		var got []string
		a.walkWithHelpers(f, 0, func(in ssa.Instruction) {
			c, ok := in.(*ssa.Call)
			if !ok {
				return
			}
			switch a.F.callName(c) {
			case "generateZKP":
				got = append(got, "generateZKP:"+a.C.Term(c.Call.Args[2]))
			case "hashMPIsBN":
				got = append(got, "hashMPIsBN:"+a.C.Term(c.Call.Args[1]))
			}
		})
		R.Check(strings.Join(got, ",") == strings.Join(w, ","), rule, name, "proof hash indices "+strings.Join(w, ","), a.C.Pos(f.Pos()), strings.Join(got, ","))
	}
	if f := a.MustFn("hashMPIs"); f != nil {
		var seq []string
		for _, b := range f.Blocks {
			for _, in := range b.Instrs {
				if c, ok := in.(*ssa.Call); ok && c.Call.IsInvoke() && c.Call.Method.Name() == "Write" {
					seq = append(seq, a.C.Term(c.Call.Args[0]))
				}
			}
		}
		R.Check(len(seq) == 2 && seq[0] == "new([1]byte)[:]" && strings.HasPrefix(seq[1], "AppendMPI(nil, "), rule, "hashMPIs", "hash of index byte ‖ MPI(each value)", a.C.Pos(f.Pos()), strings.Join(seq, " "))
	}
	if f := a.MustFn("generateZKP"); f != nil {
		if c := a.uniqueCall(rule, f, "hashMPIsBN"); c != nil {
			el := a.C.variadicElems(c.Call.Args[2])
			ok := a.C.Term(c.Call.Args[0]) == "otrVersion.hash2Instance($v)" && a.C.Term(c.Call.Args[1]) == "$ix" && len(el) == 1 && a.C.Term(el[0]) == "modExpP(global:g1, $r)"
			R.Check(ok, rule, "generateZKP|c", "c = hash(index, g1^r)", a.C.InstrPos(c), "hash arguments differ")
			if d := a.uniqueCall(rule, f, "generateDZKP"); d != nil {
				ok2 := a.C.Term(d.Call.Args[0]) == "$r" && a.C.Term(d.Call.Args[1]) == "$a" && d.Call.Args[2] == ssa.Value(c)
				R.Check(ok2, rule, "generateZKP|d", "d = r - a·c mod q", a.C.InstrPos(d), "arguments differ")
			}
		}
	}
	if f := a.MustFn("generateDZKP"); f != nil {
		for _, r := range a.returnsOf(f) {
			a.TermIs(rule, "generateDZKP", "d = (r - a·c) mod q", r, r.Results[0], "subMod($r, mul($a, $c), global:q)")
		}
	}
	R.Floor(rule, 7)
}

// replies built while a message is processed carry the peer tag adopted from that message: nothing resets
// the tag between header parsing and the dispatch
func (a *An) c10ReplyTag(rule string) {
	fn := a.MustFn("(*Conversation).receiveDecoded")
	fld := a.MustField("Conversation", "theirInstanceTag")
	if fn == nil || fld == nil {
		return
	}
	var dispatch []ssa.CallInstruction
	for _, n := range []string{"(*Conversation).receiveDataMessage", "(*Conversation).receiveAKEMessage"} {
		dispatch = append(dispatch, a.CallsIn(fn, n)...)
	}
	n := 0
	for _, st := range a.DirectStoresTo(fld) {
		if !a.C.within(st, fn) {
			continue
		}
		n++
		ok := true
		for _, d := range dispatch {
			if canReach(st, d) {
				ok = false
			}
		}
		a.R.Check(ok, rule, "receiveDecoded|no-reset-before-dispatch", "the peer tag is not reset between header parsing and the handlers (replies must be addressed to the sender of the message being answered)", a.C.InstrPos(st),
			"a store to theirInstanceTag can precede the dispatch: replies generated while handling the message are addressed with a stale receiver tag")
	}
	a.R.Check(len(dispatch) == 2, rule, "receiveDecoded|dispatch", "two dispatch sites", a.C.Pos(fn.Pos()), fmt.Sprintf("%d", len(dispatch)))
}

// cipherBuffers: the stream cipher is applied to buffers of equal length: at every (transitive) use of counterEncipher
// the destination is the source itself (in place) or a fresh buffer made with the length of the source. A destination
// of any other size leaves trailing bytes that the reader then hashes or parses (or loses the tail of the text).
func (a *An) cipherBuffers(rule string) {
	R := a.R
	prim := a.MustFn("counterEncipher")
	if prim == nil {
		return
	}
	n := 0
	var check func(call ssa.CallInstruction, src, dst ssa.Value, depth int)
	check = func(call ssa.CallInstruction, src, dst ssa.Value, depth int) {
		f := call.Parent()
		ps, srcIsP := src.(*ssa.Parameter)
		pd, dstIsP := dst.(*ssa.Parameter)
		if srcIsP && dstIsP && depth < 3 {
			if ps == pd {
				n++
				R.Ok(rule, a.C.Name(f)+"|in-place", "in place", a.C.InstrPos(call))
				return
			}
			for _, cs := range a.CallSites(f) {
				args := cs.Common().Args
				check(cs, args[paramIndex(ps)], args[paramIndex(pd)], depth+1)
			}
			return
		}
		n++
		good := src == dst
		if mk, ok := dst.(*ssa.MakeSlice); ok {
			good = a.C.Term(mk.Len) == "len("+a.C.Term(src)+")"
		}
		R.Check(good, rule, a.C.Name(f)+"|"+a.F.callName(call), "cipher output buffer has exactly the length of the input (same buffer, or make([]byte, len(input)))", a.C.InstrPos(call),
			"destination "+a.C.Term(dst)+" for source "+a.C.Term(src)+": the lengths are not tied together")
	}
	for _, cs := range a.CallSites(prim) {
		args := cs.Common().Args
		check(cs, args[2], args[3], 0)
	}
	// the primitive itself: one application of the key stream to the whole of (dst, src), on every path that succeeds
	var xs []ssa.CallInstruction
	for _, b := range prim.Blocks {
		for _, in := range b.Instrs {
			if call, ok := in.(ssa.CallInstruction); ok && call.Common().IsInvoke() && call.Common().Method.Name() == "XORKeyStream" {
				xs = append(xs, call)
			}
		}
	}
	whole := len(xs) == 1
	if whole {
		args := xs[0].Common().Args
		pd, okd := args[0].(*ssa.Parameter)
		ps, oks := args[1].(*ssa.Parameter)
		whole = okd && oks && paramIndex(pd) == 3 && paramIndex(ps) == 2
		for _, r := range a.returnsOf(prim) {
			if isNilConst(resolveLocal(r.Results[0])) && !instrDominates(xs[0], r) {
				whole = false
			}
		}
	}
	R.Check(whole, rule, "counterEncipher|whole", "the key stream is applied once, to the whole source into the whole destination, before every successful return", a.C.Pos(prim.Pos()),
		fmt.Sprintf("%d applications, or on parts / not on every path: bytes the stream is not applied to stay as they are — plaintext on the wire when the buffers are shared", len(xs)))
	R.Check(n >= 4, rule, "sites", "cipher applications found", "", fmt.Sprintf("%d", n))
}

// signatureLayout: a DSA signature goes on the wire as two 20-byte big-endian fields r ‖ s, each left-padded on its
// own: Sign copies r.Bytes() so that it ends at offset 20 and s.Bytes() so that it ends at offset 40 of a zeroed
// 40-byte buffer; Verify reads [0:20] and [20:40].
func (a *An) signatureLayout(rule string) {
	R := a.R
	f := a.MustFn("(*DSAPrivateKey).Sign")
	if f == nil {
		return
	}
	var out ssa.Value
	for _, r := range a.returnsOf(f) {
		if len(r.Results) == 2 && isNilConst(r.Results[1]) {
			out = r.Results[0]
		}
	}
	if out == nil {
		R.Viol(rule, "Sign|return", "Sign has a success return", a.C.Pos(f.Pos()), "not found")
		return
	}
	size := ""
	if sl, ok := out.(*ssa.Slice); ok {
		if al, isAl := sl.X.(*ssa.Alloc); isAl {
			size = typeName(al.Type())
		}
	}
	if mk, ok := out.(*ssa.MakeSlice); ok {
		size = "[" + a.C.Term(mk.Len) + "]byte"
	}
	R.Check(strings.Contains(size, "[40]byte"), rule, "Sign|size", "the signature is a fresh 40-byte buffer", a.C.Pos(f.Pos()), "it is "+a.C.Term(out)+" ("+size+")")
	gotR, gotS, ncopy := false, false, 0
	for _, b := range f.Blocks {
		for _, in := range b.Instrs {
			call, ok := in.(*ssa.Call)
			if !ok {
				continue
			}
			bi, isB := call.Call.Value.(*ssa.Builtin)
			if !isB || bi.Name() != "copy" {
				continue
			}
			dst, isS := call.Call.Args[0].(*ssa.Slice)
			if !isS || dst.X != out || dst.High != nil || dst.Low == nil {
				continue
			}
			ncopy++
			src := a.C.Term(call.Call.Args[1])
			low := a.C.Term(dst.Low)
			isBytes := strings.HasPrefix(src, "(*math/big.Int).Bytes(crypto/dsa.Sign(")
			if isBytes && strings.HasSuffix(src, ")#0)") && low == "(20 - len("+src+"))" {
				gotR = true
			}
			if isBytes && strings.HasSuffix(src, ")#1)") && (low == "(40 - len("+src+"))" || low == "(len("+a.C.Term(out)+") - len("+src+"))") {
				gotS = true
			}
		}
	}
	R.Check(gotR && gotS && ncopy == 2, rule, "Sign|fields", "r is right-aligned in bytes 0..19 and s in bytes 20..39 (each padded separately)", a.C.Pos(f.Pos()),
		fmt.Sprintf("r field ok=%v, s field ok=%v, %d copies into the buffer", gotR, gotS, ncopy))
	if v := a.MustFn("(*DSAPublicKey).Verify"); v != nil {
		if c := a.uniqueCall(rule, v, "crypto/dsa.Verify"); c != nil {
			rT, sT := a.C.Term(c.Call.Args[2]), a.C.Term(c.Call.Args[3])
			R.Check(strings.Contains(rT, "$sig[:20]") && strings.Contains(sT, "$sig[20:40]"), rule, "Verify|fields", "Verify reads r from bytes 0..19 and s from bytes 20..39", a.C.InstrPos(c), "r = "+rT+", s = "+sT)
		}
	}
}
