package main

import (
	"golang.org/x/tools/go/ssa"
)

// Loop is a natural loop: header plus body blocks.
type Loop struct {
	Header *ssa.BasicBlock
	Body   map[*ssa.BasicBlock]bool
}

// naturalLoops finds the natural loops of a function (back edge n→h with h dominating n).
func naturalLoops(f *ssa.Function) []*Loop {
	byHeader := map[*ssa.BasicBlock]*Loop{}
	var out []*Loop
	for _, n := range f.Blocks {
		for _, h := range n.Succs {
			if !h.Dominates(n) {
				continue
			}
			l := byHeader[h]
			if l == nil {
				l = &Loop{Header: h, Body: map[*ssa.BasicBlock]bool{h: true}}
				byHeader[h] = l
				out = append(out, l)
			}
			// body: all nodes that reach n without passing h
			stack := []*ssa.BasicBlock{n}
			for len(stack) > 0 {
				b := stack[len(stack)-1]
				stack = stack[:len(stack)-1]
				if l.Body[b] {
					continue
				}
				l.Body[b] = true
				stack = append(stack, b.Preds...)
			}
		}
	}
	return out
}

type loopExit struct {
	From, To *ssa.BasicBlock
}

func (l *Loop) Exits() []loopExit {
	var out []loopExit
	for b := range l.Body {
		for _, s := range b.Succs {
			if !l.Body[s] {
				out = append(out, loopExit{b, s})
			}
		}
	}
	return out
}

// loopContaining returns the innermost loop whose body contains the instruction.
func loopContaining(loops []*Loop, in ssa.Instruction) *Loop {
	var best *Loop
	for _, l := range loops {
		if l.Body[in.Block()] && (best == nil || len(l.Body) < len(best.Body)) {
			best = l
		}
	}
	return best
}
