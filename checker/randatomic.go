package main

import (
	"fmt"
	"sort"
	"strings"
)

// A.rand-atomic (C13): session state written on a path on which the function then fails because the randomness source
// failed. Such a pair is what leaves a conversation half way (a state that promises values which were never drawn, a
// key id that moved without its key): the next message then meets a state no handler expects. The pairs of the reviewed
// tree are a closed table (tables_gen.go: frozenRandAtomic, generated with -gentables); a new pair fails. The pairs are
// keyed by function, state written (coarse access path) and the failing source, never by position.

// randAtomicTags: the fields whose value promises that other values exist — the state tags of the three state machines and
// the key ids. The rule is about these: a tag that moved although the values it stands for were never drawn.
var randAtomicTags = map[string]bool{
	"Conversation.ake.state": true, "Conversation.msgState": true, "Conversation.smp.state": true,
	"Conversation.keys.ourKeyID": true, "Conversation.keys.theirKeyID": true,
}

func (a *An) currentRandAtomic() map[string]string {
	og := newOrigins(a.C)
	save := a.atomicMask
	a.atomicMask = OrigRandom
	defer func() { a.atomicMask = save }()
	out := map[string]string{}
	for _, f := range a.reachableFns(apiRoots...) {
		for _, h := range a.AtomicScan(f, sessionClass, og) {
			if h.Origin&OrigRandom == 0 {
				continue
			}
			// granularity: the field of the conversation (or of its exchange / key / SMP context) that is written
			parts := strings.Split(strings.ReplaceAll(h.Path, "[]", ""), ".")
			if len(parts) > 3 {
				parts = parts[:3]
			}
			what := strings.Join(parts, ".")
			if !randAtomicTags[what] {
				continue
			}
			key := fmt.Sprintf("%s|%s|then-fails:%s", a.C.alias(a.C.owner(f)), what, h.SrcKey)
			if _, has := out[key]; !has {
				out[key] = a.C.InstrPos(h.W) + " … " + a.C.InstrPos(h.R)
			}
		}
	}
	return out
}

func (a *An) c13RandAtomic(rule string) {
	cur := a.currentRandAtomic()
	was := map[string]bool{}
	for _, k := range frozenRandAtomic {
		was[k] = true
	}
	var keys []string
	for k := range cur {
		keys = append(keys, k)
	}
	sort.Strings(keys)
	n := 0
	for _, k := range keys {
		n++
		parts := strings.SplitN(k, "|", 3)
		a.R.Check(was[k], rule, k, "state written before a failure of the randomness source is a reviewed pair", cur[k],
			fmt.Sprintf("%s writes %s and can then fail because the randomness source failed (%s): the conversation is left with state that promises values never drawn — the next message meets a state no handler expects", parts[0], parts[1], strings.TrimPrefix(parts[2], "then-fails:")))
	}
	a.R.Extra["write_then_random_failure_pairs"] = n
	a.R.Floor(rule, 3)
}

func genRandAtomic(a *An) {
	fmt.Println()
	fmt.Println("var frozenRandAtomic = []string{")
	cur := a.currentRandAtomic()
	var keys []string
	for k := range cur {
		keys = append(keys, k)
	}
	sort.Strings(keys)
	for _, k := range keys {
		fmt.Printf("\t%q,\n", k)
	}
	fmt.Println("}")
}
