package main

import (
	"fmt"
	"go/token"
	"strings"

	"golang.org/x/tools/go/ssa"
)

func init() {
	register("C11", "Structural clause decided: SMPEventSuccess is raised in exactly two places, each behind the verification of the peer's proofs and the final comparison (Rab against Pa/Pb), and every full-success path of the two final handlers raises it while the comparison-failed path raises SMPEventFailure and aborts; the compared quantities are the specified ones; the SMP secret is the hash of (version byte, initiator fingerprint, responder fingerprint, session id, the user's secret exactly as given) with the two fingerprints mirrored between the initiating and the answering side, derived afresh on every start/answer and only in an encrypted session, and it is this secret that enters the exponent computations. Not decided: the algebra (equal secrets ⇒ success, different ⇒ failure), man-in-the-middle relays (follows from the binding, not decided).",
		func(a *An) {
			// the SMP messages of one conversation are built from that conversation's values only: nothing on the SMP paths
			// writes, or hands to a mutating library call, memory shared between messages or conversations (a pooled buffer)
			smpFns := map[*ssa.Function]bool{}
			for _, f := range a.reachableFns("(*Conversation).receiveSMP", "(*Conversation).processSMPTLV", "(*Conversation).StartAuthenticate", "(*Conversation).ProvideAuthenticationSecret", "(*Conversation).AbortAuthentication", "(tlv).smpMessage") {
				smpFns[f] = true
			}
			a.globalEffectsOn("E.smp-shared", smpFns, 20)
			a.globalEscapesOn("E.smp-shared-args", smpFns)
			a.smpAcceptConditions("P.smp-accept")
			// the identity hashed into the secret is the long-term key the peer authenticated: it is chosen when the version is
			// committed and by nothing else
			a.WhoMayWriteDirect("W.our-key", a.MustField("Conversation", "ourCurrentKey"), "(*Conversation).setKeyMatchingVersion")
			a.WhoMayCall("W.our-key", a.MustFn("(*Conversation).setKeyMatchingVersion"), "(*Conversation).commitToVersionFrom")
			a.tlvLoopComplete("S.tlv-loop")
			a.c11SSID("W.ssid")
			a.smpUseAfterVerify("G.smp-verify")
			a.c11Events()
			a.c11Secret()
			a.smpFinalComparisons("P.smp-final")
		})
}

func (a *An) smpFinalComparisons(rule string) {
	for n, want := range map[string]string{
		"(*Conversation).verifySMP3ProtocolSuccess": "passed:eq(modExpP(smp3Message.ra, smp2State.b3), divMod(smp3Message.pa, smp2State.pb, global:p))",
		"(*Conversation).verifySMP4ProtocolSuccess": "passed:eq(modExpP(smp4Message.rb, smp1State.a3), smp3State.papb)",
	} {
		a.SuccessRequires(rule, a.MustFn(n), want)
	}
	// what the compared state values are
	if f := a.MustFn("generateSMP3Message"); f != nil {
		fld := a.MustField("smp3State", "papb")
		n := 0
		for _, st := range a.DirectStoresTo(fld) {
			n++
			a.TermIs(rule, "generateSMP3Message|papb", "Pa/Pb kept for the final comparison", st, st.Val, "divMod(new(smp3Message).pa, smp2Message.pb, global:p)")
		}
		a.R.Check(n == 1, rule, "generateSMP3Message|papb-store", "papb is computed once", a.C.Pos(f.Pos()), fmt.Sprintf("%d", n))
		for _, st := range a.DirectStoresTo(a.MustField("smp3Message", "pa")) {
			if a.C.within(st, f) {
				a.TermIs(rule, "generateSMP3Message|pa", "Pa = g3^r4 with g3 = g3b^a3", st, st.Val, "modExpP(modExpP(smp2Message.g3b, smp1State.a3), smp3State.r4)")
			}
		}
	}
	// the values that carry the secret: Qa = g1^r4 · g2^x and Qb = g1^r4 · g2^y, with the same plain exponentiation as
	// the proofs that accompany them (a differently encoded exponent makes an honest run look cheated)
	if f := a.MustFn("generateSMP3Message"); f != nil {
		for _, st := range a.DirectStoresTo(a.MustField("smp3Message", "qa")) {
			if a.C.within(st, f) {
				a.TermIs(rule, "generateSMP3Message|qa", "Qa = g1^r4 * g2^x mod p", st, st.Val, "mulMod(modExpP(global:g1, smp3State.r4), modExpP(modExpP(smp2Message.g2b, smp1State.a2), smp3State.x), global:p)")
			}
		}
	}
	if f := a.MustFn("generateSMP2Message"); f != nil {
		for _, st := range a.DirectStoresTo(a.MustField("smp2State", "qb")) {
			if a.C.within(st, f) {
				a.TermIs(rule, "generateSMP2Message|qb", "Qb = g1^r4 * g2^y mod p", st, st.Val, "mulMod(modExpP(global:g1, smp2State.r4), modExpP(smp2State.g2, smp2State.y), global:p)")
			}
		}
		for _, st := range a.DirectStoresTo(a.MustField("smp2State", "pb")) {
			if a.C.within(st, f) {
				a.TermIs(rule, "generateSMP2Message|pb", "Pb = g3^r4", st, st.Val, "modExpP(smp2State.g3, smp2State.r4)")
			}
		}
	}
	for name, want := range map[string]string{"eq": "((*math/big.Int).Cmp($l, $r) == 0)"} {
		if fn := a.MustFn(name); fn != nil {
			for _, r := range a.returnsOf(fn) {
				a.TermIs(rule, name+"|definition", "equality helper", r, r.Results[0], want)
			}
		}
	}
	if fn := a.MustFn("divMod"); fn != nil {
		for _, r := range a.returnsOf(fn) {
			a.TermIs(rule, "divMod|definition", "modular division", r, r.Results[0], "mulMod($l, modInverse($r, $m), $m)")
		}
	}
}

func (a *An) c11Events() {
	R := a.R
	rule := "P.smp-events"
	succ, fail := a.MustConst("SMPEventSuccess"), a.MustConst("SMPEventFailure")
	for _, h := range []struct{ fn, verify, final string }{
		{"(smpStateExpect3).receiveMessage3", "(*Conversation).verifySMP3", "(*Conversation).verifySMP3ProtocolSuccess"},
		{"(smpStateExpect4).receiveMessage4", "(*Conversation).verifySMP4", "(*Conversation).verifySMP4ProtocolSuccess"},
	} {
		fn := a.MustFn(h.fn)
		if fn == nil {
			continue
		}
		vc := a.uniqueCall(rule, fn, h.verify)
		fc := a.uniqueCall(rule, fn, h.final)
		if vc == nil || fc == nil {
			continue
		}
		for _, finalOK := range []bool{true, false} {
			oracle := func(p *Path, cond ssa.Value) Tri {
				v := p.Resolve(cond)
				if bo, ok := v.(*ssa.BinOp); ok {
					for _, op := range []ssa.Value{bo.X, bo.Y} {
						if sc := statusCall(p.Resolve(op)); sc != nil {
							succeed := true
							if sc == fc {
								succeed = finalOK
							}
							return a.F.statusCond(p, cond, succeed)
						}
					}
				}
				return a.F.statusCond(p, cond, true)
			}
			paths, complete := a.C.Paths(fn, oracle, 256)
			key := fmt.Sprintf("%s|final-comparison=%v", h.fn, finalOK)
			if !complete || len(paths) == 0 {
				R.Undec(rule, key, "enumerate paths", a.C.Pos(fn.Pos()), "incomplete")
				continue
			}
			ok, d := true, ""
			for _, p := range paths {
				var evs []string
				for _, in := range p.Instrs {
					if c, isC := in.(*ssa.Call); isC && a.F.callName(c) == "(*Conversation).smpEvent" {
						evs = append(evs, a.C.Term(c.Call.Args[1]))
					}
				}
				st := "?"
				if p.Ret != nil {
					st = a.smpStateOf(p, p.Ret.Results[0], 0)
				}
				if finalOK {
					if len(evs) != 1 || evs[0] != succ {
						ok, d = false, "the full-success path raises events ["+strings.Join(evs, ",")+"], specified exactly SMPEventSuccess"
					}
				} else {
					if len(evs) != 1 || evs[0] != fail {
						ok, d = false, "the comparison-failed path raises events ["+strings.Join(evs, ",")+"], specified exactly SMPEventFailure"
					}
					if st != "smpStateExpect1" {
						ok, d = false, "the comparison-failed path ends in "+st
					}
					if p.Ret != nil && !strings.Contains(a.C.Term(p.Resolve(p.Ret.Results[1])), "sendSMPAbortAndRestartStateMachine") && !strings.Contains(a.C.Term(p.Resolve(p.Ret.Results[1])), "smpMessageAbort") {
						ok, d = false, "the comparison-failed path does not send an abort: "+a.C.Term(p.Resolve(p.Ret.Results[1]))
					}
				}
			}
			R.Check(ok, rule, key, "events and outcome when the final comparison "+map[bool]string{true: "holds", false: "fails"}[finalOK], a.C.Pos(fn.Pos()), d)
		}
	}
	R.Floor(rule, 4)
}

func (a *An) c11Secret() {
	R := a.R
	rule := "V.smp-secret"
	our := "PublicKey.Fingerprint(PrivateKey.PublicKey(Conversation.ourCurrentKey))"
	their := "PublicKey.Fingerprint(Conversation.theirKey)"
	for _, side := range []struct{ fn, first, second, secretArg string }{
		{"(smpStateExpect1).startAuthenticate", our, their, "$mutualSecret"},
		{"(smpStateWaitingForSecret).continueMessage1", their, our, "$mutualSecret"},
	} {
		fn := a.MustFn(side.fn)
		if fn == nil {
			continue
		}
		c := a.uniqueCall(rule, fn, "generateSMPSecret")
		if c == nil {
			continue
		}
		a.TermIs(rule, side.fn+"|initiator-fp", "first fingerprint (initiator's)", c, c.Call.Args[0], side.first)
		a.TermIs(rule, side.fn+"|responder-fp", "second fingerprint (responder's)", c, c.Call.Args[1], side.second)
		a.TermIs(rule, side.fn+"|ssid", "session id", c, c.Call.Args[2], "&Conversation.ssid[:]", "Conversation.ssid[:]")
		a.TermIs(rule, side.fn+"|secret", "the user's secret, unmodified", c, c.Call.Args[3], side.secretArg)
		// stored unconditionally, before anything is generated from it
		fld := a.MustField("smp", "secret")
		n := 0
		for _, st := range a.DirectStoresTo(fld) {
			if !a.C.within(st, fn) {
				continue
			}
			n++
			R.Check(st.Val == ssa.Value(c), rule, side.fn+"|stored", "the derived secret is what is stored", a.C.InstrPos(st), "stores "+a.C.Term(st.Val))
			for _, r := range a.returnsOf(fn) {
				ev := r.Results[len(r.Results)-1]
				if a.F.provablyNonNil(ev) {
					continue
				}
				if sc := statusCall(ev); sc != nil && a.F.LocalAt(r).Has("@fail:"+instKey(sc)) {
					continue
				}
				if !isNilConst(ev) && !strings.Contains(a.C.Term(r.Results[0]), "smpStateExpect") {
					continue
				}
				if isNilConst(ev) || strings.Contains(a.C.Term(r.Results[0]), "smpStateExpect3") {
					R.Check(instrDominates(st, r), rule, side.fn+"|fresh-every-run", "the secret is derived afresh on every run (the store dominates every successful exit)", a.C.InstrPos(r), "a successful exit is reachable without deriving the secret: a secret from an earlier run would be reused")
				}
			}
		}
		R.Check(n == 1, rule, side.fn+"|store", "the secret is stored once", a.C.Pos(fn.Pos()), fmt.Sprintf("%d stores", n))
	}
	// every way of starting or answering a run derives the secret afresh from the secret handed in, which reaches the
	// state handlers as the caller's slice itself (no copy into a bounded buffer, no reuse of an earlier derivation)
	nimpl := 0
	for _, f := range a.C.FuncSeq {
		if f.Signature.Recv() == nil || (f.Name() != "startAuthenticate" && f.Name() != "continueMessage1") || f.Blocks == nil {
			continue
		}
		nimpl++
		mo := a.F.MustOK(f)
		R.Check(mo.Has("called:generateSMPSecret"), rule, a.C.Name(f)+"|derives", "a handler that starts or answers a run without error has derived the SMP secret in this call", a.C.Pos(f.Pos()),
			"a successful return is reachable without generateSMPSecret: the run uses whatever secret an earlier run left behind")
		// where the handler delegates to another handler, its own secret parameter is what it hands on
		last := len(f.Params) - 1
		for _, b := range f.Blocks {
			for _, in := range b.Instrs {
				c, ok := in.(*ssa.Call)
				if !ok {
					continue
				}
				for _, g := range a.C.Callees(c) {
					g = a.C.unwrap(g)
					if (g.Name() == "startAuthenticate" || g.Name() == "continueMessage1") && len(c.Call.Args) > 0 {
						arg := c.Call.Args[len(c.Call.Args)-1]
						p, isP := arg.(*ssa.Parameter)
						R.Check(isP && paramIndex(p) == last, rule, a.C.Name(f)+"|hands-on|"+g.Name(), "the secret handed on is the handler's own secret parameter", a.C.InstrPos(c), "passes "+a.C.Term(arg))
					}
				}
			}
		}
	}
	R.Check(nimpl >= 4, rule, "handlers", "start/answer handlers found", "", fmt.Sprintf("%d", nimpl))
	for _, api := range []struct {
		fn, callee string
		param      int
	}{
		{"(*Conversation).StartAuthenticate", "smpState.startAuthenticate", 2},
		{"(*Conversation).ProvideAuthenticationSecret", "(*Conversation).continueSMP", 1},
		{"(*Conversation).continueSMP", "(*Conversation).continueMessage", 1},
		{"(*Conversation).continueMessage", "smpState.continueMessage1", 1},
	} {
		fn := a.MustFn(api.fn)
		if fn == nil {
			continue
		}
		cs := a.CallsIn(fn, api.callee)
		R.Check(len(cs) == 1, rule, api.fn+"|calls|"+api.callee, api.fn+" hands the secret to "+api.callee, a.C.Pos(fn.Pos()), fmt.Sprintf("%d calls", len(cs)))
		for _, c := range cs {
			args := c.Common().Args
			arg := args[len(args)-1]
			p, isP := arg.(*ssa.Parameter)
			R.Check(isP && paramIndex(p) == api.param, rule, api.fn+"|secret", "the secret passed on is the caller's slice itself, whole", a.C.InstrPos(c), "passes "+a.C.Term(arg))
		}
	}
	// the hash input
	if fn := a.MustFn("generateSMPSecret"); fn != nil {
		var hnew *ssa.Call
		var writes []*ssa.Call
		for _, b := range fn.Blocks {
			for _, in := range b.Instrs {
				c, ok := in.(*ssa.Call)
				if !ok {
					continue
				}
				if c.Call.IsInvoke() && c.Call.Method.Name() == "hash2Instance" {
					hnew = c
				}
				if c.Call.IsInvoke() && c.Call.Method.Name() == "Write" {
					writes = append(writes, c)
				}
			}
		}
		var got []string
		okOrder := hnew != nil
		for i, w := range writes {
			if w.Call.Value != ssa.Value(hnew) {
				okOrder = false
			}
			if i > 0 && !instrDominates(writes[i-1], w) {
				okOrder = false
			}
			got = append(got, a.C.Term(w.Call.Args[0]))
		}
		want := []string{"new([1]byte)[:]", "$initiatorFingerprint", "$recipientFingerprint", "$ssid", "$secret"}
		R.Check(okOrder && strings.Join(got, " ‖ ") == strings.Join(want, " ‖ "), rule, "generateSMPSecret|stream", "hash input = version byte ‖ initiator fp ‖ responder fp ‖ ssid ‖ secret", a.C.Pos(fn.Pos()), "hash input is "+strings.Join(got, " ‖ "))
		for _, r := range a.returnsOf(fn) {
			t := a.C.Term(r.Results[0])
			R.Check(strings.HasPrefix(t, "(*math/big.Int).SetBytes(new(Int), Hash.Sum(otrVersion.hash2Instance($v), nil)"), rule, "generateSMPSecret|result", "the secret is the hash value", a.C.InstrPos(r), "returns "+t)
		}
		a.TermIs(rule, "smpVersion", "SMP version byte", fn.Blocks[0].Instrs[0], ssaConstOf(a, "smpVersion"), "1")
	}
	// the secret enters the computations as x (initiator) and y (responder)
	for _, u := range []struct {
		fn, callee string
		idx        int
	}{
		{"(smpStateExpect2).receiveMessage2", "(*Conversation).generateSMP3", 1},
		{"(smpStateWaitingForSecret).continueMessage1", "(*Conversation).generateSMP2", 1},
		{"(smpStateExpect3).receiveMessage3", "(*Conversation).generateSMP4", 1},
	} {
		fn := a.MustFn(u.fn)
		if c := a.uniqueCall(rule, fn, u.callee); c != nil {
			a.TermIs(rule, u.fn+"|uses-secret", "secret handed to the generator", c, c.Call.Args[u.idx], "Conversation.smp.secret")
		}
	}
	for _, g := range []struct{ fn, fld, typ string }{{"(*Conversation).generateSMP3", "x", "smp3State"}, {"(*Conversation).generateSMP2", "y", "smp2State"}} {
		fn := a.MustFn(g.fn)
		if fn == nil {
			continue
		}
		n := 0
		for _, st := range a.DirectStoresTo(a.MustField(g.typ, g.fld)) {
			if a.C.within(st, fn) {
				n++
				a.TermIs(rule, g.fn+"|"+g.fld, "exponent "+g.fld, st, st.Val, "$secret")
			}
		}
		R.Check(n == 1, rule, g.fn+"|"+g.fld+"-store", "the secret becomes "+g.fld, a.C.Pos(fn.Pos()), fmt.Sprintf("%d", n))
	}
	R.Floor(rule, 16)
}

// ssaConstOf builds an ssa constant for a named package constant (for TermIs on constants).
func ssaConstOf(a *An, name string) ssa.Value {
	v := a.MustConst(name)
	for _, f := range a.C.FuncSeq {
		for _, b := range f.Blocks {
			for _, in := range b.Instrs {
				for _, op := range in.Operands(nil) {
					if k, ok := (*op).(*ssa.Const); ok && k.Value != nil && k.Value.ExactString() == v && strings.Contains(f.Name(), "generateSMPSecret") {
						return k
					}
				}
			}
		}
	}
	return ssa.NewConst(nil, nil)
}

// forwardLoad: a load from a field that was stored earlier in the same block (nothing in between that could write
// it: no call, no other store through the same field) reads the stored value.
func (a *An) forwardLoad(v ssa.Value) ssa.Value {
	ld, ok := v.(*ssa.UnOp)
	if !ok || ld.Op != token.MUL {
		return v
	}
	fa, ok := ld.X.(*ssa.FieldAddr)
	if !ok {
		return v
	}
	want := a.C.Term(fa)
	b := ld.Block()
	idx := -1
	for i, in := range b.Instrs {
		if in == ssa.Instruction(ld) {
			idx = i
		}
	}
	for i := idx - 1; i >= 0; i-- {
		switch x := b.Instrs[i].(type) {
		case *ssa.Store:
			if a.C.Term(x.Addr) == want {
				return x.Val
			}
		case ssa.CallInstruction:
			return v
		}
	}
	return v
}

// c11SSID: the session id that feeds the SMP secret is the one of the key exchange that produced the current keys:
// it is written in one place, from calculateAKEKeys, on every path.
func (a *An) c11SSID(rule string) {
	R := a.R
	fld := a.MustField("Conversation", "ssid")
	fn := a.MustFn("(*Conversation).calcAKEKeys")
	if fld == nil || fn == nil {
		return
	}
	n := 0
	for _, st := range a.DirectStoresTo(fld) {
		f := st.Parent()
		name := a.C.Name(f)
		if strings.Contains(strings.ToLower(f.Name()), "wipe") {
			continue
		}
		R.Check(f == fn, rule, "write|Conversation.ssid|"+name, "the session id is written only where the exchange keys are derived", a.C.InstrPos(st), name+" writes the session id")
		if f != fn {
			continue
		}
		n++
		v := a.forwardLoad(st.Val)
		t := a.C.Term(v)
		R.Check(strings.HasPrefix(t, "calculateAKEKeys(") && strings.HasSuffix(t, "#0"), rule, "calcAKEKeys|value", "the session id is the first result of calculateAKEKeys for this exchange", a.C.InstrPos(st), "stores "+t)
		for _, r := range a.returnsOf(fn) {
			R.Check(instrDominates(st, r), rule, "calcAKEKeys|unconditional", "the session id is replaced on every exchange (also when refreshing an encrypted session)", a.C.InstrPos(r), "a return is reachable without the store")
		}
	}
	R.Check(n == 1, rule, "calcAKEKeys|store", "calcAKEKeys stores the session id", a.C.Pos(fn.Pos()), fmt.Sprintf("%d stores", n))
}
