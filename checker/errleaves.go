package main

import (
	"go/token"
	"sort"
	"strings"

	"golang.org/x/tools/go/ssa"
)

// errLeaves: the set of places a function's failure can originate from — the leaves of the expression tree of its
// returned status over all returns, followed through calls inside the two packages: a constructed error with the
// head of its text, a package-level error variable, a failing library call, a false verdict. A function acquires a new
// leaf exactly when it (or something it calls) can newly reject.
type errLeaves struct {
	a    *An
	memo map[*ssa.Function]map[string]bool
	busy map[*ssa.Function]bool
}

func (a *An) newErrLeaves() *errLeaves {
	return &errLeaves{a: a, memo: map[*ssa.Function]map[string]bool{}, busy: map[*ssa.Function]bool{}}
}

func (e *errLeaves) of(f *ssa.Function) map[string]bool {
	f = e.a.C.unwrap(f)
	if m, ok := e.memo[f]; ok {
		return m
	}
	out := map[string]bool{}
	if !e.a.C.IsLib(f) || f.Blocks == nil {
		out["lib:"+f.String()] = true
		return out
	}
	if e.busy[f] {
		return out
	}
	e.busy[f] = true
	si := statusIndex(f.Signature)
	if si >= 0 {
		for _, b := range f.Blocks {
			if b != f.Blocks[0] && len(b.Preds) == 0 {
				continue
			}
			if ret, ok := b.Instrs[len(b.Instrs)-1].(*ssa.Return); ok && len(ret.Results) > si {
				e.val(ret.Results[si], 0, out, map[ssa.Value]bool{})
			}
		}
	}
	e.busy[f] = false
	e.memo[f] = out
	return out
}

func (e *errLeaves) val(v ssa.Value, d int, out map[string]bool, seen map[ssa.Value]bool) {
	if d > 10 || seen[v] {
		return
	}
	seen[v] = true
	if isNilConst(v) {
		return
	}
	switch x := v.(type) {
	case *ssa.Const:
		if isBoolType(x.Type()) && x.Value != nil && x.Value.ExactString() == "false" {
			out["false"] = true
		}
	case *ssa.MakeInterface:
		out["value:"+typeName(x.X.Type())] = true
	case *ssa.Call:
		e.call(x, d, out, seen)
	case *ssa.Extract:
		if call, ok := x.Tuple.(*ssa.Call); ok {
			e.call(call, d, out, seen)
		} else {
			out["?"+e.a.C.Term(v)] = true
		}
	case *ssa.Phi:
		for _, ed := range x.Edges {
			e.val(ed, d+1, out, seen)
		}
	case *ssa.ChangeInterface:
		e.val(x.X, d+1, out, seen)
	case *ssa.Parameter:
		out["param"] = true
	case *ssa.BinOp, *ssa.UnOp:
		if u, ok := v.(*ssa.UnOp); ok && u.Op == token.MUL {
			if g, ok := u.X.(*ssa.Global); ok {
				out["var:"+g.Name()] = true
				return
			}
			if al, ok := u.X.(*ssa.Alloc); ok && al.Referrers() != nil {
				// the store that reaches this load (a named result spilled because of a defer), when it is unique
				if sv := localStore(u); sv != nil {
					e.val(sv, d+1, out, seen)
					return
				}
				for _, ref := range *al.Referrers() {
					if st, ok := ref.(*ssa.Store); ok && st.Addr == ssa.Value(al) {
						e.val(st.Val, d+1, out, seen)
					}
				}
				return
			}
			out["load:"+e.a.C.Term(v)] = true
			return
		}
		if isBoolType(v.Type()) {
			out["test"] = true // a computed verdict (comparison)
			return
		}
		out["?"+e.a.C.Term(v)] = true
	default:
		if isBoolType(v.Type()) {
			out["test"] = true
			return
		}
		out["?"+e.a.C.Term(v)] = true
	}
}

func (e *errLeaves) call(call *ssa.Call, d int, out map[string]bool, seen map[ssa.Value]bool) {
	name := e.a.F.callName(call)
	switch name {
	case "newOtrError", "newOtrConflictError", "newOtrErrorf":
		txt := ""
		if len(call.Call.Args) > 0 {
			txt = leftString(call.Call.Args[0])
		}
		out["new:"+strings.Trim(txt, "\"")] = true
		return
	case "firstError":
		if len(call.Call.Args) == 1 {
			for _, el := range e.a.C.variadicElems(call.Call.Args[0]) {
				e.val(el, d+1, out, seen)
			}
			return
		}
	}
	callees := e.a.C.Callees(call)
	if len(callees) == 0 {
		out["dyn:"+name] = true
		return
	}
	for _, g := range callees {
		g = e.a.C.unwrap(g)
		if !e.a.C.IsLib(g) {
			out["lib:"+name] = true
			continue
		}
		// a pass-through parameter stands for the argument
		sub := e.of(g)
		for k := range sub {
			if k == "param" {
				if si := statusIndex(g.Signature); si >= 0 {
					for _, b := range g.Blocks {
						if r, ok := b.Instrs[len(b.Instrs)-1].(*ssa.Return); ok && len(r.Results) > si {
							if p, isP := r.Results[si].(*ssa.Parameter); isP {
								if i := paramIndex(p); i < len(call.Call.Args) {
									e.val(call.Call.Args[i], d+1, out, seen)
								}
							}
						}
					}
				}
				continue
			}
			out[k] = true
		}
	}
}

func sortedKeys(m map[string]bool) []string {
	var out []string
	for k := range m {
		out = append(out, k)
	}
	sort.Strings(out)
	return out
}

// acceptPathErrors: the reasons for which an authentic, in-order data message can still be refused (or its effects cut
// short) form a closed, reviewed table per function of the path behind the MAC and counter checks. A new reason — a
// stricter check on the announced key, on padding, on a TLV — loses genuine messages that the peer's sender emits.
var acceptPathErrors = map[string][]string{
	"(*Conversation).rotateKeys":                     {"lib:io.ReadFull", "var:errShortRandomRead"},
	"(*plainDataMsg).decrypt":                        {"lib:crypto/aes.NewCipher", "new:wrong tlv type", "new:wrong tlv length", "new:wrong tlv value"},
	"(*Conversation).processPaddingTLV":              {},
	"(*Conversation).processDisconnectedTLV":         {},
	"(*Conversation).processExtraSymmetricKeyTLV":    {},
	"(*keyManagementContext).checkMessageCounter":    {"new:counter regressed"},
	"(*keyManagementContext).calculateDHSessionKeys": {"new:invalid key id for local peer", "new:mismatched key id for local peer", "new:invalid key id for remote peer", "new:mismatched key id for remote peer", "new:no previous key for remote peer found"},
}

func (a *An) acceptPathErrorTable(rule string) {
	R := a.R
	el := a.newErrLeaves()
	for _, name := range sortedKeys(func() map[string]bool {
		m := map[string]bool{}
		for k := range acceptPathErrors {
			m[k] = true
		}
		return m
	}()) {
		f := a.MustFn(name)
		if f == nil {
			continue
		}
		allowed := acceptPathErrors[name]
		var extra []string
		for _, k := range sortedKeys(el.of(f)) {
			ok := false
			for _, w := range allowed {
				if k == w || strings.HasPrefix(k, w) {
					ok = true
				}
			}
			if !ok {
				extra = append(extra, k)
			}
		}
		R.Check(len(extra) == 0, rule, name, "the reasons for which "+name+" can fail are the reviewed ones", a.C.Pos(f.Pos()),
			"new failure reason(s): "+strings.Join(extra, "; ")+" — a message (or key, padding, TLV) that the honest peer produces can now be refused behind the authenticity checks and its text is lost")
	}
}
