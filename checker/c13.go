package main

import (
	"fmt"
	"go/ast"
	"go/token"
	"go/types"
	"regexp"
	"sort"
	"strings"

	"golang.org/x/tools/go/ssa"
)

func init() {
	register("C13", "Structural clause decided: (nil) every dispatch on c.smp.state and every dereference of c.ake is reached only in states where the field was established and not reset since (must-analysis with kills, inter-procedural); (bounds) the set of index/slice operations that the Go compiler's own prove pass cannot discharge equals a reviewed table — each entry with its reason and, where a local check is what makes it safe, the dominating comparison it needs — so a removed length test shows up as a new undischarged bounds check; (alloc) every allocation size is a constant, linear in the length of existing data, or an untrusted count with a dominating bound by the input length; (narrowing) the set of lossy integer conversions equals a reviewed table; (panic) no explicit panic or unchecked type assertion is reachable from the parsers beyond the reviewed ones; (sexp) UnreadByte only after a successful ReadByte and every reader loop consumes input on each iteration; (random) every error of the randomness helpers is tested or propagated and io.ReadFull is only called by randomInto; (random-atomic) the pairs (a state tag of one of the three state machines or a key id is written, and the function can then fail because the randomness source failed) equal a reviewed table, so a tag moved ahead of the draw it stands for is reported. Not decided: termination and memory use in general, recursion depth of the s-expression reader, time.",
		func(a *An) {
			a.nilDispatch("U.nil")
			a.boundsTable("U.bounds")
			a.allocSizes("U.alloc")
			a.closedBigOps("U.bigint-ops")
			a.narrowings("U.narrow", false)
			a.panicsAndAsserts("U.panic")
			a.sexpDiscipline("S.sexp")
			a.randomDiscipline("E.random")
			a.akeStateInvariant("T.ake-state")
			a.c13RandAtomic("A.rand-atomic")
			a.smpStateCommittedLast("S.smp-commit-last")
			a.c16Whitespace() // the tag scan consumes one group per iteration (no iteration without progress)
			a.retireImpliesMove()
			a.fragmentResetBeforeDispatch("S.fragment-reset")
		})
}

func (a *An) nilDispatch(rule string) {
	n := newNilAn(a, "Conversation.smp.state", "Conversation.ake")
	sites := n.derefSites()
	cnt := map[string]int{}
	for _, s := range sites {
		fn := a.C.Name(s.in.Parent())
		desc := "deref"
		if call, ok := s.in.(ssa.CallInstruction); ok {
			desc = "dispatch " + a.F.callName(call)
		} else if fa, ok := s.in.(*ssa.FieldAddr); ok {
			desc = "field " + fieldOf(fa).Name()
		}
		key := ordinalKey(fn+"|"+s.abs+"|"+desc, cnt)
		st, reached := n.stateBefore(s.in)
		if !reached {
			a.R.Ok(rule, key, "unreachable", a.C.InstrPos(s.in))
			continue
		}
		a.R.Check(st[s.cell], rule, key, s.abs+" is established (and not reset) on every path to its use", a.C.InstrPos(s.in),
			"on some path from an API entry point "+s.abs+" may be nil here (never established, or reset by a wipe/End/disconnect since): nil dereference")
	}
	a.R.Floor(rule, 20)
}

// ---- bounds -------------------------------------------------------------------------------------

type boundsEntry struct {
	reason string
	needs  []string // local facts that must hold at the site (any instruction at that source position)
}

// reviewed table of bounds checks the compiler cannot discharge on today's tree: function|kind|expression
var boundsTable = map[string]boundsEntry{
	"verifyEncryptedSignatureMAC|IsSliceInBounds|sumHMAC(_.m2,_,_)[:_.truncateLength()]": {"HMAC-SHA256 output is 32 bytes, truncateLength is 20 (rule P.ake-checks checks the constant)", nil},
	"b64decode|IsSliceInBounds|_[:_]": {"base64 Decode returns n <= len(dst)", nil},
	"*Conversation.processExtraSymmetricKeyTLV|IsSliceInBounds|_.tlvValue[:_.tlvLength]": {"tlv.deserialize builds tlvValue as tlvsBytes[:tlvLength], so len(tlvValue) == tlvLength", nil},
	"fragmentData|IsSliceInBounds|_[fragmentStart(_,_):fragmentEnd(_,_,_)]":              {"sender side: i*fraglen <= min((i+1)*fraglen, l) <= len(data) for i < numFragments (rule V.fragment-arith of C14)", nil},
	"fragmentData|IsSliceInBounds|_[_*_:min((_+1)*_,_)]":                                 {"sender side: i*fraglen <= min((i+1)*fraglen, l) <= len(data) for i < numFragments (rule V.fragment-arith of C14)", nil},
	"*Conversation.fragment|IsInBounds|fragmentSeparator[0]":                             {"package-level one-element slice (rule E.globals: never modified)", nil},
	"ExtractFixedData|IsSliceInBounds|_[_:]":                                             {"len(d) >= l is tested; l is a caller-supplied length, not message data", []string{"passed:($l <= len($d))"}},
	"DeserializeShort|IsInBounds|":                                                       {"documented to panic on short input; every library caller tests the length first (Extract*)", nil},
	"DeserializeWord|IsInBounds|":                                                        {"documented to panic on short input; every library caller tests the length first (Extract*)", nil},
	"DeserializeLong|IsInBounds|":                                                        {"documented to panic on short input; every library caller tests the length first (Extract*)", nil},
	"ExtractInstanceTags|IsInBounds|bytes.Split(_,fragmentSeparator)[0]":                 {"bytes.Split returns at least one element", nil},
	"otrV3.parseFragmentPrefix|IsInBounds|bytes.Split(_,fragmentSeparator)[0]":           {"bytes.Split returns at least one element", nil},
	"*macKeyHistory.deleteKeysAt|IsInBounds|_.items[_[_]]":                               {"indices collected by the callers while ranging over h.items", nil},
	"*macKeyHistory.deleteKeysAt|IsSliceInBounds|_.items[:_-1]":                          {"l = len(h.items) >= 1 whenever an index was collected", nil},
	"calculateDHSessionKeys|IsSliceInBounds|h(_,_,_)[:_.keyLength()]":                    {"SHA-1 output (20 bytes) >= key length 16", nil},
	"calculateAKEKeys|IsSliceInBounds|h(0x00,_,_)[:8]":                                   {"SHA-256 output is 32 bytes", nil},
	"calculateAKEKeys|IsSliceInBounds|_[:16]":                                            {"SHA-256 output is 32 bytes", nil},
	"calculateAKEKeys|IsSliceInBounds|_[16:]":                                            {"SHA-256 output is 32 bytes", nil},
	"*DSAPublicKey.Fingerprint|IsSliceInBounds|_[2:]":                                    {"a non-nil serialisation starts with the 2-byte key type", nil},
	"*DSAPrivateKey.Sign|IsSliceInBounds|_[20-len(_):]":                                  {"r, s < q with q of 160 bits (own key)", nil},
	"*DSAPrivateKey.Sign|IsSliceInBounds|_[len(_)-len(_):]":                              {"r, s < q with q of 160 bits (own key)", nil},
	"encrypt|IsSliceInBounds|_[:aes.BlockSize]":                                          {"callers encrypt at least one MPI / key block; own data", nil},
	"*DSAPrivateKey.Import|IsSliceInBounds|_[_+len(_):]":                                 {"start is the position of mpiStart found by bytes.Index", []string{"~passed:(bytes.Index(&& != -1)"}},
	"*DSAPrivateKey.Import|IsSliceInBounds|_[:_]":                                        {"end found by bytes.IndexFunc", nil},
	"*DSAPrivateKey.Import|IsSliceInBounds|_[_:]":                                        {"end found by bytes.IndexFunc", nil},
	"revealSig.serialize|IsSliceInBounds|_.macSig[:_.truncateLength()]":                  {"own MAC (32 bytes) truncated to 20", nil},
	"sig.serialize|IsSliceInBounds|_.macSig[:_.truncateLength()]":                        {"own MAC (32 bytes) truncated to 20", nil},
	"*dataMsg.deserializeUnsigned|IsSliceInBounds|_[:len(_)-len(_)]":                     {"in is a suffix of msg (only ever re-sliced forward)", nil},
	"*dataMsg.deserialize|IsSliceInBounds|_[len(_.serializeUnsignedCache):]":             {"the cache is a prefix of msg", nil},
	"*dataMsg.deserialize|IsSliceInBounds|_[0:_.hashLength()]":                           {"guarded by the length test added for D05", []string{"passed:(len($msg[len(dataMsg.serializeUnsignedCache):]) >= otrVersion.hashLength($v))"}},
	"*dataMsg.deserialize|IsSliceInBounds|_[len(_.authenticator):]":                      {"authenticator is msg[0:hashLength]", nil},
	"*dataMsg.deserialize|IsSliceInBounds|_[len(_):]":                                    {"len(revKeysBytes) >= hashLength tested in the loop", nil},
	"*plainDataMsg.deserialize|IsSliceInBounds|_[:_]":                                    {"nulPos < len(msg) tested", nil},
	"*plainDataMsg.deserialize|IsSliceInBounds|_[_+1:]":                                  {"nulPos < len(msg) tested", nil},
	"*plainDataMsg.deserialize|IsSliceInBounds|_[4+int(_.tlvLength):]":                   {"tlv.deserialize succeeded: len(tlvsBytes) >= 4 + tlvLength", []string{"ok:(*tlv).deserialize"}},
	"plainDataMsg.serialize|IsInBounds|_.tlvs[_]":                                        {"i ranges over c.tlvs", nil},
	"parseOTRQueryMessage|IsInBounds|_[0]":                                               {"len(msg) > len(queryMarker) tested", []string{"passed:(len($msg) > len(global:queryMarker))"}},
	"*Conversation.receiveErrorMessage|IsSliceInBounds|_[len(errorMarker):]":             {"reached only for messages with the error marker prefix (guessMessageType)", nil},
	"removeOTRMsgEnvelope|IsSliceInBounds|_[len(msgMarker):len(_)-1]":                    {"decode tests len(encoded) > len(msgMarker) first (D18)", nil},
	"decode|IsSliceInBounds|":                                                            {"inlined removeOTRMsgEnvelope, guarded by the length test added for D18", []string{"passed:(len($encoded) > len(global:msgMarker))"}},
	"*Conversation.receiveDecoded|IsInBounds|_[2]":                                       {"a successfully parsed header has 3 (v2) or 11 (v3) bytes", []string{"ok:(*Conversation).parseMessageHeader"}},
	"messageHandlerForTLV|IsInBounds|tlvHandlers[_.tlvType]":                             {"type tested against len(tlvHandlers)", []string{"passed:(tlv.tlvType < uint16(len(global:tlvHandlers)))"}},
	"*Conversation.processTLVs|IsInBounds|":                                              {"inlined messageHandlerForTLV", nil},
	"toSmpMessage1Q|IsSliceInBounds|_.tlvValue[:_]":                                      {"nulPos found by IndexByte", []string{"passed:(bytes.IndexByte(tlv.tlvValue, 0) != -1)"}},
	"toSmpMessage1Q|IsSliceInBounds|_.tlvValue[(_+1):]":                                  {"nulPos found by IndexByte", []string{"passed:(bytes.IndexByte(tlv.tlvValue, 0) != -1)"}},
	"extractWhitespaceTag|IsSliceInBounds|_[_+len(whitespaceTagHeader):]":                {"called only for messages that contain the tag header (guessMessageType)", nil},
	"extractWhitespaceTag|IsSliceInBounds|_[:_]":                                         {"called only for messages that contain the tag header (guessMessageType)", nil},
	"*keyManagementContext.wipe|IsInBounds|_.oldMACKeys[_]":                              {"i ranges over the slice", nil},
	"*keyManagementContext.wipe|IsInBounds|":                                             {"inlined loops over own slices", nil},
	"*counterHistory.wipe|IsInBounds|_.counters[_]":                                      {"i ranges over the slice", nil},
	"*macKeyHistory.wipe|IsInBounds|_.items[_]":                                          {"i ranges over the slice", nil},
	"*macKeyHistory.forgetMACKeysForOurKey|IsInBounds|":                                  {"inlined deleteKeysAt", nil},
	"*macKeyHistory.forgetMACKeysForOurKey|IsSliceInBounds|":                             {"inlined deleteKeysAt", nil},
	"*macKeyHistory.forgetMACKeysForTheirKey|IsInBounds|":                                {"inlined deleteKeysAt", nil},
	"*macKeyHistory.forgetMACKeysForTheirKey|IsSliceInBounds|":                           {"inlined deleteKeysAt", nil},
	"*Conversation.calcXb|IsSliceInBounds|":                                              {"inlined encrypt", nil},
	"*Conversation.dhCommitMessage|IsSliceInBounds|":                                     {"inlined encrypt", nil},
	"*Conversation.sigMessage|IsSliceInBounds|":                                          {"inlined helper on own data", nil},
	"*Conversation.fragment|IsSliceInBounds|":                                            {"inlined fragmentData", nil},
	"sexp.peek|IsInBounds|":                                                              {"inlined bufio.Reader internals", nil},
	"sexp.expect|IsInBounds|":                                                            {"inlined bufio.Reader internals", nil},
	"initTLVHandlers|IsInBounds|*":                                                       {"constant indices 0..8 into the 9-element handler table", nil},
}

var genericBounds = []struct {
	kind   string
	re     *regexp.Regexp
	reason string
}{
	{"IsInBounds", regexp.MustCompile(`^(bytes|strings)\.Split\([^()]*\)\[0\]$`), "Split (n = -1) returns at least one element"},
}

func (a *An) boundsTable(rule string) {
	if a.C.GOARCH != "" {
		a.R.Note("bounds table: evaluated on the default configuration only (the prove pass discharges a different set on %s)", a.C.GOARCH)
		return
	}
	sites, err := unprovenBounds(a.C)
	if err != nil {
		a.R.Undec(rule, "compiler-listing", "obtain the compiler's list of undischarged bounds checks", "", err.Error())
		return
	}
	a.R.Extra["compiler_unproven_bounds_checks"] = len(sites)
	// instruction lookup by position for fact requirements
	posFacts := func(s BCESite, need string) bool {
		okAny := false
		for _, f := range a.C.FuncSeq {
			for _, b := range f.Blocks {
				for _, in := range b.Instrs {
					if !in.Pos().IsValid() {
						continue
					}
					p := a.C.Fset.Position(in.Pos())
					if p.Line == s.Line && strings.HasSuffix(p.Filename, "/"+s.File) {
						if factMatch(a.F.LocalAt(in), need) {
							okAny = true
						} else {
							switch in.(type) {
							case *ssa.Slice, *ssa.IndexAddr, *ssa.Index:
								return false
							}
						}
					}
				}
			}
		}
		return okAny
	}
	dead := map[string]bool{}
	for _, g := range a.C.FuncSeq {
		if a.deadNew(g) {
			dead[a.bceName(g)] = true
		}
	}
	a.R.Extra["new_unreferenced_functions_skipped"] = len(dead)
	liveBCE := map[string]bool{}
	for _, g := range a.C.FuncSeq {
		liveBCE[a.bceName(g)] = true
	}
	seen := map[string]int{}
	// reviewed multiplicities: how often each keyed expression occurs on the reviewed tree (more occurrences of the same
	// shape in the same function are new sites); keys without an expression (inlined callee bodies) vary with inlining
	maxCount := map[string]int{
		"calculateDHSessionKeys|IsSliceInBounds|h(_,_,_)[:_.keyLength()]": 2,
		"plainDataMsg.serialize|IsInBounds|_.tlvs[_]":                     3,
		"*keyManagementContext.wipe|IsInBounds|_.oldMACKeys[_]":           2,
		"*counterHistory.wipe|IsInBounds|_.counters[_]":                   2,
		"*macKeyHistory.wipe|IsInBounds|_.items[_]":                       2,
	}
	for _, s := range sites {
		key := s.Func + "|" + s.Kind + "|" + s.Expr
		e, ok := boundsTable[key]
		if !ok {
			e, ok = boundsTable[s.Func+"|"+s.Kind+"|*"]
		}
		if !ok && s.Expr == "" {
			// the inlined body of a new single-use helper: its sites are judged in the helper itself
			for _, g := range a.C.FuncSeq {
				if a.C.isNew(g) && a.C.owner(g) != g && a.bceOwnerOf(g) == s.Func {
					e, ok = boundsEntry{"inlined body of the new helper " + a.C.Name(g) + " (judged there)", nil}, true
				}
			}
		}
		if !ok {
			// a site inside a new single-use helper is a site of the function the helper was taken from; operands that
			// were fields of a local there are plain parameters here
			if owner := a.bceOwner(s.Func); owner != "" {
				want := stripSelectors(s.Expr)
				var cands []string
				for k := range boundsTable {
					parts := strings.SplitN(k, "|", 3)
					if len(parts) == 3 && parts[0] == owner && parts[1] == s.Kind && parts[2] != "" && stripSelectors(parts[2]) == want {
						cands = append(cands, k)
					}
				}
				sort.Strings(cands)
				for _, k := range cands {
					cand := boundsTable[k]
					all := true
					for _, need := range cand.needs {
						if !posFacts(s, need) {
							all = false
						}
					}
					if all {
						e, ok = cand, true
						key = k
						break
					}
				}
			}
		}
		if !ok && s.Expr != "" {
			// a reviewed site of a function that is gone from the tree (a one-line helper written out in its caller): the
			// same expression of the same kind, judged by the reviewed entry (its dominating tests are looked for here)
			var cands []string
			for k := range boundsTable {
				parts := strings.SplitN(k, "|", 3)
				if len(parts) == 3 && parts[1] == s.Kind && parts[2] == s.Expr && !liveBCE[parts[0]] {
					cands = append(cands, k)
				}
			}
			sort.Strings(cands)
			if len(cands) > 0 {
				e, ok = boundsTable[cands[0]], true
				key = cands[0]
			}
		}
		if !ok {
			// patterns that are in range wherever they occur
			for _, g := range genericBounds {
				if g.kind == s.Kind && g.re.MatchString(s.Expr) {
					e, ok = boundsEntry{g.reason, nil}, true
				}
			}
		}
		seen[key]++
		okey := key
		if seen[key] > 1 {
			okey = fmt.Sprintf("%s#%d", key, seen[key])
		}
		pos := fmt.Sprintf("%s:%d", s.File, s.Line)
		if ok && s.Expr != "" {
			lim := maxCount[key]
			if lim == 0 {
				lim = 1
			}
			if _, wild := boundsTable[s.Func+"|"+s.Kind+"|*"]; !wild && seen[key] > lim {
				ok = false
			}
		}
		if a.boundsFilter != nil && !a.boundsFilter(s.Func) {
			continue
		}
		if !ok && dead[s.Func] {
			continue // a new unexported function that nothing calls or takes the value of: no input reaches it
		}
		if !ok {
			a.R.Viol(rule, "site|"+okey, "every bounds check the compiler cannot discharge is a reviewed one", pos,
				"new undischarged "+s.Kind+" in "+s.Func+" ("+s.Expr+"): the compiler can no longer prove this index/slice in range — typically a length test was removed or weakened; on attacker-controlled data this is a crash")
			continue
		}
		good := true
		miss := ""
		for _, need := range e.needs {
			if !posFacts(s, need) {
				good = false
				miss = need
			}
		}
		a.R.Check(good, rule, "site|"+okey, "reviewed undischarged bounds check: "+e.reason, pos, "the dominating test it relies on is gone: "+miss)
	}
	// inlined duplicates may legitimately vary in number; the per-key table above is the check
	if a.boundsFilter != nil {
		a.R.Floor(rule, 8)
	} else {
		a.R.Floor(rule, 40)
	}
}

// ---- allocation sizes ----------------------------------------------------------------------------

var sizeFuncs = map[string]bool{
	"otrVersion.hashLength": true, "otrVersion.hash2Length": true, "otrVersion.parameterLength": true, "otrVersion.keyLength": true, "otrVersion.truncateLength": true,
	"(*encoding/base64.Encoding).EncodedLen": true, "(*encoding/base64.Encoding).DecodedLen": true,
}

// sizeClass: "" = fine; otherwise the offending leaf
func (a *An) sizeBad(v ssa.Value, d int) string {
	if d > 10 {
		return "?deep"
	}
	switch x := v.(type) {
	case *ssa.Const:
		return ""
	case *ssa.Convert:
		return a.sizeBad(x.X, d+1)
	case *ssa.ChangeType:
		return a.sizeBad(x.X, d+1)
	case *ssa.BinOp:
		switch x.Op {
		case token.ADD, token.SUB, token.QUO, token.REM, token.AND, token.SHR:
			if s := a.sizeBad(x.X, d+1); s != "" {
				return s
			}
			return a.sizeBad(x.Y, d+1)
		case token.MUL, token.SHL:
			_, lc := x.X.(*ssa.Const)
			_, rc := x.Y.(*ssa.Const)
			lsz := a.isSizeCall(x.X)
			rsz := a.isSizeCall(x.Y)
			if lc || rc || lsz || rsz {
				if s := a.sizeBad(x.X, d+1); s != "" {
					return s
				}
				return a.sizeBad(x.Y, d+1)
			}
			return "product of two non-constant values " + a.C.Term(v)
		}
		return "operator " + x.Op.String()
	case *ssa.Call:
		if b, ok := x.Call.Value.(*ssa.Builtin); ok && (b.Name() == "len" || b.Name() == "cap") {
			return ""
		}
		if a.isSizeCall(x) {
			return ""
		}
		return "call " + a.C.Term(v)
	case *ssa.Phi:
		for _, e := range x.Edges {
			if e == v {
				continue
			}
			if s := a.sizeBad(e, d+1); s != "" {
				return s
			}
		}
		return ""
	case *ssa.Parameter:
		return "param:" + x.Name()
	}
	if t := a.C.Term(v); t == "Conversation.fragmentSize" {
		return "" // local configuration (SetFragmentSize), not peer data
	}
	return a.C.Term(v)
}

func (a *An) isSizeCall(v ssa.Value) bool {
	c, ok := v.(*ssa.Call)
	if !ok {
		if cv, isConv := v.(*ssa.Convert); isConv {
			return a.isSizeCall(cv.X)
		}
		return false
	}
	return sizeFuncs[a.F.callName(c)]
}

func (a *An) allocSizes(rule string) {
	cnt := map[string]int{}
	n := 0
	for _, f := range a.C.FuncSeq {
		for _, b := range f.Blocks {
			for _, in := range b.Instrs {
				ms, ok := in.(*ssa.MakeSlice)
				if !ok {
					continue
				}
				n++
				fn := a.C.Name(f)
				key := ordinalKey(fn+"|make "+typeName(ms.Type()), cnt)
				bad := a.sizeBad(ms.Cap, 0)
				if bad == "" {
					bad = a.sizeBad(ms.Len, 0)
				}
				switch {
				case bad == "":
					a.R.Ok(rule, key, "allocation size is constant or linear in the length of existing data", a.C.InstrPos(in))
				case strings.HasPrefix(bad, "param:"):
					// size handed in by the callers: every call site must pass a fine size
					pname := bad[len("param:"):]
					pi := -1
					for i, p := range f.Params {
						if p.Name() == pname {
							pi = i
						}
					}
					okAll, why := true, ""
					for _, cs := range a.CallSites(f) {
						if pi < 0 || pi >= len(cs.Common().Args) {
							continue
						}
						if s := a.sizeBad(cs.Common().Args[pi], 0); s != "" && !strings.HasPrefix(s, "param:") {
							okAll, why = false, a.C.Name(cs.Parent())+" passes "+s
						}
					}
					a.R.Check(okAll, rule, key, "allocation size parameter is constant or linear at every call site", a.C.InstrPos(in), why)
				default:
					// an untrusted count is acceptable when a dominating comparison bounds it by the input length
					fs := a.F.LocalAt(in)
					bounded := false
					for _, fct := range fs.List() {
						if strings.HasPrefix(fct, "passed:(") && strings.Contains(fct, "len(") && (strings.Contains(fct, "<=") || strings.Contains(fct, ">=") || strings.Contains(fct, " < ") || strings.Contains(fct, " > ")) {
							// the compared term must mention the size's leaf
							leaf := bad
							if i := strings.Index(leaf, " "); i > 0 && strings.HasPrefix(leaf, "call ") {
								leaf = leaf[5:]
							}
							if strings.Contains(fct, leaf) {
								bounded = true
							}
						}
					}
					a.R.Check(bounded, rule, key, "an allocation sized by a value read from the input is bounded by the input length first", a.C.InstrPos(in),
						"allocation size depends on "+bad+" without a dominating bound by the length of the input: a small message can make the library allocate memory out of proportion")
				}
			}
		}
	}
	a.R.Floor(rule, 25)
}

// ---- narrowing conversions -----------------------------------------------------------------------

var narrowTable = map[string]string{
	"AppendData|uint32(len($r))":   "lengths of in-memory byte slices handed to the serialiser are far below 4 GiB (assumption A-len32)",
	"genSMPTLV|uint32(len($mpis))": "at most 11 MPIs",
	"genSMPTLV|uint16(len(AppendMPIs(AppendWord(new([1000]byte)[:0], uint32(len($mpis))), $mpis)))": "at most 11 residues mod the 1536-bit p: below 2.2 KiB",
	"(plainDataMsg).pad|uint16((256 - (((len(plainDataMsg.message) + 4) + 1) % 256)))":              "1..256 by construction",
	"bytesToUint16|uint16(strconv.ParseUint($d, 10, 16)#0)":                                         "ParseUint with bitSize 16 returns a value that fits",
	"parseItag|uint32(strconv.ParseUint($s, 16, 32)#0)":                                             "ParseUint with bitSize 32 returns a value that fits",
	"messageHandlerForTLV|uint16(len(global:tlvHandlers))":                                          "the handler table has 9 entries",
	"(smp1Message).tlv|uint16(len(new(tlv).tlvValue))":                                              "KNOWN D20: a question of 64 KiB or more wraps the TLV length (length no longer matches content)",
	"(*Conversation).UseExtraSymmetricKey|uint16(len($usageData))":                                  "KNOWN D20: usage data of 64 KiB or more wraps the TLV length (length no longer matches content)",
}

var archIntBits = 64

func intWidth(t types.Type) (bits int, signed bool, ok bool) {
	b, isB := t.Underlying().(*types.Basic)
	if !isB {
		return 0, false, false
	}
	switch b.Kind() {
	case types.Int8:
		return 8, true, true
	case types.Int16:
		return 16, true, true
	case types.Int32:
		return 32, true, true
	case types.Int64:
		return 64, true, true
	case types.Int:
		return archIntBits, true, true
	case types.Uint8:
		return 8, false, true
	case types.Uint16:
		return 16, false, true
	case types.Uint32:
		return 32, false, true
	case types.Uint64, types.Uintptr:
		return 64, false, true
	case types.Uint:
		return archIntBits, false, true
	}
	return 0, false, false
}

func (a *An) narrowingSites() (out []*ssa.Convert) {
	archIntBits = 64
	if a.C.GOARCH == "386" {
		archIntBits = 32
	}
	for _, f := range a.C.FuncSeq {
		if strings.HasPrefix(a.C.Name(f), "unsafeWipe") || strings.Contains(a.C.Name(f), "Wipe") {
			continue
		}
		for _, b := range f.Blocks {
			for _, in := range b.Instrs {
				cv, ok := in.(*ssa.Convert)
				if !ok {
					continue
				}
				fb, _, ok1 := intWidth(cv.X.Type())
				tb, _, ok2 := intWidth(cv.Type())
				if !ok1 || !ok2 || tb >= fb {
					continue
				}
				if _, isConst := cv.X.(*ssa.Const); isConst {
					continue
				}
				out = append(out, cv)
			}
		}
	}
	return
}

func (a *An) narrowings(rule string, lengthsMustMatch bool) {
	seen := map[string]bool{}
	for _, cv := range a.narrowingSites() {
		fn := a.C.Name(cv.Parent())
		key := fn + "|" + a.C.Term(cv)
		if seen[key] {
			continue
		}
		seen[key] = true
		why, ok := narrowTable[key]
		if ok && strings.HasPrefix(why, "KNOWN") && !lengthsMustMatch {
			a.R.Ok(rule, "narrow|"+key, "reviewed narrowing (wraps for oversized caller input but cannot crash; reported under C17): "+why, a.C.InstrPos(cv))
			continue
		}
		if ok && strings.HasPrefix(why, "KNOWN") {
			a.R.Viol(rule, "narrow|"+key, "no lossy integer narrowing of a length", a.C.InstrPos(cv), why)
			continue
		}
		if !ok {
			// a narrowing of a value with a dominating bound that fits is fine
			a.R.Viol(rule, "narrow|"+key, "every narrowing integer conversion is a reviewed one", a.C.InstrPos(cv),
				"new lossy conversion "+a.C.Term(cv)+" in "+fn+": values that do not fit the narrower type wrap silently (lengths, counts, indices, tags)")
			continue
		}
		a.R.Ok(rule, "narrow|"+key, "reviewed narrowing: "+why, a.C.InstrPos(cv))
	}
	a.R.Floor(rule, 5)
}

// ---- panics / assertions -------------------------------------------------------------------------

// assertAccessor: for the unchecked assertions that are safe because an accessor returns a fixed dynamic type, the
// accessor (checked on every run).
var assertAccessor = map[string]string{
	"readPotentialBigNum":         "(sexp.BigNum).Value",
	"readPotentialSymbol":         "(sexp.Symbol).Value",
	"readPotentialStringOrSymbol": "(sexp.Sstring).Value",
}

func (a *An) panicsAndAsserts(rule string) {
	okPanic := map[string]bool{"(sexp.BigNum).First": true, "(sexp.BigNum).Second": true, "(sexp.Sstring).First": true, "(sexp.Sstring).Second": true, "(sexp.Symbol).First": true, "(sexp.Symbol).Second": true}
	okAssert := map[string]string{
		"readPotentialBigNum":         "guarded by the comma-ok assertion to sexp.BigNum, whose Value() returns *big.Int",
		"readPotentialSymbol":         "guarded by the comma-ok assertion to sexp.Symbol, whose Value() returns string",
		"readPotentialStringOrSymbol": "guarded by the comma-ok assertion, Value() returns string",
		"exportPrivateKey":            "export of the caller's own key objects (not input parsing)",
	}
	for _, f := range a.C.FuncSeq {
		fn := a.C.Name(f)
		for _, b := range f.Blocks {
			for _, in := range b.Instrs {
				switch x := in.(type) {
				case *ssa.Panic:
					a.R.Check(okPanic[fn], rule, "panic|"+fn, "explicit panics only in the documented First/Second accessors of atoms (never called by the readers)", a.C.InstrPos(in), fn+" panics")
				case *ssa.TypeAssert:
					if x.CommaOk || types.Identical(x.X.Type(), x.AssertedType) {
						continue
					}
					why, ok := okAssert[fn]
					// the accessor the reviewed reason relies on really returns that dynamic type on every path
					if acc, has := assertAccessor[fn]; ok && has {
						if g := a.MustFn(acc); g != nil {
							for _, r := range a.returnsOf(g) {
								mi, isMI := r.Results[0].(*ssa.MakeInterface)
								if !isMI || !types.Identical(mi.X.Type(), x.AssertedType) {
									ok = false
									why = acc + " can return " + a.C.Term(r.Results[0]) + " (not a value of type " + typeName(x.AssertedType) + ")"
								}
							}
						}
					}
					a.R.Check(ok, rule, "assert|"+fn+"|"+typeName(x.AssertedType), "unchecked type assertions only where the dynamic type is known: "+why, a.C.InstrPos(in), "unchecked assertion to "+typeName(x.AssertedType)+" in "+fn)
				}
			}
		}
	}
	// the panicking accessors are not reachable from the parser roots
	for _, root := range []string{"ImportKeys", "sexp.Read", "sexp.ReadValue", "(*Conversation).Receive"} {
		f := a.MustFn(root)
		if f == nil {
			continue
		}
		for _, g := range a.reachableFnsFrom(f) {
			a.R.Check(!okPanic[a.C.Name(g)], rule, "reach|"+root+"|"+a.C.Name(g), "no panicking accessor is reachable from the readers", a.C.Pos(g.Pos()), a.C.Name(g)+" is reachable from "+root)
		}
	}
	a.R.Floor(rule, 6)
}

// ---- s-expression reader discipline --------------------------------------------------------------

func (a *An) sexpDiscipline(rule string) {
	R := a.R
	// UnreadByte only after a successful ReadByte
	n := 0
	for _, f := range a.C.FuncSeq {
		for _, b := range f.Blocks {
			for _, in := range b.Instrs {
				call, ok := in.(*ssa.Call)
				if !ok || a.F.callName(call) != "(*bufio.Reader).UnreadByte" {
					continue
				}
				n++
				fs := a.F.LocalAt(call)
				good := fs.Has("ok:(*bufio.Reader).ReadByte")
				if !good {
					for _, fct := range fs.List() {
						if strings.HasPrefix(fct, "passed:(") && strings.Contains(fct, "ReadByte") && strings.Contains(fct, "!= global:EOF") {
							good = true
						}
					}
				}
				R.Check(good, rule, a.C.Name(f)+"|unread", "UnreadByte only after a ReadByte that did not fail (at EOF it would re-insert the previous byte)", a.C.InstrPos(call),
					"UnreadByte is reachable after a failed ReadByte: the previously consumed byte is re-inserted and the reader never reaches EOF")
			}
		}
	}
	R.Check(n >= 2, rule, "unread-sites", "UnreadByte call sites found", "", fmt.Sprintf("%d", n))
	// expect: returning true implies a byte was consumed and not put back
	if fn := a.MustFn("sexp.expect"); fn != nil {
		paths, complete := a.C.Paths(fn, nil, 256)
		ok, d := complete, ""
		for _, p := range paths {
			if p.Ret == nil {
				continue
			}
			t := a.C.Term(p.Resolve(p.Ret.Results[0]))
			if t == "false" {
				continue
			}
			read, unread := false, false
			for _, in := range p.Instrs {
				if c, isC := in.(*ssa.Call); isC {
					switch a.F.callName(c) {
					case "(*bufio.Reader).ReadByte":
						read = true
					case "(*bufio.Reader).UnreadByte":
						unread = true
					}
				}
			}
			// a path that un-reads must return false: its result term is (res == c) with res != c decided earlier
			if unread {
				forcedFalse := false
				for _, dcs := range p.Decisions {
					if strings.Contains(dcs.Term, "!=") && strings.Contains(dcs.Term, "$c") {
						forcedFalse = true
					}
				}
				if !forcedFalse {
					ok, d = false, "a path that puts the byte back may still report success"
				}
			}
			if !read {
				ok, d = false, "a path reports success without reading"
			}
		}
		R.Check(ok, rule, "expect|consumes-on-success", "expect() reports success only when it consumed the expected byte", a.C.Pos(fn.Pos()), d)
	}
	// reader loops: every iteration consumes input or exits
	consume := map[string]bool{"(*bufio.Reader).ReadByte": true, "readAccount": true, "readParameter": true}
	for _, name := range []string{"sexp.ReadWhitespace", "sexp.ReadDataUntil", "readAccounts", "readDSAPrivateKey"} {
		fn := a.MustFn(name)
		if fn == nil {
			continue
		}
		loops := naturalLoops(fn)
		R.Check(len(loops) == 1, rule, name+"|loop", "one reader loop", a.C.Pos(fn.Pos()), fmt.Sprintf("%d loops", len(loops)))
		for _, l := range loops {
			// every path from the header back to the header passes a consuming call
			var cuts []ssa.Instruction
			for b := range l.Body {
				for _, in := range b.Instrs {
					if c, ok := in.(*ssa.Call); ok && consume[a.F.callName(c)] {
						cuts = append(cuts, in)
					}
				}
			}
			first := l.Header.Instrs[0]
			progress := true
			for b := range l.Body {
				for _, s := range b.Succs {
					if s == l.Header {
						// back edge b→header: is there a path header→(end of b) avoiding cuts?
						last := b.Instrs[len(b.Instrs)-1]
						if b == l.Header && len(cuts) == 0 {
							progress = false
						} else if reachesAvoidingFromBlockStart(l, first, last, cuts) {
							progress = false
						}
					}
				}
			}
			R.Check(progress && len(cuts) > 0, rule, name+"|progress", "each loop iteration consumes input (or the loop exits)", a.C.InstrPos(first),
				"there is a way around the loop that consumes nothing: on input where the exit condition never becomes true the reader spins (and may append) forever")
		}
	}
	// the continue-signals of the helpers imply that a list start was consumed
	for _, spec := range []struct {
		fn  string
		idx int
		val string
	}{{"readAccount", 2, "false"}, {"readParameter", 2, "false"}} {
		fn := a.MustFn(spec.fn)
		if fn == nil {
			continue
		}
		ok := true
		for _, r := range a.returnsOf(fn) {
			if a.C.Term(r.Results[spec.idx]) != spec.val {
				continue
			}
			if !a.F.LocalAt(r).Has("ok:sexp.ReadListStart") {
				ok = false
			}
		}
		R.Check(ok, rule, spec.fn+"|continue-implies-consumed", spec.fn+" signals 'not at end' only after it consumed a list start", a.C.Pos(fn.Pos()), "a 'not at end' return is reachable without a successful ReadListStart")
	}
	R.Floor(rule, 10)
}

func reachesAvoidingFromBlockStart(l *Loop, from, to ssa.Instruction, cuts []ssa.Instruction) bool {
	cut := map[ssa.Instruction]bool{}
	for _, c := range cuts {
		cut[c] = true
	}
	seen := map[*ssa.BasicBlock]bool{}
	var scan func(b *ssa.BasicBlock, i int) bool
	scan = func(b *ssa.BasicBlock, i int) bool {
		for ; i < len(b.Instrs); i++ {
			in := b.Instrs[i]
			if cut[in] {
				return false
			}
			if in == to {
				return true
			}
		}
		for _, s := range b.Succs {
			if !l.Body[s] || seen[s] || s == l.Header {
				continue
			}
			seen[s] = true
			if scan(s, 0) {
				return true
			}
		}
		return false
	}
	return scan(from.Block(), instrIndex(from))
}

// ---- randomness discipline -----------------------------------------------------------------------

func (a *An) randomDiscipline(rule string) {
	R := a.R
	// io.ReadFull only from randomInto
	for _, f := range a.C.FuncSeq {
		for _, b := range f.Blocks {
			for _, in := range b.Instrs {
				if c, ok := in.(*ssa.Call); ok && a.F.callName(c) == "io.ReadFull" {
					R.Check(a.C.Name(f) == "randomInto", rule, "readfull|"+a.C.Name(f), "the randomness source is read only through randomInto", a.C.InstrPos(c), a.C.Name(f)+" reads it directly")
				}
			}
		}
	}
	if fn := a.MustFn("randomInto"); fn != nil {
		a.SuccessRequires(rule, fn, "ok:io.ReadFull")
	}
	helpers := []string{"randomInto", "randMPI", "randSecret", "randSizedSecret", "(*Conversation).randMPI", "(*Conversation).randSecret", "(*Conversation).randomInto",
		"(*keyManagementContext).generateNewDHKeyPair", "(*Conversation).generateNewDHKeyPair", "(*Conversation).generateInstanceTag"}
	var names []string
	cnt := map[string]int{}
	for _, h := range helpers {
		fn := a.MustFn(h)
		if fn == nil {
			continue
		}
		names = append(names, h)
		for _, cs := range a.CallSites(fn) {
			call, ok := cs.(*ssa.Call)
			if !ok {
				continue
			}
			caller := a.C.Name(cs.Parent())
			key := ordinalKey(caller+"|call "+h, cnt)
			if caller == "(*Conversation).GetOurInstanceTag" || caller == "(*Conversation).InitializeInstanceTag" {
				// documented: the accessor returns 0 / the current tag when no tag could be drawn
			}
			si := statusIndex(call.Call.Signature())
			var ev ssa.Value
			if call.Call.Signature().Results().Len() == 1 {
				ev = call
			} else {
				for _, ref := range *call.Referrers() {
					if ex, isEx := ref.(*ssa.Extract); isEx && ex.Index == si {
						ev = ex
					}
				}
			}
			used := false
			if ev != nil && ev.Referrers() != nil {
				for _, ref := range *ev.Referrers() {
					switch ref.(type) {
					case *ssa.BinOp, *ssa.Return, *ssa.Store, *ssa.Phi, *ssa.Call, *ssa.If:
						used = true
					}
				}
			}
			if caller == "(*Conversation).GetOurInstanceTag" {
				R.Ok(rule, key, "documented accessor without error result: returns the (zero) tag when none could be drawn", a.C.InstrPos(cs))
				continue
			}
			R.Check(used, rule, key, "the error of a randomness helper is tested, returned or aggregated", a.C.InstrPos(cs),
				"the error result of "+h+" is discarded: after a short read the zero/partial value is used as if it were random")
		}
	}
	sort.Strings(names)
	R.Floor(rule, 25)
}

// factMatch: exact fact, or with a leading "~" a conjunction of substrings (joined by &&) that must all
// occur in one fact.
func factMatch(fs Facts, need string) bool {
	if !strings.HasPrefix(need, "~") {
		return fs.Has(need)
	}
	parts := strings.Split(need[1:], "&&")
	for _, f := range fs.List() {
		all := true
		for _, p := range parts {
			if !strings.Contains(f, strings.TrimSpace(p)) {
				all = false
			}
		}
		if all {
			return true
		}
	}
	return false
}

// akeStateInvariant: a key-exchange handler that leaves the conversation in a state other than AUTHSTATE_NONE leaves
// it with the secret exponent (and with it the public value) of the running exchange in place: whenever something on
// the way to such a return wiped the exchange context, a call that sets the exponent again succeeded afterwards. The
// handlers of those states dereference these values without testing them.
func (a *An) akeStateInvariant(rule string) {
	R := a.R
	establishes := func(call ssa.CallInstruction) bool {
		for _, g := range a.C.Callees(call) {
			g = a.C.unwrap(g)
			if a.C.Name(g) == "(*Conversation).setSecretExponent" {
				return true
			}
			if a.C.IsLib(g) && g.Blocks != nil && a.F.MustOK(g).Has("called:(*Conversation).setSecretExponent") {
				return true
			}
		}
		return false
	}
	nret, nw := 0, 0
	for _, f := range a.C.FuncSeq {
		if f.Blocks == nil || f.Signature.Recv() == nil || !strings.HasPrefix(f.Name(), "receive") || !strings.HasPrefix(typeName(f.Signature.Recv().Type()), "authState") {
			continue
		}
		var wipers []ssa.Instruction
		for _, b := range f.Blocks {
			for _, in := range b.Instrs {
				for _, ef := range a.E.InstrEffects(in) {
					if ef.Kind == EffWipe && a.C.abs(f, ef.Path) == "Conversation.ake.secretExponent" {
						wipers = append(wipers, in)
						break
					}
				}
			}
		}
		cnt := map[string]int{}
		for _, r := range a.returnsOf(f) {
			mi, ok := r.Results[0].(*ssa.MakeInterface)
			if !ok {
				continue // the state a delegate returned: judged there
			}
			st := typeName(mi.X.Type())
			if st == "authStateNone" {
				continue
			}
			nret++
			fs := a.F.LocalAt(r)
			good, why := true, ""
			for _, w := range wipers {
				if !canReach(w, r) {
					continue
				}
				nw++
				re := false
				for _, b := range f.Blocks {
					for _, in := range b.Instrs {
						e, isCall := in.(ssa.CallInstruction)
						if !isCall || !(in == w || canReach(w, in)) || !canReach(in, r) {
							continue
						}
						if establishes(e) && (fs.Has("@ok:"+instKey(e)) || e.Value() == nil || statusIndex(e.Common().Signature()) < 0 && instrDominates(in, r)) {
							re = true
						}
					}
				}
				if !re {
					good = false
					why = "the exchange context is wiped at " + a.C.InstrPos(w) + " and no call that draws a new exponent has succeeded on the way to this return"
				}
			}
			R.Check(good, rule, ordinalKey(a.C.Name(f)+"|return "+st, cnt), "a handler that stays in or moves to "+st+" leaves the exchange's exponent in place", a.C.InstrPos(r), why+": the next message for "+st+" dereferences the wiped values (nil pointer)")
		}
	}
	R.Check(nret >= 15 && nw >= 1, rule, "sites", "returns of non-initial states and wipes before them found", "", fmt.Sprintf("%d returns, %d wipe/return pairs", nret, nw))
}

// bceOwner: for a compiler-style function name ("*T.m", "T.m", "f", "sexp.f") of a new single-use helper, the
// compiler-style name of the function it belongs to; "" otherwise.
func (a *An) bceOwner(name string) string {
	canon := func(n string) string {
		pre := ""
		if strings.HasPrefix(n, "sexp.") {
			pre, n = "sexp.", n[5:]
		}
		if i := strings.LastIndex(n, "."); i >= 0 {
			return pre + "(" + n[:i] + ")" + n[i:]
		}
		return pre + n
	}
	back := func(n string) string {
		pre := ""
		if strings.HasPrefix(n, "sexp.") {
			pre, n = "sexp.", n[5:]
		}
		if strings.HasPrefix(n, "(") {
			if i := strings.Index(n, ")"); i > 0 {
				return pre + n[1:i] + n[i+1:]
			}
		}
		return pre + n
	}
	f, ok := a.C.Fn(canon(name))
	if !ok || !a.C.isNew(f) {
		return ""
	}
	o := a.C.owner(f)
	if o == f {
		return ""
	}
	return back(a.C.Name(o))
}

// bceOwnerOf: compiler-style name of the function a new helper belongs to.
func (a *An) bceOwnerOf(g *ssa.Function) string {
	n := a.C.Name(a.C.owner(g))
	pre := ""
	if strings.HasPrefix(n, "sexp.") {
		pre, n = "sexp.", n[5:]
	}
	if strings.HasPrefix(n, "(") {
		if i := strings.Index(n, ")"); i > 0 {
			return pre + n[1:i] + n[i+1:]
		}
	}
	return pre + n
}

var selectorRe = regexp.MustCompile(`_(\.[A-Za-z_][A-Za-z0-9_]*)+`)

// stripSelectors: "_.tlvValue[:_]" and "_[:_]" denote the same shape once a field of a local became a parameter.
func stripSelectors(e string) string {
	return selectorRe.ReplaceAllStringFunc(e, func(m string) string {
		return "_"
	})
}

// bceName: the name the compiler's listing uses for a function ("*T.m", "T.m", "f", "sexp.f").
func (a *An) bceName(g *ssa.Function) string {
	n := a.C.Name(g)
	pre := ""
	if strings.HasPrefix(n, "sexp.") {
		pre, n = "sexp.", n[5:]
	}
	if strings.HasPrefix(n, "(") {
		if i := strings.Index(n, ")"); i > 0 {
			return pre + n[1:i] + n[i+1:]
		}
	}
	return pre + n
}

// boundsTableFor: the bounds table restricted to the functions reachable from the given roots.
func (a *An) boundsTableFor(rule string, roots ...string) {
	set := map[string]bool{}
	for _, g := range a.reachableFns(roots...) {
		set[a.bceName(g)] = true
		set[a.bceOwnerOf(g)] = true
	}
	a.boundsFilter = func(fn string) bool { return set[fn] }
	a.boundsTable(rule)
	a.boundsFilter = nil
}

// deadNew: a function that is not in the reviewed tree, is not exported, is not a method (a method may be reached
// through an interface), and is neither called nor used as a value anywhere in the two packages: no input reaches it.
func (a *An) deadNew(g *ssa.Function) bool {
	if g == nil || g.Blocks == nil || !a.C.isNew(g) || g.Parent() != nil || g.Signature.Recv() != nil || ast.IsExported(g.Name()) || g.Name() == "init" || g.Name() == "main" {
		return false
	}
	if len(a.CallSites(g)) > 0 {
		return false
	}
	for _, f := range a.C.FuncSeq {
		for _, b := range f.Blocks {
			for _, in := range b.Instrs {
				for _, op := range in.Operands(nil) {
					if op != nil && *op != nil {
						if fv, ok := (*op).(*ssa.Function); ok && fv == g {
							return false
						}
					}
				}
			}
		}
	}
	// referenced from a package-level initialiser is covered: init functions are in FuncSeq
	return true
}
