package main

import (
	"go/token"

	"golang.org/x/tools/go/ssa"
)

// Tri is a three-valued truth value.
type Tri int

const (
	Unknown Tri = iota
	True
	False
)

func triOf(b bool) Tri {
	if b {
		return True
	}
	return False
}

func (t Tri) not() Tri {
	switch t {
	case True:
		return False
	case False:
		return True
	}
	return Unknown
}

// Decision records one branch taken on a path.
type Decision struct {
	If     *ssa.If
	Term   string // canonical rendering of the condition with the truth taken
	Truth  bool
	Forced bool // decided by the oracle (assumption) rather than forked
}

// Path is one acyclic (blocks visited at most `revisit` times) path through a function.
type Path struct {
	Blocks    []*ssa.BasicBlock
	Decisions []Decision
	Instrs    []ssa.Instruction // all instructions in order
	Ret       *ssa.Return       // nil: path ends in panic / cut
	Cut       bool              // stopped at revisit bound
	pred      map[*ssa.BasicBlock]*ssa.BasicBlock
	// calls of new single-use helpers whose body was walked as part of this path, with the return taken
	callRet map[*ssa.Call]*ssa.Return
}

// Resolve follows phis according to the path (the incoming edge actually taken).
func (p *Path) Resolve(v ssa.Value) ssa.Value {
	for i := 0; i < 20; i++ {
		// results and parameters of a helper that was walked inline
		switch x := v.(type) {
		case *ssa.Call:
			if r, ok := p.callRet[x]; ok && len(r.Results) == 1 {
				v = resolveLocal(r.Results[0])
				continue
			}
		case *ssa.Extract:
			if call, isCall := x.Tuple.(*ssa.Call); isCall {
				if r, ok := p.callRet[call]; ok && x.Index < len(r.Results) {
					v = resolveLocal(r.Results[x.Index])
					continue
				}
			}
		case *ssa.Parameter:
			if theCtx != nil {
				if cs := theCtx.soleCall(x.Parent()); cs != nil && !cs.Common().IsInvoke() {
					if call, isCall := cs.(*ssa.Call); isCall {
						if _, inl := p.callRet[call]; inl || p.inHelper(x.Parent()) {
							if k := paramIndex(x); k >= 0 && k < len(call.Call.Args) {
								v = call.Call.Args[k]
								continue
							}
						}
					}
				}
			}
		}
		phi, ok := v.(*ssa.Phi)
		if !ok {
			return v
		}
		// last occurrence of the phi's block on the path and its predecessor
		idx := -1
		for j := len(p.Blocks) - 1; j >= 0; j-- {
			if p.Blocks[j] == phi.Block() {
				idx = j
				break
			}
		}
		if idx <= 0 {
			return v
		}
		// the predecessor taken: the nearest earlier block of the same function (helper bodies walked inline lie between)
		found := false
		for j := idx - 1; j >= 0 && !found; j-- {
			pred := p.Blocks[j]
			if pred.Parent() != phi.Block().Parent() {
				continue
			}
			for k, pb := range phi.Block().Preds {
				if pb == pred {
					v = phi.Edges[k]
					found = true
					break
				}
			}
			break
		}
		if !found {
			return v
		}
	}
	return v
}

// Oracle decides a branch condition on the current partial path; Unknown forks both ways.
type Oracle func(p *Path, cond ssa.Value) Tri

// Paths enumerates paths of f under the oracle. limit bounds the number of paths (0 = 4096). The body of a new
// single-use helper (terms.go) called on the way is walked as part of the path (two levels at most): extracting part of
// a function into a helper does not hide its branches from the enumeration.
func (c *Ctx) Paths(f *ssa.Function, oracle Oracle, limit int) (out []*Path, complete bool) {
	if limit == 0 {
		limit = 4096
	}
	complete = true
	type frame struct {
		b    *ssa.BasicBlock
		idx  int
		call *ssa.Call
	}
	copyPath := func(p *Path) *Path {
		q := &Path{Blocks: append([]*ssa.BasicBlock{}, p.Blocks...), Decisions: append([]Decision{}, p.Decisions...), Instrs: append([]ssa.Instruction{}, p.Instrs...)}
		if len(p.callRet) > 0 {
			q.callRet = map[*ssa.Call]*ssa.Return{}
			for k, v := range p.callRet {
				q.callRet[k] = v
			}
		}
		return q
	}
	var walk func(p *Path, b *ssa.BasicBlock, idx int, stack []frame)
	walk = func(p *Path, b *ssa.BasicBlock, idx int, stack []frame) {
		if len(out) >= limit {
			complete = false
			return
		}
		q := copyPath(p)
		if idx == 0 {
			n := 0
			for _, x := range p.Blocks {
				if x == b {
					n++
				}
			}
			if n >= 2 {
				q.Cut = true
				out = append(out, q)
				return
			}
			q.Blocks = append(q.Blocks, b)
		}
		for i := idx; i < len(b.Instrs)-1; i++ {
			in := b.Instrs[i]
			q.Instrs = append(q.Instrs, in)
			if call, ok := in.(*ssa.Call); ok && len(stack) < 2 {
				if g := call.Call.StaticCallee(); g != nil && c.isNew(g) && c.soleCall(g) == ssa.CallInstruction(call) && g != f {
					walk(q, g.Blocks[0], 0, append(append([]frame{}, stack...), frame{b, i + 1, call}))
					return
				}
			}
		}
		last := b.Instrs[len(b.Instrs)-1]
		q.Instrs = append(q.Instrs, last)
		switch t := last.(type) {
		case *ssa.Return:
			if len(stack) > 0 {
				fr := stack[len(stack)-1]
				if q.callRet == nil {
					q.callRet = map[*ssa.Call]*ssa.Return{}
				}
				q.callRet[fr.call] = t
				walk(q, fr.b, fr.idx, stack[:len(stack)-1])
				return
			}
			q.Ret = t
			out = append(out, q)
		case *ssa.Panic:
			out = append(out, q)
		case *ssa.Jump:
			walk(q, b.Succs[0], 0, stack)
		case *ssa.If:
			tri := Unknown
			if oracle != nil {
				tri = oracle(q, t.Cond)
			}
			if tri == Unknown {
				tri = c.constCond(q, t.Cond)
			}
			for i, truth := range []bool{true, false} {
				if tri == True && !truth || tri == False && truth {
					continue
				}
				r := copyPath(q)
				r.Decisions = append(r.Decisions, Decision{If: t, Term: c.condTerm(q, t.Cond, truth), Truth: truth, Forced: tri != Unknown})
				walk(r, b.Succs[i], 0, stack)
			}
		default:
			out = append(out, q)
		}
	}
	walk(&Path{}, f.Blocks[0], 0, nil)
	return
}

// inHelper: the path is currently inside (or has been through) the body of helper g.
func (p *Path) inHelper(g *ssa.Function) bool {
	for _, b := range p.Blocks {
		if b.Parent() == g {
			return true
		}
	}
	return false
}

// constCond evaluates conditions that are constants after phi resolution along the path.
func (c *Ctx) constCond(p *Path, cond ssa.Value) Tri {
	v := p.Resolve(cond)
	switch x := v.(type) {
	case *ssa.Const:
		if x.Value != nil && isBoolType(x.Type()) {
			return triOf(x.Value.ExactString() == "true")
		}
	case *ssa.UnOp:
		if x.Op == token.NOT {
			return c.constCond(p, x.X).not()
		}
	}
	return Unknown
}

func (c *Ctx) condTerm(p *Path, cond ssa.Value, truth bool) string {
	v := p.Resolve(cond)
	for {
		if u, ok := v.(*ssa.UnOp); ok && u.Op == token.NOT {
			v = p.Resolve(u.X)
			truth = !truth
			continue
		}
		break
	}
	if b, ok := v.(*ssa.BinOp); ok {
		if s, ok := c.cmpTerm(b, truth); ok {
			return s
		}
	}
	if truth {
		return c.Term(v)
	}
	return "!" + c.Term(v)
}

// ErrTri classifies a (path-resolved) error value: True = provably nil, False = provably non-nil.
func (e *FE) ErrTri(p *Path, v ssa.Value) Tri {
	v = p.Resolve(v)
	if isNilConst(v) {
		return True
	}
	if e.provablyNonNil(v) {
		return False
	}
	// decided earlier on this path by a test of the same value
	for _, d := range p.Decisions {
		cond := p.Resolve(d.If.Cond)
		truth := d.Truth
		for {
			if u, ok := cond.(*ssa.UnOp); ok && u.Op == token.NOT {
				cond = p.Resolve(u.X)
				truth = !truth
				continue
			}
			break
		}
		if b, ok := cond.(*ssa.BinOp); ok && (b.Op == token.EQL || b.Op == token.NEQ) {
			var other ssa.Value
			if isNilConst(b.Y) {
				other = b.X
			} else if isNilConst(b.X) {
				other = b.Y
			}
			if other != nil && p.Resolve(other) == v {
				isNil := (b.Op == token.EQL) == truth
				return triOf(isNil)
			}
		}
	}
	if u, ok := v.(*ssa.UnOp); ok && u.Op == token.MUL {
		if sv := localStore(u); sv != nil {
			return e.ErrTri(p, sv)
		}
	}
	return Unknown
}

// optimisticOracle: every test of a call's status result takes the success edge; other conditions fork.
func (e *FE) optimisticOracle(p *Path, cond ssa.Value) Tri {
	return e.statusCond(p, cond, true)
}

// statusCond: if cond is (a negation / nil-test of) a call's status value, return the truth value that
// corresponds to the call having succeeded (success=true) or failed.
func (e *FE) statusCond(p *Path, cond ssa.Value, success bool) Tri {
	v := p.Resolve(cond)
	switch x := v.(type) {
	case *ssa.UnOp:
		if x.Op == token.NOT {
			return e.statusCond(p, x.X, success).not()
		}
	case *ssa.BinOp:
		if x.Op == token.EQL || x.Op == token.NEQ {
			var other ssa.Value
			if isNilConst(x.Y) {
				other = x.X
			} else if isNilConst(x.X) {
				other = x.Y
			}
			if other != nil && isErrorType(other.Type()) {
				o := p.Resolve(other)
				if u, ok := o.(*ssa.UnOp); ok && u.Op == token.MUL {
					if sv := localStore(u); sv != nil {
						o = p.Resolve(sv)
					}
				}
				if isNilConst(o) {
					return triOf(x.Op == token.EQL)
				}
				if e.provablyNonNil(o) {
					return triOf(x.Op == token.NEQ)
				}
				if statusCall(o) != nil {
					// err == nil is true on success
					return triOf((x.Op == token.EQL) == success)
				}
			}
		}
	case *ssa.Call, *ssa.Extract:
		if statusCall(x) != nil && isBoolType(x.Type()) {
			return triOf(success)
		}
	}
	return Unknown
}

// ---- representative-valuation oracle --------------------------------------------------------------
// A case assigns one representative integer to each leaf term of the compared operands (one case per
// ordering class); branch conditions that compare such terms are then decided, everything else forks.

type valCase map[string]int64

func (c *Ctx) evalInt(p *Path, v ssa.Value, vals valCase, written map[string]bool, d int) (int64, bool) {
	if d > 8 {
		return 0, false
	}
	v = p.Resolve(v)
	switch x := v.(type) {
	case *ssa.Const:
		if x.Value == nil {
			return 0, false
		}
		if i, ok := constInt(x); ok {
			return i, true
		}
		return 0, false
	case *ssa.BinOp:
		l, ok1 := c.evalInt(p, x.X, vals, written, d+1)
		r, ok2 := c.evalInt(p, x.Y, vals, written, d+1)
		if !ok1 || !ok2 {
			return 0, false
		}
		switch x.Op {
		case token.ADD:
			return l + r, true
		case token.SUB:
			return l - r, true
		case token.MUL:
			return l * r, true
		case token.AND:
			return l & r, true
		case token.OR:
			return l | r, true
		case token.SHL:
			if r >= 0 && r < 62 {
				return l << uint(r), true
			}
		}
		return 0, false
	case *ssa.Convert:
		return c.evalInt(p, x.X, vals, written, d+1)
	case *ssa.ChangeType:
		return c.evalInt(p, x.X, vals, written, d+1)
	}
	t := c.Term(v)
	if written != nil && written[t] {
		return 0, false
	}
	if i, ok := vals[t]; ok {
		return i, true
	}
	return 0, false
}

func constInt(k *ssa.Const) (int64, bool) {
	if k.Value == nil {
		return 0, false
	}
	s := k.Value.ExactString()
	var i int64
	neg := false
	if len(s) > 0 && s[0] == '-' {
		neg = true
		s = s[1:]
	}
	if len(s) == 0 {
		return 0, false
	}
	for _, ch := range s {
		if ch < '0' || ch > '9' {
			return 0, false
		}
		i = i*10 + int64(ch-'0')
	}
	if neg {
		i = -i
	}
	return i, true
}

// valOracle decides comparisons between terms with representative values; boolean terms can be given
// in bools (term -> truth).
func (c *Ctx) valOracle(vals valCase, bools map[string]bool) Oracle {
	var eval func(p *Path, cond ssa.Value, d int) Tri
	eval = func(p *Path, cond ssa.Value, d int) Tri {
		if d > 8 {
			return Unknown
		}
		v := p.Resolve(cond)
		switch x := v.(type) {
		case *ssa.UnOp:
			if x.Op == token.NOT {
				return eval(p, x.X, d+1).not()
			}
		case *ssa.BinOp:
			// locations written earlier on this path are no longer described by the case
			written := map[string]bool{}
			for _, in := range p.Instrs {
				if st, ok := in.(*ssa.Store); ok {
					written[c.AddrPath(st.Addr)] = true
				}
			}
			l, ok1 := c.evalInt(p, x.X, vals, written, 0)
			r, ok2 := c.evalInt(p, x.Y, vals, written, 0)
			if ok1 && ok2 {
				switch x.Op {
				case token.EQL:
					return triOf(l == r)
				case token.NEQ:
					return triOf(l != r)
				case token.LSS:
					return triOf(l < r)
				case token.LEQ:
					return triOf(l <= r)
				case token.GTR:
					return triOf(l > r)
				case token.GEQ:
					return triOf(l >= r)
				}
			}
		}
		if bools != nil {
			if b, ok := bools[c.Term(v)]; ok {
				return triOf(b)
			}
		}
		return Unknown
	}
	return func(p *Path, cond ssa.Value) Tri { return eval(p, cond, 0) }
}
