package main

import (
	"fmt"
	"go/constant"
	"go/token"
	"go/types"
	"sort"
	"strings"

	"golang.org/x/tools/go/ssa"
)

// Closed table of gates (tables_gen.go: frozenGates, regenerated only deliberately with -gentables).
//
// For every call of a function that writes session state (by its effect summary) or that raises an event, the set of
// branch conditions the call is control-dependent on inside its caller: "cond=T" / "cond=F" for every two-way branch of
// the caller from which the call can be reached through exactly one of the two successors (back edges of loops are not
// followed, so a `continue` or an early `break` shows up as a gate of what follows it in the loop body). The calls of a
// new helper are attributed to the functions that call the helper, with the helper's own gates added to the gates of
// the helper's call site. The table says under which conditions each piece of state moves or each event is raised; a
// condition added (state no longer moves where it did: a trigger ignored in one message state, a flag reset only on the
// success path) or dropped (state moves where it did not) is a change of behaviour of exactly the kind the properties
// talk about. Conditions are canonical terms (terms.go), so renaming locals, extracting helpers or reordering
// independent statements does not change them.

type gateSite struct {
	callee string
	gates  []string
	fields []string
}

// blockGates: for every block of f the sorted gates it is (transitively) control-dependent on: block B depends on the
// branch I→S when B post-dominates S and does not strictly post-dominate I (Ferrante–Ottenstein–Warren); the
// dependences of I carry over to B.
func (a *An) blockGates(f *ssa.Function, depth int) map[*ssa.BasicBlock][]string {
	out := map[*ssa.BasicBlock][]string{}
	n := len(f.Blocks)
	if n == 0 {
		return out
	}
	// post-dominator sets over the blocks plus a virtual exit (index n)
	all := func() []bool {
		x := make([]bool, n+1)
		for i := range x {
			x[i] = true
		}
		return x
	}
	pdom := make([][]bool, n+1)
	for i := 0; i < n; i++ {
		pdom[i] = all()
	}
	pdom[n] = make([]bool, n+1)
	pdom[n][n] = true
	succs := func(b *ssa.BasicBlock) []int {
		if len(b.Succs) == 0 {
			return []int{n}
		}
		var r []int
		for _, s := range b.Succs {
			r = append(r, s.Index)
		}
		return r
	}
	for changed := true; changed; {
		changed = false
		for i := n - 1; i >= 0; i-- {
			b := f.Blocks[i]
			nw := all()
			for _, s := range succs(b) {
				for k := range nw {
					nw[k] = nw[k] && pdom[s][k]
				}
			}
			nw[i] = true
			for k := range nw {
				if nw[k] != pdom[i][k] {
					changed = true
				}
			}
			pdom[i] = nw
		}
	}
	type dep struct {
		on   int
		term string
	}
	direct := make([][]dep, n)
	for _, b := range f.Blocks {
		if len(b.Instrs) == 0 {
			continue
		}
		iff, ok := b.Instrs[len(b.Instrs)-1].(*ssa.If)
		if !ok || len(b.Succs) != 2 {
			continue
		}
		for k, s := range b.Succs {
			var deps []dep
			if phi, isPhi := iff.Cond.(*ssa.Phi); isPhi && phi.Block() == b {
				// a condition put together by && / || and kept as a value: what decided is the test on the edge the value
				// came in by (and, for a computed operand, that operand); the gates of that predecessor carry over
				deps = append(deps, dep{b.Index, ""})
				for j, e := range phi.Edges {
					p := b.Preds[j]
					var ts []string
					if pl, isIf := p.Instrs[len(p.Instrs)-1].(*ssa.If); isIf && len(p.Succs) == 2 && p.Succs[0] != p.Succs[1] {
						ts = a.gateTerms(pl.Cond, p.Succs[0] == b, depth)
					}
					if c, isC := e.(*ssa.Const); isC {
						if c.Value == nil || constant.BoolVal(c.Value) != (k == 0) {
							continue
						}
					} else {
						ts = append(ts, a.gateTerms(e, k == 0, depth)...)
					}
					deps = append(deps, dep{p.Index, ""})
					for _, t := range ts {
						deps = append(deps, dep{p.Index, t})
					}
				}
			} else {
				for _, t := range a.gateTerms(iff.Cond, k == 0, depth) {
					deps = append(deps, dep{b.Index, t})
				}
			}
			for x := 0; x < n; x++ {
				if pdom[s.Index][x] && (x == b.Index || !pdom[b.Index][x]) {
					direct[x] = append(direct[x], deps...)
				}
			}
		}
	}
	sets := make([]map[string]bool, n)
	for i := range sets {
		sets[i] = map[string]bool{}
	}
	for changed := true; changed; {
		changed = false
		for x := 0; x < n; x++ {
			for _, d := range direct[x] {
				if d.term != "" && !sets[x][d.term] {
					sets[x][d.term] = true
					changed = true
				}
				for g := range sets[d.on] {
					if !sets[x][g] {
						sets[x][g] = true
						changed = true
					}
				}
			}
		}
	}
	for _, b := range f.Blocks {
		out[b] = sortedKeys(sets[b.Index])
	}
	return out
}

// effectful: the functions whose calls are gated: writers of session state (name → fields) and the event functions.
func (a *An) effectfulFns() map[*ssa.Function][]string {
	if a.effFns != nil {
		return a.effFns
	}
	out := map[*ssa.Function][]string{}
	for _, g := range a.C.FuncSeq {
		if g.Blocks == nil || a.C.isNew(g) {
			continue
		}
		if fw := a.stateFieldsWritten(g); len(fw) > 0 {
			out[g] = fw
			continue
		}
		if kind, isEv := eventFns[a.C.alias(g)]; isEv {
			out[g] = []string{"event:" + kind}
		}
	}
	a.effFns = out
	return out
}

// gateSitesOf: the gated calls of f, the calls inside new helpers included (at most three levels).
func (a *An) gateSitesOf(f *ssa.Function, depth int, stack map[*ssa.Function]bool) []gateSite {
	var out []gateSite
	eff := a.effectfulFns()
	bg := a.blockGates(f, depth)
	for _, b := range f.Blocks {
		for _, in := range b.Instrs {
			call, ok := in.(ssa.CallInstruction)
			if !ok {
				continue
			}
			for _, g := range a.C.Callees(call) {
				g = a.C.unwrap(g)
				if g == nil || g == f {
					continue
				}
				if a.C.isNew(g) && g.Blocks != nil {
					if depth < 3 && !stack[g] {
						stack[g] = true
						restore := a.bindArgs(g, call)
						inner := a.gateSitesOf(g, depth+1, stack)
						restore()
						for _, s := range inner {
							set := map[string]bool{}
							for _, x := range a.unionMarks(bg[b], 0) {
								set[x] = true
							}
							for _, x := range s.gates {
								set[x] = true
							}
							out = append(out, gateSite{s.callee, sortedKeys(set), s.fields})
						}
						delete(stack, g)
					}
					continue
				}
				if fw, isEff := eff[g]; isEff {
					out = append(out, gateSite{a.C.alias(g), a.unionMarks(bg[b], 0), fw})
				}
			}
		}
	}
	return out
}

// currentGates: "caller|callee" → one entry per call site: the gates joined with " & " ("always" when there is none).
func (a *An) currentGates() (map[string][]string, map[string][]string) {
	out := map[string][]string{}
	fields := map[string][]string{}
	for _, f := range a.C.FuncSeq {
		if f.Blocks == nil || (a.C.isNew(f) && len(a.CallSites(f)) > 0) {
			continue
		}
		if _, self := eventFns[a.C.alias(f)]; self {
			continue
		}
		for _, s := range a.gateSitesOf(f, 0, map[*ssa.Function]bool{f: true}) {
			key := a.C.alias(f) + "|" + s.callee
			g := strings.Join(normGates(s.gates), " & ")
			if g == "" {
				g = "always"
			}
			out[key] = append(out[key], g)
			fields[key] = s.fields
		}
	}
	for k := range out {
		sort.Strings(out[k])
	}
	return out, fields
}

func gatePropsOf(fields []string) string {
	var props []string
	for _, fk := range fields {
		if strings.HasPrefix(fk, "event:") {
			props = append(props, eventProps[fk[6:]])
			continue
		}
		props = append(props, propsOfField(fk))
	}
	return strings.Join(props, " ")
}

// gateCallerProps: which properties the conditions inside a function concern (by the part of the protocol it belongs to).
func (a *An) gateCallerProps() map[string]string {
	if a.gateFn != nil {
		return a.gateFn
	}
	out := map[string]string{}
	for f, p := range a.fnProps() {
		out[a.C.alias(f)] = p
	}
	add := func(props string, roots ...string) {
		for _, f := range a.reachableFns(roots...) {
			n := a.C.alias(f)
			for _, p := range strings.Fields(props) {
				if !strings.Contains(out[n], p) {
					out[n] = strings.TrimSpace(out[n] + " " + p)
				}
			}
		}
	}
	add("C06", "(*Conversation).Receive")
	add("C07", "(*Conversation).processWhitespaceTag", "(*Conversation).receiveErrorMessage", "(*Conversation).sendMessageOnPlaintext")
	add("C05 C09", "(*Conversation).processDataMessageWithRawErrors", "(*Conversation).genDataMsgWithFlag")
	add("C18", "(*Conversation).Receive")
	add("C08", apiRoots...)
	// the way an encoded message takes to the key-exchange handlers
	for _, n := range []string{"(*Conversation).receiveAKEMessage", "(*Conversation).receiveDecoded", "(*Conversation).receiveEncoded", "(*Conversation).receiveUnit"} {
		out[n] = strings.TrimSpace(out[n] + " C01 C07")
	}
	a.gateFn = out
	return out
}

func wipeLike(callee string) bool {
	l := strings.ToLower(callee)
	return strings.Contains(l, "wipe") || strings.Contains(l, "clear") || strings.Contains(l, "forget")
}

// gateRelevant: whether a change of the gates of caller|callee concerns the property: the caller belongs to the part of
// the protocol the property is about and the callee writes state the property is about. For the atomicity property only
// conditions on a failure (nil tests) count: state that moves, or no longer moves, on a failing path; for the
// forward-secrecy property only the calls that erase.
func (a *An) gateRelevant(prop, key string, fields []string, changed []string) bool {
	parts := strings.SplitN(key, "|", 2)
	if prop == "C08" && strings.Contains(a.gateCallerProps()[parts[0]], prop) && wipeLike(parts[1]) {
		return true // the conditions under which something is erased concern forward secrecy whatever it is that is erased
	}
	if !strings.Contains(a.gateCallerProps()[parts[0]], prop) || !strings.Contains(gatePropsOf(fields), prop) {
		return false
	}
	switch prop {
	case "C06":
		for _, g := range changed {
			if strings.Contains(g, " nil)=") {
				return true
			}
		}
		return changed == nil
	case "C08":
		return wipeLike(parts[1])
	}
	return true
}

func (a *An) closedGates(prop string) {
	R := a.R
	cur, fields := a.currentGates()
	names := map[string]bool{}
	for k := range cur {
		names[k] = true
	}
	n := 0
	for _, key := range sortedKeys(names) {
		frozen, known := frozenGates[key]
		if !known {
			continue // a new call of a state-writing function is reported by W.state-calls, a new event by P.events-closed
		}
		c := cur[key]
		if strings.Join(c, " || ") == strings.Join(frozen, " || ") {
			if a.gateRelevant(prop, key, fields[key], nil) {
				n++
				R.Ok("W.gates", "gates|"+key, "the conditions under which the call is made are the reviewed ones", "")
			}
			continue
		}
		// say what changed: conditions added to / dropped from the sites
		was, is := map[string]bool{}, map[string]bool{}
		for _, s := range frozen {
			for _, g := range strings.Split(s, " & ") {
				was[g] = true
			}
		}
		for _, s := range c {
			for _, g := range strings.Split(s, " & ") {
				is[g] = true
			}
		}
		var added, dropped []string
		for g := range is {
			if !was[g] {
				added = append(added, g)
			}
		}
		for g := range was {
			if !is[g] {
				dropped = append(dropped, g)
			}
		}
		sort.Strings(added)
		sort.Strings(dropped)
		changed := append(append([]string{"-"}, added...), dropped...)
		if !a.gateRelevant(prop, key, fields[key], changed) {
			continue
		}
		n++
		d := fmt.Sprintf("%d call site(s), reviewed %d", len(c), len(frozen))
		if len(added) > 0 {
			d += "; new condition(s): " + strings.Join(added, ", ")
		}
		if len(dropped) > 0 {
			d += "; condition(s) no longer required: " + strings.Join(dropped, ", ")
		}
		parts := strings.SplitN(key, "|", 2)
		R.Viol("W.gates", "gates|"+key, "the conditions under which "+parts[0]+" calls "+parts[1]+" are the reviewed ones", "",
			d+" — "+parts[1]+" changes "+strings.Join(fields[key], ", ")+"; that now happens under other conditions than before")
	}
	R.Extra["gated_call_pairs_with_closed_condition_sets"] = n
}

func genGates(a *An) {
	fmt.Println()
	fmt.Println("var frozenGates = map[string][]string{")
	g, _ := a.currentGates()
	var keys []string
	for k := range g {
		keys = append(keys, k)
	}
	sort.Strings(keys)
	for _, k := range keys {
		var q []string
		for _, x := range g[k] {
			q = append(q, fmt.Sprintf("%q", x))
		}
		fmt.Printf("\t%q: {%s},\n", k, strings.Join(q, ", "))
	}
	fmt.Println("}")
}

// bindArgs: while the body of g is rendered for the call, its parameters read as the arguments of the call.
func (a *An) bindArgs(g *ssa.Function, call ssa.CallInstruction) func() {
	args := call.Common().Args
	if call.Common().IsInvoke() || len(args) != len(g.Params) {
		return func() {}
	}
	bind := map[*ssa.Parameter]ssa.Value{}
	for i, p := range g.Params {
		bind[p] = args[i]
	}
	save := a.C.tenv
	a.C.tenv = &termEnv{bind: bind, up: save}
	return func() { a.C.tenv = save }
}

func tf(b bool) string {
	if b {
		return "=T"
	}
	return "=F"
}

// gateTerms: the canonical condition(s) a branch on v with the given outcome stands for. Comparisons are normalised
// (!= to ==, >, >=, <= to <, operands of == in a fixed order); the outcome of a new predicate helper, and of a nil test
// on the error result of a new helper, is replaced by the conditions inside the helper that lead to that outcome, so
// that moving a condition (or a sequence of checked steps) into a helper of its own leaves the gates unchanged.
func (a *An) gateTerms(v ssa.Value, truth bool, d int) []string {
	out := a.gateTerms1(v, truth, d)
	for i, t := range out {
		// the index of a range loop (starts at -1, tested after the increment) reads as a counter from 0
		out[i] = strings.ReplaceAll(t, "(phi((↺ + 1) / -1) + 1)", "phi((↺ + 1) / 0)")
	}
	return out
}

func (a *An) gateTerms1(v ssa.Value, truth bool, d int) []string {
	v = resolveLocal(v)
	switch x := v.(type) {
	case *ssa.UnOp:
		if x.Op == token.NOT {
			return a.gateTerms(x.X, !truth, d)
		}
	case *ssa.BinOp:
		l, r := resolveLocal(x.X), resolveLocal(x.Y)
		if t := a.threeWay(x.Op, l, r, truth); t != "" {
			return []string{t}
		}
		switch x.Op {
		case token.EQL, token.NEQ:
			isEq := (x.Op == token.EQL) == truth
			var other ssa.Value
			if isNilConst(r) {
				other = l
			} else if isNilConst(l) {
				other = r
			}
			if other != nil && isEq {
				if exp := a.expandNil(other, d); exp != nil {
					return exp
				}
			}
			if other != nil && !isEq {
				if alts := a.failAltsOf(other, d); alts != nil {
					a.failAlts = append(a.failAlts, alts)
					return []string{fmt.Sprintf("%s%d§", failMark, len(a.failAlts)-1)}
				}
			}
			lt, rt := a.C.Term(l), a.C.Term(r)
			if rt < lt && !isNilConst(r) || isNilConst(l) {
				lt, rt = rt, lt
			}
			return []string{"(" + lt + " == " + rt + ")" + tf(isEq)}
		case token.LSS:
			return []string{"(" + a.C.Term(l) + " < " + a.C.Term(r) + ")" + tf(truth)}
		case token.GTR:
			return []string{"(" + a.C.Term(r) + " < " + a.C.Term(l) + ")" + tf(truth)}
		case token.GEQ:
			return []string{"(" + a.C.Term(l) + " < " + a.C.Term(r) + ")" + tf(!truth)}
		case token.LEQ:
			return []string{"(" + a.C.Term(r) + " < " + a.C.Term(l) + ")" + tf(!truth)}
		}
	case *ssa.Call:
		if exp := a.expandBool(x, 0, truth, d); exp != nil {
			return exp
		}
	case *ssa.Extract:
		if call, ok := x.Tuple.(*ssa.Call); ok {
			if exp := a.expandBool(call, x.Index, truth, d); exp != nil {
				return exp
			}
		}
	}
	return []string{a.C.Term(v) + tf(truth)}
}

// forwarder: a function whose body does nothing but hand the result of one other call (on its own parameters) back.
func forwarder(g *ssa.Function) *ssa.Call {
	if len(g.Blocks) != 1 || len(g.FreeVars) > 0 {
		return nil
	}
	var call *ssa.Call
	for _, in := range g.Blocks[0].Instrs {
		switch x := in.(type) {
		case *ssa.FieldAddr, *ssa.Field:
		case *ssa.UnOp:
			if x.Op != token.MUL {
				return nil
			}
		case *ssa.Call:
			if call != nil || x.Call.StaticCallee() == nil {
				return nil
			}
			call = x
		case *ssa.Return:
			if call == nil || len(x.Results) != 1 || x.Results[0] != ssa.Value(call) {
				return nil
			}
		default:
			return nil
		}
	}
	return call
}

// expandBool: the conditions inside a new predicate helper (any shape, no effects) under which it returns the wanted
// outcome; a forwarder of the reviewed tree reads as the call it forwards to.
func (a *An) expandBool(call *ssa.Call, idx int, want bool, d int) []string {
	g := call.Call.StaticCallee()
	if g == nil || g.Blocks == nil || d > 3 || g.Pkg == nil || g.Pkg.Pkg != a.C.Otr.Pkg && g.Pkg.Pkg.Path() != sexpPath {
		return nil
	}
	if idx >= g.Signature.Results().Len() {
		return nil
	}
	if b, ok := g.Signature.Results().At(idx).Type().Underlying().(*types.Basic); !ok || b.Kind() != types.Bool {
		return nil
	}
	if !a.C.isNew(g) {
		if inner := forwarder(g); inner != nil && idx == 0 && g.Signature.Results().Len() == 1 {
			restore := a.bindArgs(g, call)
			defer restore()
			return a.gateTerms(inner, want, d+1)
		}
		return nil
	}
	if len(g.FreeVars) > 0 || len(a.stateFieldsWritten(g)) > 0 || g.Recover != nil {
		return nil
	}
	restore := a.bindArgs(g, call)
	defer restore()
	return a.boolOutcome(g, idx, want, d)
}

// boolOutcome: the conditions inside g (with whatever its parameters are bound to) under which it returns want.
func (a *An) boolOutcome(g *ssa.Function, idx int, want bool, d int) []string {
	bg := a.blockGates(g, d+1)
	set := map[string]bool{}
	addAll := func(l []string) {
		for _, x := range l {
			set[x] = true
		}
	}
	edgeGate := func(p, to *ssa.BasicBlock) []string {
		if len(p.Instrs) == 0 {
			return nil
		}
		iff, ok := p.Instrs[len(p.Instrs)-1].(*ssa.If)
		if !ok || len(p.Succs) != 2 {
			return nil
		}
		if p.Succs[0] == to && p.Succs[1] != to {
			return a.gateTerms(iff.Cond, true, d+1)
		}
		if p.Succs[1] == to && p.Succs[0] != to {
			return a.gateTerms(iff.Cond, false, d+1)
		}
		return nil
	}
	found := false
	var val func(v ssa.Value, at *ssa.BasicBlock, depth int)
	val = func(v ssa.Value, at *ssa.BasicBlock, depth int) {
		switch x := v.(type) {
		case *ssa.Const:
			if x.Value != nil && constant.BoolVal(x.Value) == want {
				found = true
				addAll(bg[at])
			}
			return
		case *ssa.Phi:
			if depth < 6 {
				for k, e := range x.Edges {
					p := x.Block().Preds[k]
					if c, isC := e.(*ssa.Const); isC {
						if c.Value != nil && constant.BoolVal(c.Value) == want {
							found = true
							addAll(bg[p])
							addAll(edgeGate(p, x.Block()))
						}
						continue
					}
					addAll(edgeGate(p, x.Block()))
					val(e, p, depth+1)
				}
				return
			}
		}
		found = true
		addAll(bg[at])
		addAll(a.gateTerms(v, want, d+1))
	}
	for _, b := range g.Blocks {
		if r, ok := b.Instrs[len(b.Instrs)-1].(*ssa.Return); ok && idx < len(r.Results) && (b == g.Blocks[0] || len(b.Preds) > 0) {
			val(resolveLocal(r.Results[idx]), b, 0)
		}
	}
	if !found {
		return nil
	}
	return sortedKeys(set)
}

// expandNil: for the error result of a call of a new helper, the conditions inside the helper under which that result
// is nil (the helper got through all its steps).
func (a *An) expandNil(v ssa.Value, d int) []string {
	idx := 0
	var call *ssa.Call
	switch x := v.(type) {
	case *ssa.Call:
		call = x
	case *ssa.Extract:
		c, ok := x.Tuple.(*ssa.Call)
		if !ok {
			return nil
		}
		call, idx = c, x.Index
	default:
		return nil
	}
	g := call.Call.StaticCallee()
	if g == nil || !a.C.isNew(g) || g.Blocks == nil || d > 3 || len(g.FreeVars) > 0 || g.Recover != nil {
		return nil
	}
	restore := a.bindArgs(g, call)
	defer restore()
	bg := a.blockGates(g, d+1)
	set := map[string]bool{}
	found := false
	for _, b := range g.Blocks {
		r, ok := b.Instrs[len(b.Instrs)-1].(*ssa.Return)
		if !ok || idx >= len(r.Results) || (b != g.Blocks[0] && len(b.Preds) == 0) {
			continue
		}
		e := resolveLocal(r.Results[idx])
		if ld, isLd := e.(*ssa.UnOp); isLd && ld.Op == token.MUL {
			return nil // a named result kept in memory (deferred calls): not followed
		}
		if !isNilConst(e) {
			if a.F.provablyNonNil(e) {
				continue
			}
			known := false
			self := "(" + a.C.Term(e) + " == nil)=F"
			for _, x := range bg[b] {
				if x == self {
					known = true
				}
			}
			if known {
				continue
			}
			for _, x := range a.gateTerms(&ssa.BinOp{Op: token.EQL, X: e, Y: ssa.NewConst(nil, e.Type())}, true, d+1) {
				set[x] = true
			}
		}
		found = true
		for _, x := range bg[b] {
			set[x] = true
		}
	}
	if !found {
		return nil
	}
	return sortedKeys(set)
}

// ---- erasures ---------------------------------------------------------------------------------------------------------
// frozenEraseSites: function → the calls of the erasing primitives in it, as "primitive(argument term)". An erasure that
// is dropped keeps a secret longer than reviewed (forward secrecy); a new erasure of anything but a buffer the function
// made itself can destroy a value the session still uses (the peer's D-H value aliased from a parsed message, a key a
// later message is checked with).

var erasePrims = map[string]bool{"wipeBigInt": true, "wipeBytes": true, "wipeSecretKeyValue": true, "unsafeWipe": true,
	"wipeUint32": true, "wipeInt8": true, "wipeInt": true, "wipeInt32": true}

func freshLocal(v ssa.Value, d int) bool {
	v = resolveLocal(v)
	switch x := v.(type) {
	case *ssa.MakeSlice:
		return true
	case *ssa.Slice:
		if d < 4 {
			if _, isAl := x.X.(*ssa.Alloc); isAl {
				return true
			}
			return freshLocal(x.X, d+1)
		}
	case *ssa.Call:
		if sc := x.Call.StaticCallee(); sc != nil && sc.Name() == "makeCopy" {
			return true
		}
		if b, ok := x.Call.Value.(*ssa.Builtin); ok && b.Name() == "append" && d < 4 {
			return freshLocal(x.Call.Args[0], d+1)
		}
	case *ssa.ChangeType:
		return d < 4 && freshLocal(x.X, d+1)
	}
	return false
}

func (a *An) currentEraseSites() (map[string][]string, map[string]bool) {
	out := map[string][]string{}
	fresh := map[string]bool{}
	for _, f := range a.C.FuncSeq {
		if erasePrims[f.Name()] && f.Signature.Recv() == nil {
			continue
		}
		for _, b := range f.Blocks {
			for _, in := range b.Instrs {
				call, ok := in.(ssa.CallInstruction)
				if !ok {
					continue
				}
				sc := call.Common().StaticCallee()
				if sc == nil || !erasePrims[sc.Name()] || sc.Signature.Recv() != nil || len(call.Common().Args) == 0 {
					continue
				}
				arg := call.Common().Args[0]
				if mi, isMI := arg.(*ssa.MakeInterface); isMI {
					arg = mi.X
				}
				o := a.C.alias(a.C.owner(f))
				e := sc.Name() + "(" + a.C.Term(arg) + ")"
				out[o] = append(out[o], e)
				if freshLocal(arg, 0) {
					fresh[o+"|"+e] = true
				}
			}
		}
	}
	for k := range out {
		sort.Strings(out[k])
	}
	return out, fresh
}

func (a *An) closedEraseSites(prop string) {
	R := a.R
	cur, fresh := a.currentEraseSites()
	names := map[string]bool{}
	for k := range cur {
		names[k] = true
	}
	for k := range frozenEraseSites {
		names[k] = true
	}
	count := func(l []string) map[string]int {
		m := map[string]int{}
		for _, x := range l {
			m[x]++
		}
		return m
	}
	n := 0
	for _, fn := range sortedKeys(names) {
		c, f := count(cur[fn]), count(frozenEraseSites[fn])
		var added, dropped []string
		for e, k := range c {
			if k > f[e] && !fresh[fn+"|"+e] {
				added = append(added, e)
			}
		}
		for e, k := range f {
			if k > c[e] {
				dropped = append(dropped, e)
			}
		}
		sort.Strings(added)
		sort.Strings(dropped)
		switch prop {
		case "C08":
			n++
			R.Check(len(dropped) == 0, "W.erase-sites", "erasures|"+fn, "the erasures in "+fn+" are the reviewed ones", "",
				"no longer erased: "+strings.Join(dropped, ", ")+" — a secret or a text is kept longer than it was")
		case "C03", "C04", "C06":
			if _, known := frozenEraseSites[fn]; !known && len(added) == 0 {
				continue
			}
			n++
			R.Check(len(added) == 0, "W.erase-sites", "erasures|"+fn, "nothing but its own buffers is newly erased in "+fn, "",
				"newly erased: "+strings.Join(added, ", ")+" — if the value is shared with the session state (a parsed number stored as the peer's key, a key still needed for a later message) it is destroyed there as well")
		}
	}
	if n > 0 {
		R.Extra["functions_with_closed_erasure_sets"] = n
	}
}

func genEraseSites(a *An) {
	fmt.Println()
	fmt.Println("var frozenEraseSites = map[string][]string{")
	g, _ := a.currentEraseSites()
	var keys []string
	for k := range g {
		keys = append(keys, k)
	}
	sort.Strings(keys)
	for _, k := range keys {
		var q []string
		for _, x := range g[k] {
			q = append(q, fmt.Sprintf("%q", x))
		}
		fmt.Printf("\t%q: {%s},\n", k, strings.Join(q, ", "))
	}
	fmt.Println("}")
}

// ---- constants handed to calls ---------------------------------------------------------------------------------------
// frozenConstArgs: function → the constant (numeric, boolean) arguments of the calls in it and the constant
// sizes of the buffers it makes, as "callee#index=value". A size, a base, a flag, a message type or an event code
// passed as a literal is part of what the function does; a renamed or newly named constant of the same value reads
// the same.

func (a *An) constArgsOf(f *ssa.Function, depth int, stack map[*ssa.Function]bool, into *[]string) {
	for _, b := range f.Blocks {
		for _, in := range b.Instrs {
			switch x := in.(type) {
			case ssa.CallInstruction:
				com := x.Common()
				name := ""
				if sc := com.StaticCallee(); sc != nil {
					if a.C.isNew(sc) && sc.Blocks != nil {
						// the constants a new helper hands on count where the helper is called from; the constants it is
						// given show up where it uses them
						if depth < 3 && !stack[sc] {
							stack[sc] = true
							a.constArgsOf(sc, depth+1, stack, into)
							delete(stack, sc)
						}
						continue
					}
					name = a.C.alias(sc)
				} else if bi, ok := com.Value.(*ssa.Builtin); ok {
					name = bi.Name()
				} else if com.IsInvoke() {
					name = typeName(com.Value.Type()) + "." + com.Method.Name()
				} else {
					continue
				}
				for i, arg := range com.Args {
					if mi, isMI := arg.(*ssa.MakeInterface); isMI {
						arg = mi.X
					}
					k, ok := arg.(*ssa.Const)
					if !ok || k.Value == nil || k.Value.Kind() == constant.String {
						continue // texts of errors and of the debug dump are not behaviour the properties talk about
					}
					*into = append(*into, fmt.Sprintf("%s#%d=%s", name, i, constStr(k)))
				}
			case *ssa.MakeSlice:
				if k, ok := x.Len.(*ssa.Const); ok && k.Value != nil {
					*into = append(*into, "make#len="+constStr(k))
				}
			}
		}
	}
}

func (a *An) currentConstArgs() map[string][]string {
	out := map[string][]string{}
	for _, f := range a.C.FuncSeq {
		if f.Blocks == nil || (a.C.isNew(f) && len(a.CallSites(f)) > 0) {
			continue
		}
		var l []string
		a.constArgsOf(f, 0, map[*ssa.Function]bool{f: true}, &l)
		if len(l) > 0 {
			sort.Strings(l)
			out[a.C.alias(f)] = l
		}
	}
	return out
}

func (a *An) closedConstArgs(prop string) {
	R := a.R
	cur := a.currentConstArgs()
	gp := map[string]string{}
	for f, p := range a.fnProps() {
		gp[a.C.alias(f)] = p
	}
	names := map[string]bool{}
	for k := range cur {
		names[k] = true
	}
	for k := range frozenConstArgs {
		names[k] = true
	}
	n := 0
	for _, fn := range sortedKeys(names) {
		// the part of the protocol the function belongs to; every constant is also part of what goes on the wire
		props := gp[fn] + " C10"
		if !strings.Contains(props, prop) {
			continue
		}
		frozen, known := frozenConstArgs[fn]
		if !known {
			if f, ok := a.C.Fn(fn); ok && a.C.isNew(f) {
				continue
			}
		}
		n++
		c := cur[fn]
		if strings.Join(c, " ") == strings.Join(frozen, " ") {
			R.Ok("K.const-args", "consts|"+fn, "the constants "+fn+" hands to its calls are the reviewed ones", "")
			continue
		}
		cnt := map[string]int{}
		for _, x := range c {
			cnt[x]++
		}
		for _, x := range frozen {
			cnt[x]--
		}
		var added, dropped []string
		for x, k := range cnt {
			if k > 0 {
				added = append(added, x)
			} else if k < 0 {
				dropped = append(dropped, x)
			}
		}
		sort.Strings(added)
		sort.Strings(dropped)
		R.Viol("K.const-args", "consts|"+fn, "the constants "+fn+" hands to its calls are the reviewed ones", "",
			"now: "+strings.Join(added, ", ")+"; reviewed: "+strings.Join(dropped, ", ")+" — a size, code, flag or bound passed as a literal changed")
	}
	R.Extra["functions_with_closed_constant_arguments"] = n
}

func genConstArgs(a *An) {
	fmt.Println()
	fmt.Println("var frozenConstArgs = map[string][]string{")
	g := a.currentConstArgs()
	var keys []string
	for k := range g {
		keys = append(keys, k)
	}
	sort.Strings(keys)
	for _, k := range keys {
		var q []string
		for _, x := range g[k] {
			q = append(q, fmt.Sprintf("%q", x))
		}
		fmt.Printf("\t%q: {%s},\n", k, strings.Join(q, ", "))
	}
	fmt.Println("}")
}

// ---- what a function returns, and when ------------------------------------------------------------------------------
// frozenReturns: function → for a function with one boolean result the conditions under which it answers true and those
// under which it answers false; for any other function one entry per return statement: the conditions it is
// control-dependent on and the constants among its results ("·" for a computed value). This is the decision skeleton of
// the parsers, guards and predicates: a boundary moved by one (> for >=), a dropped or added early return, a result
// flipped. Computed values are not compared here.

func (a *An) currentReturns() map[string][]string {
	out := map[string][]string{}
	for _, f := range a.C.FuncSeq {
		if f.Blocks == nil || a.C.isNew(f) {
			continue
		}
		name := a.C.alias(f)
		res := f.Signature.Results()
		if res.Len() == 1 {
			if b, ok := res.At(0).Type().Underlying().(*types.Basic); ok && b.Kind() == types.Bool && f.Recover == nil {
				t := normGates(a.unionMarks(a.boolOutcome(f, 0, true, 0), 0))
				fl := normGates(a.unionMarks(a.boolOutcome(f, 0, false, 0), 0))
				out[name] = []string{"T: " + strings.Join(t, " & "), "F: " + strings.Join(fl, " & ")}
				continue
			}
		}
		if res.Len() == 0 {
			continue
		}
		// grouped by what is returned: the conditions of all returns of the same constants together (two returns of the
		// same outcome merged into one, or one split into two, read the same)
		byRes := map[string]map[string]bool{}
		for _, e := range a.returnEntries(f, 0) {
			key := "(" + strings.Join(e.res, ", ") + ")"
			for _, g := range a.unionMarks(e.gates, 0) {
				if byRes[key] == nil {
					byRes[key] = map[string]bool{}
				}
				byRes[key][g] = true
			}
		}
		var l []string
		for key, gs := range byRes {
			l = append(l, strings.Join(normGates(sortedKeys(gs)), " & ")+" => "+key)
		}
		if len(l) > 0 {
			sort.Strings(l)
			out[name] = l
		}
	}
	return out
}

func (a *An) closedReturns(prop string) {
	R := a.R
	cur := a.currentReturns()
	gp := map[string]string{}
	for f, p := range a.fnProps() {
		gp[a.C.alias(f)] = p
	}
	names := map[string]bool{}
	for k := range cur {
		names[k] = true
	}
	for k := range frozenReturns {
		names[k] = true
	}
	n := 0
	for _, fn := range sortedKeys(names) {
		if !strings.Contains(gp[fn], prop) {
			continue
		}
		frozen, known := frozenReturns[fn]
		c, has := cur[fn]
		if !known || !has {
			continue // a function that is new, gone or no longer branches: the rules anchored on it say so
		}
		n++
		if strings.Join(c, " || ") == strings.Join(frozen, " || ") {
			R.Ok("P.returns-closed", "returns|"+fn, "the conditions under which "+fn+" returns what are the reviewed ones", "")
			continue
		}
		was, is := map[string]bool{}, map[string]bool{}
		for _, x := range frozen {
			was[x] = true
		}
		for _, x := range c {
			is[x] = true
		}
		var added, dropped []string
		for x := range is {
			if !was[x] {
				added = append(added, x)
			}
		}
		for x := range was {
			if !is[x] {
				dropped = append(dropped, x)
			}
		}
		sort.Strings(added)
		sort.Strings(dropped)
		pos := ""
		if f, ok := a.C.Fn(fn); ok {
			pos = a.C.Pos(f.Pos())
		}
		R.Viol("P.returns-closed", "returns|"+fn, "the conditions under which "+fn+" returns what are the reviewed ones", pos,
			"now: "+strings.Join(added, " || ")+"; reviewed: "+strings.Join(dropped, " || ")+" — a guard, a boundary or an outcome of this function changed")
	}
	R.Extra["functions_with_closed_return_conditions"] = n
}

func genReturns(a *An) {
	fmt.Println()
	fmt.Println("var frozenReturns = map[string][]string{")
	g := a.currentReturns()
	var keys []string
	for k := range g {
		keys = append(keys, k)
	}
	sort.Strings(keys)
	for _, k := range keys {
		var q []string
		for _, x := range g[k] {
			q = append(q, fmt.Sprintf("%q", x))
		}
		fmt.Printf("\t%q: {%s},\n", k, strings.Join(q, ", "))
	}
	fmt.Println("}")
}

// ---- failing outcomes of new helpers ----------------------------------------------------------------------------------
// A branch taken because a new helper failed stands for the alternatives inside the helper: one per return that hands
// back an error. In a set of gates the marker reads as the union of the alternatives; in the table of returns the entry
// is multiplied, one entry per alternative (two checked steps moved into a helper remain two ways to fail).

const failMark = "§FAIL"

func (a *An) failAltsOf(v ssa.Value, d int) [][]string {
	idx := 0
	var call *ssa.Call
	switch x := v.(type) {
	case *ssa.Call:
		call = x
	case *ssa.Extract:
		c, ok := x.Tuple.(*ssa.Call)
		if !ok {
			return nil
		}
		call, idx = c, x.Index
	default:
		return nil
	}
	g := call.Call.StaticCallee()
	if g == nil || !a.C.isNew(g) || g.Blocks == nil || d > 3 || len(g.FreeVars) > 0 || g.Recover != nil {
		return nil
	}
	restore := a.bindArgs(g, call)
	defer restore()
	bg := a.blockGates(g, d+1)
	var alts [][]string
	for _, b := range g.Blocks {
		r, ok := b.Instrs[len(b.Instrs)-1].(*ssa.Return)
		if !ok || idx >= len(r.Results) || (b != g.Blocks[0] && len(b.Preds) == 0) {
			continue
		}
		e := resolveLocal(r.Results[idx])
		if ld, isLd := e.(*ssa.UnOp); isLd && ld.Op == token.MUL {
			return nil
		}
		if isNilConst(e) {
			continue
		}
		set := map[string]bool{}
		for _, x := range bg[b] {
			set[x] = true
		}
		if !a.F.provablyNonNil(e) && !set["("+a.C.Term(e)+" == nil)=F"] {
			for _, x := range a.gateTerms(&ssa.BinOp{Op: token.NEQ, X: e, Y: ssa.NewConst(nil, e.Type())}, true, d+1) {
				set[x] = true
			}
		}
		alts = append(alts, sortedKeys(set))
	}
	return alts
}

// unionMarks: a gate set with every failure marker replaced by the union of its alternatives.
func (a *An) unionMarks(gates []string, d int) []string {
	set := map[string]bool{}
	for _, g := range gates {
		if strings.HasPrefix(g, failMark) && d < 6 {
			var n int
			fmt.Sscanf(g[len(failMark):], "%d", &n)
			for _, alt := range a.failAlts[n] {
				for _, x := range a.unionMarks(alt, d+1) {
					set[x] = true
				}
			}
			continue
		}
		set[g] = true
	}
	return sortedKeys(set)
}

// multiplyMarks: the gate sets a gate set with failure markers stands for, one per combination of alternatives.
func (a *An) multiplyMarks(gates []string, d int) [][]string {
	for i, g := range gates {
		if strings.HasPrefix(g, failMark) && d < 6 {
			var n int
			fmt.Sscanf(g[len(failMark):], "%d", &n)
			rest := append(append([]string{}, gates[:i]...), gates[i+1:]...)
			var out [][]string
			for _, alt := range a.failAlts[n] {
				out = append(out, a.multiplyMarks(append(append([]string{}, rest...), alt...), d+1)...)
			}
			return out
		}
	}
	set := map[string]bool{}
	for _, g := range gates {
		set[g] = true
	}
	return [][]string{sortedKeys(set)}
}

type retEntry struct {
	gates []string
	res   []string
}

// returnEntries: one entry per return of f (gates, constants among the results); a return that hands on results of a
// new helper stands for the helper's own returns.
func (a *An) returnEntries(f *ssa.Function, d int) []retEntry {
	bg := a.blockGates(f, d)
	var out []retEntry
	for _, b := range f.Blocks {
		r, ok := b.Instrs[len(b.Instrs)-1].(*ssa.Return)
		if !ok || (b != f.Blocks[0] && len(b.Preds) == 0) {
			continue
		}
		res := make([]string, len(r.Results))
		var hcall *ssa.Call
		hidx := map[int]int{}
		multi := false
		for i, v := range r.Results {
			v = resolveLocal(v)
			res[i] = "·"
			var call *ssa.Call
			k := 0
			switch x := v.(type) {
			case *ssa.Const:
				res[i] = constStr(x)
			case *ssa.Extract:
				if c, isC := x.Tuple.(*ssa.Call); isC {
					call, k = c, x.Index
				}
			case *ssa.Call:
				call = x
			}
			if res[i] == "·" {
				// a value the path has tested to be nil is nil
				t := a.C.Term(v)
				for _, g := range bg[b] {
					if g == "("+t+" == nil)=T" || g == "(nil == "+t+")=T" {
						res[i] = "nil"
					}
				}
			}
			if call != nil {
				// only in tail position: the call sits in the block of the return, nothing was decided on its results
				if g := call.Call.StaticCallee(); g != nil && call.Block() == b && a.C.isNew(g) && g.Blocks != nil && d < 3 && len(g.FreeVars) == 0 && g.Recover == nil {
					if hcall != nil && hcall != call {
						multi = true
					}
					hcall = call
					hidx[i] = k
				}
			}
		}
		if hcall == nil || multi {
			out = append(out, retEntry{bg[b], res})
			continue
		}
		g := hcall.Call.StaticCallee()
		restore := a.bindArgs(g, hcall)
		inner := a.returnEntries(g, d+1)
		restore()
		for _, e := range inner {
			set := map[string]bool{}
			for _, x := range bg[b] {
				set[x] = true
			}
			for _, x := range e.gates {
				set[x] = true
			}
			rr := append([]string{}, res...)
			for i, k := range hidx {
				if k < len(e.res) {
					rr[i] = e.res[k]
				}
			}
			out = append(out, retEntry{sortedKeys(set), rr})
		}
	}
	return out
}

// ---- big-number operations that need a non-zero operand ---------------------------------------------------------------
// frozenBigOps: function → the calls of math/big operations that panic on a zero divisor (Mod, Div, Quo, Rem, DivMod,
// QuoRem, ModInverse*) or lose their bound with a zero modulus (Exp computes the unbounded power then), with the term of
// that operand. A new such call, or one whose operand changed, divides by (or exponentiates modulo) a value nobody
// reviewed: with a value taken from a message or a key file that is a crash or an unbounded computation.

var bigOpsOperand = map[string]int{"Exp": 3, "Mod": 2, "Div": 2, "Quo": 2, "Rem": 2, "DivMod": 2, "QuoRem": 2, "ModInverse": 2, "ModSqrt": 2}

// bigOpWrappers: functions of the two packages that hand one of their parameters on as that operand (mod, modExp,
// mulMod, … and what wraps those): function → parameter index.
func (a *An) bigOpWrappers() map[*ssa.Function]int {
	w := map[*ssa.Function]int{}
	for changed := true; changed; {
		changed = false
		for _, f := range a.C.FuncSeq {
			if _, done := w[f]; done || f.Blocks == nil {
				continue
			}
			for _, b := range f.Blocks {
				for _, in := range b.Instrs {
					call, ok := in.(ssa.CallInstruction)
					if !ok {
						continue
					}
					idx, isOp := a.bigOperandIndex(call, w)
					if !isOp {
						continue
					}
					if p, isP := call.Common().Args[idx].(*ssa.Parameter); isP {
						for k, q := range f.Params {
							if q == p {
								if _, done := w[f]; !done {
									w[f] = k
									changed = true
								}
							}
						}
					}
				}
			}
		}
	}
	return w
}

func (a *An) bigOperandIndex(call ssa.CallInstruction, w map[*ssa.Function]int) (int, bool) {
	sc := call.Common().StaticCallee()
	if sc == nil {
		return 0, false
	}
	if k, ok := w[sc]; ok && k < len(call.Common().Args) {
		return k, true
	}
	if sc.Pkg == nil || sc.Pkg.Pkg.Path() != "math/big" || sc.Signature.Recv() == nil || !strings.Contains(sc.Signature.Recv().Type().String(), "Int") {
		return 0, false
	}
	idx, isOp := bigOpsOperand[sc.Name()]
	if !isOp || idx >= len(call.Common().Args) {
		return 0, false
	}
	return idx, true
}

func (a *An) currentBigOps() map[string][]string {
	out := map[string][]string{}
	w := a.bigOpWrappers()
	for _, f := range a.C.FuncSeq {
		for _, b := range f.Blocks {
			for _, in := range b.Instrs {
				call, ok := in.(ssa.CallInstruction)
				if !ok {
					continue
				}
				idx, isOp := a.bigOperandIndex(call, w)
				if !isOp {
					continue
				}
				o := a.C.alias(a.C.owner(f))
				out[o] = append(out[o], a.C.alias(call.Common().StaticCallee())+"("+a.C.Term(call.Common().Args[idx])+")")
			}
		}
	}
	for k := range out {
		sort.Strings(out[k])
	}
	return out
}

func (a *An) closedBigOps(rule string, roots ...string) {
	R := a.R
	cur := a.currentBigOps()
	n := 0
	var only map[string]bool
	if len(roots) > 0 {
		only = map[string]bool{}
		for _, g := range a.reachableFns(roots...) {
			only[a.C.alias(a.C.owner(g))] = true
		}
	}
	for _, fn := range sortedKeys(func() map[string]bool {
		m := map[string]bool{}
		for k := range cur {
			m[k] = true
		}
		return m
	}()) {
		if only != nil && !only[fn] {
			continue
		}
		cnt := map[string]int{}
		for _, x := range frozenBigOps[fn] {
			cnt[x]++
		}
		var added []string
		for _, x := range cur[fn] {
			if cnt[x] > 0 {
				cnt[x]--
				continue
			}
			added = append(added, x)
		}
		n++
		R.Check(len(added) == 0, rule, "bigops|"+fn, "the divisions and modular exponentiations in "+fn+" are the reviewed ones", "",
			"new or changed: "+strings.Join(added, ", ")+" — a zero divisor panics, a zero modulus makes Exp compute the unbounded power")
	}
	if only == nil {
		R.Floor(rule, 12)
	} else {
		R.Floor(rule, 5)
	}
	_ = n
}

func genBigOps(a *An) {
	fmt.Println()
	fmt.Println("var frozenBigOps = map[string][]string{")
	g := a.currentBigOps()
	var keys []string
	for k := range g {
		keys = append(keys, k)
	}
	sort.Strings(keys)
	for _, k := range keys {
		var q []string
		for _, x := range g[k] {
			q = append(q, fmt.Sprintf("%q", x))
		}
		fmt.Printf("\t%q: {%s},\n", k, strings.Join(q, ", "))
	}
	fmt.Println("}")
}

// ---- what every function calls, and with what -------------------------------------------------------------------------
// frozenCalls: function → the set of calls in it, each as "callee(argument terms)" (builtins and the calls of new helpers
// excluded: a new helper's own calls count as its owner's). A different function called (a sibling with the same
// signature: another hash, another comparison, the variable-time instead of the constant-time exponentiation), or the
// same function called with a different value (the wrong one of two key ids, the other party's public value), reads
// differently; renaming, hoisting a sub-expression, calling twice instead of once, or moving code into a helper does not.

func (a *An) callsOf(f *ssa.Function, depth int, stack map[*ssa.Function]bool, into map[string]bool) {
	for _, b := range f.Blocks {
		for _, in := range b.Instrs {
			call, ok := in.(ssa.CallInstruction)
			if !ok {
				continue
			}
			com := call.Common()
			if _, isB := com.Value.(*ssa.Builtin); isB {
				continue
			}
			name := ""
			var recv string
			if sc := com.StaticCallee(); sc != nil {
				if a.C.isNew(sc) && sc.Blocks != nil {
					// the calls inside a new helper count as calls of whoever calls the helper
					if depth < 3 && !stack[sc] {
						stack[sc] = true
						restore := a.bindArgs(sc, call)
						a.callsOf(sc, depth+1, stack, into)
						restore()
						delete(stack, sc)
					}
					continue
				}
				if sc.Pkg != nil && (sc.Pkg.Pkg.Path() == "fmt" || sc.Pkg.Pkg.Path() == "bufio") {
					continue // texts of errors and of the debug dump
				}
				if a.C.arithOld(sc) || a.C.pureNumeric(sc) {
					continue // only names an expression over its arguments (min, max): part of the terms it occurs in
				}
				if a.formulaWrapper(sc) && depth < 8 && !stack[sc] {
					// a function that only names a formula over other functions of the library (generateDZKP(r, a, c) =
					// subMod(r, mul(a, c), q)) reads as that formula: writing the formula out, or using the name, is the same
					stack[sc] = true
					restore := a.bindArgs(sc, call)
					a.callsOf(sc, depth+1, stack, into)
					restore()
					delete(stack, sc)
					continue
				}
				if erasePrims[sc.Name()] && sc.Signature.Recv() == nil && len(com.Args) > 0 && freshLocal(com.Args[0], 0) {
					continue // erasing a buffer the function made itself (see W.erase-sites)
				}
				if inner := forwarder(sc); inner != nil && depth < 3 {
					// a function that only hands on to another one reads as the call it makes
					restore := a.bindArgs(sc, call)
					ic := inner.Common()
					var iargs []string
					for _, arg := range ic.Args {
						iargs = append(iargs, a.C.Term(resolveLocal(arg)))
					}
					t := a.C.alias(ic.StaticCallee()) + "(" + strings.Join(iargs, ", ") + ")"
					restore()
					into[t] = true
					continue
				}
				name = a.C.alias(sc)
			} else if com.IsInvoke() {
				name = typeName(com.Value.Type()) + "." + com.Method.Name()
				recv = a.C.Term(com.Value)
			} else {
				name = "dyn:" + a.C.Term(com.Value)
			}
			var args []string
			if recv != "" {
				args = append(args, recv)
			}
			for _, arg := range com.Args {
				if mi, isMI := arg.(*ssa.MakeInterface); isMI {
					arg = mi.X
				}
				if k, isK := arg.(*ssa.Const); isK && k.Value != nil && k.Value.Kind() == constant.String {
					args = append(args, "\"…\"")
					continue
				}
				args = append(args, a.C.Term(resolveLocal(arg)))
			}
			t := name + "(" + strings.Join(args, ", ") + ")"
			into[strings.ReplaceAll(t, "(phi((↺ + 1) / -1) + 1)", "phi((↺ + 1) / 0)")] = true
		}
	}
}

// formulaWrapper: a reviewed function of the library that is one straight-line block without stores or other effects of
// its own, returns one value, and calls only functions of the library (at least one).
func (a *An) formulaWrapper(g *ssa.Function) bool {
	if g == nil || !a.C.IsLib(g) || a.C.isNew(g) || len(g.Blocks) != 1 || len(g.FreeVars) > 0 || g.Signature.Results().Len() != 1 || g.Recover != nil {
		return false
	}
	n := 0
	for _, in := range g.Blocks[0].Instrs {
		switch x := in.(type) {
		case *ssa.Store:
			al, ok := x.Addr.(*ssa.Alloc)
			if !ok || spilledParam(al) == nil {
				return false
			}
		case *ssa.MapUpdate, *ssa.Send, *ssa.Go, *ssa.Defer, *ssa.Panic, *ssa.RunDefers, *ssa.MakeClosure:
			return false
		case ssa.CallInstruction:
			com := x.Common()
			if _, isB := com.Value.(*ssa.Builtin); isB {
				continue
			}
			sc := com.StaticCallee()
			if sc == nil || !a.C.IsLib(sc) || len(com.Args) != len(sc.Params) {
				return false
			}
			n++
		}
	}
	return n > 0
}

func (a *An) currentCalls() map[string][]string {
	out := map[string][]string{}
	for _, f := range a.C.FuncSeq {
		if f.Blocks == nil || (a.C.isNew(f) && len(a.CallSites(f)) > 0) {
			continue
		}
		o := a.C.alias(f)
		if strings.HasPrefix(o, "(*Conversation).dump") {
			continue // the debug dump
		}
		set := map[string]bool{}
		a.callsOf(f, 0, map[*ssa.Function]bool{f: true}, set)
		if len(set) > 0 {
			out[o] = sortedKeys(set)
		}
	}
	return out
}

func (a *An) closedCalls(prop string) {
	R := a.R
	cur := a.currentCalls()
	gp := map[string]string{}
	for f, p := range a.fnProps() {
		gp[a.C.alias(f)] = p
	}
	n := 0
	for _, fn := range sortedKeys(func() map[string]bool {
		m := map[string]bool{}
		for k := range cur {
			m[k] = true
		}
		for k := range frozenCalls {
			m[k] = true
		}
		return m
	}()) {
		if !strings.Contains(gp[fn]+" C10", prop) {
			continue
		}
		frozen, known := frozenCalls[fn]
		if !known {
			continue // a function that is not in the reviewed tree: reported by the tables of writers, callers and reasons
		}
		if _, still := a.C.Fn(fn); !still {
			continue
		}
		if erasePrims[fn] {
			continue // the erasing primitives: what their bodies do is judged by P.wipe-helpers, in whatever form it is written
		}
		n++
		was := map[string]bool{}
		for _, x := range frozen {
			was[x] = true
		}
		is := map[string]bool{}
		for _, x := range cur[fn] {
			is[x] = true
		}
		var added, dropped []string
		for x := range is {
			if !was[x] {
				added = append(added, x)
			}
		}
		for x := range was {
			if !is[x] {
				dropped = append(dropped, x)
			}
		}
		sort.Strings(added)
		sort.Strings(dropped)
		pos := ""
		if f, ok := a.C.Fn(fn); ok {
			pos = a.C.Pos(f.Pos())
		}
		R.Check(len(added) == 0 && len(dropped) == 0, "K.calls-closed", "calls|"+fn, "what "+fn+" calls, and with which values, is what was reviewed", pos,
			"now: "+strings.Join(added, "; ")+" — reviewed: "+strings.Join(dropped, "; "))
	}
	R.Extra["functions_with_closed_call_sets"] = n
}

func genCalls(a *An) {
	fmt.Println()
	fmt.Println("var frozenCalls = map[string][]string{")
	g := a.currentCalls()
	var keys []string
	for k := range g {
		keys = append(keys, k)
	}
	sort.Strings(keys)
	for _, k := range keys {
		var q []string
		for _, x := range g[k] {
			q = append(q, fmt.Sprintf("%q", x))
		}
		fmt.Printf("\t%q: {%s},\n", k, strings.Join(q, ", "))
	}
	fmt.Println("}")
}

// threeWay: a test of the result of a three-way comparison (big.Int.Cmp, bytes.Compare: -1, 0 or 1) against -1, 0 or 1
// reads as the ordering it decides: "== -1" and "< 0" are both "lt", "!= 1" and "<= 0" both "le", and so on.
func (a *An) threeWay(op token.Token, l, r ssa.Value, truth bool) string {
	flip := map[token.Token]token.Token{token.LSS: token.GTR, token.GTR: token.LSS, token.LEQ: token.GEQ, token.GEQ: token.LEQ, token.EQL: token.EQL, token.NEQ: token.NEQ}
	if _, ok := flip[op]; !ok {
		return ""
	}
	call, isCall := l.(*ssa.Call)
	k, isK := r.(*ssa.Const)
	if !isCall || !isK {
		call, isCall = r.(*ssa.Call)
		k, isK = l.(*ssa.Const)
		op = flip[op]
	}
	if !isCall || !isK || k.Value == nil || k.Value.Kind() != constant.Int {
		return ""
	}
	sc := call.Call.StaticCallee()
	if sc == nil || !(sc.Name() == "Cmp" && sc.Pkg != nil && sc.Pkg.Pkg.Path() == "math/big" || sc.Name() == "Compare" && sc.Pkg != nil && sc.Pkg.Pkg.Path() == "bytes") {
		return ""
	}
	n, _ := constant.Int64Val(k.Value)
	// the set of results {-1,0,1} for which "result op n" holds
	var holds [3]bool
	for i, v := range []int64{-1, 0, 1} {
		switch op {
		case token.EQL:
			holds[i] = v == n
		case token.NEQ:
			holds[i] = v != n
		case token.LSS:
			holds[i] = v < n
		case token.LEQ:
			holds[i] = v <= n
		case token.GTR:
			holds[i] = v > n
		case token.GEQ:
			holds[i] = v >= n
		}
		if !truth {
			holds[i] = !holds[i]
		}
	}
	name := map[[3]bool]string{{true, false, false}: "lt", {true, true, false}: "le", {false, true, false}: "eq", {true, false, true}: "ne",
		{false, false, true}: "gt", {false, true, true}: "ge", {true, true, true}: "always", {false, false, false}: "never"}[holds]
	return "cmp[" + a.C.Term(call) + "] " + name
}
