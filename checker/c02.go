package main

import (
	"fmt"
	"go/token"
	"go/types"
	"strings"

	"golang.org/x/tools/go/ssa"
)

// shared with C05/C06/C19: the facts that mean "this data message is authentic".
func (a *An) dataAuthFacts() (auth []string, counter string) {
	enc := a.MustConst("encrypted")
	auth = []string{
		"passed:(Conversation.msgState == " + enc + ")",
		"ok:(*dataMsg).deserialize",
		"ok:(*keyManagementContext).pickOurKeys",
		"ok:(*keyManagementContext).pickTheirKey",
		"ok:(dataMsg).checkSign",
	}
	return auth, "ok:(*keyManagementContext).checkMessageCounter"
}

func init() {
	register("C02", "Structural clause decided: every sink of an incoming data message (plaintext handed back, TLV handling, key rotation, counter store, SMP/disconnect/extra-key handlers) is reached only on paths that passed, in this call, the success edges of: msgState==encrypted, dataMsg.deserialize, pickOurKeys, pickTheirKey (current or previous id only), dataMsg.checkSign and (for plaintext/TLVs/rotation) checkMessageCounter; checkSign itself rejects exactly when the constant-time comparison of the whole stored authenticator with HMAC(key; header ‖ exact unsigned bytes) is 0; key lookup accepts exactly id and id-1. Not decided: HMAC/AES strength, byte-identity with what the peer sent.",
		func(a *An) {
			auth, counter := a.dataAuthFacts()
			full := append(append([]string{}, auth...), counter)
			R := a.R

			// G: sinks, wherever they are
			for _, name := range []string{"(*Conversation).processTLVs", "(*Conversation).rotateKeys", "(*plainDataMsg).decrypt"} {
				fn := a.MustFn(name)
				cnt := map[string]int{}
				for _, cs := range a.CallSites(fn) {
					k := ordinalKey(a.C.Name(cs.Parent())+"|call "+name, cnt)
					a.Gate("G.data-sink", k, cs, "call of "+name, full...)
				}
			}
			R.Floor("G.data-sink", 3*len(full))

			// TLV handlers: reachable only behind the gate (entry facts of the handler functions)
			for _, name := range []string{"(*Conversation).processSMPTLV", "(*Conversation).processDisconnectedTLV", "(*Conversation).processExtraSymmetricKeyTLV", "(*Conversation).receiveSMP", "messageHandlerForTLV"} {
				fn := a.MustFn(name)
				if fn == nil {
					continue
				}
				first := fn.Blocks[0].Instrs[0]
				a.Gate("G.tlv-handler", name+"|entry", first, "entry of "+name, full...)
			}
			R.Floor("G.tlv-handler", 5*len(full))
			a.WhoMayCall("W.tlv-dispatch", a.MustFn("messageHandlerForTLV"), "(*Conversation).processTLVs")

			// plaintext returned by the data path
			if fn := a.MustFn("(*Conversation).processDataMessageWithRawErrors"); fn != nil {
				cnt := map[string]int{}
				for _, b := range fn.Blocks {
					ret, ok := b.Instrs[len(b.Instrs)-1].(*ssa.Return)
					if !ok || len(ret.Results) < 1 || isNilConst(ret.Results[0]) {
						continue
					}
					a.Gate("G.plain-return", ordinalKey("processDataMessageWithRawErrors|return plain", cnt), ret, "return of a possibly non-nil plaintext", full...)
				}
				R.Floor("G.plain-return", len(full))
			}

			a.counterStoreGate("G.counter-store", auth)

			a.keyMaterialGate("G.key-material", a.MustFn("(*Conversation).processDataMessageWithRawErrors"), full)
			a.unsignedCacheWriters("W.unsigned-cache")
			a.plaintextFlagTable("P.unencrypted-flag")
			a.tlvLoopComplete("S.tlv-loop")
			a.checkSignPolarity()
			a.pickKeysTable()
			a.headerIsReceived("L.header-raw")
			a.eventsDelivered("P.events-delivered")
			a.plaintextProducers("P.unencrypted-flag")
			a.textIdentity("K.text-identity")
			a.sentTextIdentity("K.text-identity")
			// "the authenticated peer": the keys messages are checked with are installed only by a verified exchange
			a.c01Gates()
			a.resendKeepsCopy("S.plaintext-retention")
			a.c09Forget()
		})
}

// P: dataMsg.checkSign compares the whole authenticator with HMAC(key; header ‖ unsigned) and rejects on 0.
func (a *An) checkSignPolarity() {
	fn := a.MustFn("(dataMsg).checkSign")
	if fn == nil {
		return
	}
	R := a.R
	var cmp *ssa.Call
	for _, b := range fn.Blocks {
		for _, in := range b.Instrs {
			if c, ok := in.(*ssa.Call); ok && a.F.callName(c) == "crypto/subtle.ConstantTimeCompare" {
				if cmp != nil {
					R.Undec("P.checkSign", "checkSign|compare", "exactly one constant-time comparison", a.C.InstrPos(c), "more than one comparison found")
					return
				}
				cmp = c
			}
		}
	}
	if cmp == nil {
		R.Viol("P.checkSign", "checkSign|compare", "authenticator compared with crypto/subtle.ConstantTimeCompare", a.C.Pos(fn.Pos()), "no constant-time comparison in checkSign")
		return
	}
	R.Ok("P.checkSign", "checkSign|compare", "authenticator compared with crypto/subtle.ConstantTimeCompare", a.C.InstrPos(cmp))
	// operands: the stored authenticator (whole) and Sum of an HMAC
	var macSum *ssa.Call
	var stored ssa.Value
	for _, arg := range cmp.Call.Args {
		if c, ok := arg.(*ssa.Call); ok && c.Call.IsInvoke() && c.Call.Method.Name() == "Sum" {
			macSum = c
		} else {
			stored = arg
		}
	}
	if macSum == nil || stored == nil {
		R.Viol("P.checkSign", "checkSign|operands", "operands are the stored authenticator and mac.Sum(nil)", a.C.InstrPos(cmp), "operands: "+a.C.Term(cmp.Call.Args[0])+" , "+a.C.Term(cmp.Call.Args[1]))
		return
	}
	R.Check(a.C.Term(stored) == "dataMsg.authenticator", "P.checkSign", "checkSign|stored-operand", "compared value is the whole stored authenticator", a.C.InstrPos(cmp), "compared value is "+a.C.Term(stored))
	a.checkHMACStream("P.checkSign", "checkSign", fn, macSum, "(otrVersion).hashInstance", "$key", []string{"$header", "dataMsg.serializeUnsignedCache"})

	// polarity: every return that may report success passed "compare != 0"
	cmpT := a.C.Term(cmp)
	want := []string{"passed:(" + cmpT + " != 0)", "passed:(" + cmpT + " == 1)"}
	for _, b := range fn.Blocks {
		ret, ok := b.Instrs[len(b.Instrs)-1].(*ssa.Return)
		if !ok {
			continue
		}
		if a.F.provablyNonNil(ret.Results[0]) {
			continue
		}
		fs := a.F.LocalAt(ret)
		R.Check(fs.Has(want[0]) || fs.Has(want[1]), "P.checkSign", "checkSign|polarity", "a return that may report success is reached only when the comparison result is non-zero", a.C.InstrPos(ret),
			"success return reachable with comparison result 0 (facts: "+strings.Join(fs.List(), "; ")+")")
	}
	// the unsigned bytes are exactly the parsed prefix of the input
	if du := a.MustFn("(*dataMsg).deserializeUnsigned"); du != nil {
		fld := a.MustField("dataMsg", "serializeUnsignedCache")
		n := 0
		for _, st := range a.DirectStoresTo(fld) {
			if !a.C.within(st, du) {
				continue
			}
			n++
			t := a.C.Term(st.Val)
			okT := strings.HasPrefix(t, "$msg[:(len($msg) - len(") && strings.HasSuffix(t, "))]")
			R.Check(okT, "V.unsigned-range", "deserializeUnsigned|cache", "MAC'd bytes = msg[:len(msg)-len(rest)] of the parsed input", a.C.InstrPos(st), "stored value is "+t)
		}
		if n == 0 {
			R.Viol("V.unsigned-range", "deserializeUnsigned|cache", "deserializeUnsigned records the exact unsigned bytes", a.C.Pos(du.Pos()), "no store to serializeUnsignedCache")
		}
	}
}

// checkHMACStream: sum is mac.Sum(nil); mac = hmac.New(hashCtor, key); Writes on mac in dominance order = want.
func (a *An) checkHMACStream(rule, key string, fn *ssa.Function, sum *ssa.Call, hashCtor, keyTerm string, want []string) {
	R := a.R
	mac := sum.Call.Value
	newCall, ok := mac.(*ssa.Call)
	if !ok || a.F.callName(newCall) != "crypto/hmac.New" {
		R.Viol(rule, key+"|hmac", "MAC is computed with crypto/hmac.New", a.C.InstrPos(sum), "MAC object is "+a.C.Term(mac))
		return
	}
	ctor := a.C.Term(newCall.Call.Args[0])
	R.Check(strings.Contains(ctor, hashCtor), rule, key+"|hash", "hash constructor is "+hashCtor, a.C.InstrPos(newCall), "constructor is "+ctor)
	R.Check(a.C.Term(newCall.Call.Args[1]) == keyTerm, rule, key+"|key", "MAC key is "+keyTerm, a.C.InstrPos(newCall), "key is "+a.C.Term(newCall.Call.Args[1]))
	var writes []*ssa.Call
	for _, ref := range *newCall.Referrers() {
		if c, ok := ref.(*ssa.Call); ok && c.Call.IsInvoke() && c.Call.Value == ssa.Value(newCall) && c.Call.Method.Name() == "Write" {
			writes = append(writes, c)
		}
	}
	// order by dominance
	for i := 0; i < len(writes); i++ {
		for j := i + 1; j < len(writes); j++ {
			if instrDominates(writes[j], writes[i]) {
				writes[i], writes[j] = writes[j], writes[i]
			}
		}
	}
	var got []string
	for i, w := range writes {
		got = append(got, a.C.Term(w.Call.Args[0]))
		if i > 0 && !instrDominates(writes[i-1], w) {
			R.Undec(rule, key+"|stream", "MAC input is a fixed sequence of writes", a.C.InstrPos(w), "writes are not totally ordered by dominance")
			return
		}
		if !instrDominates(w, sum) {
			R.Viol(rule, key+"|stream", "every write precedes Sum", a.C.InstrPos(w), "a write does not dominate Sum")
			return
		}
	}
	R.Check(strings.Join(got, " ‖ ") == strings.Join(want, " ‖ "), rule, key+"|stream", "MAC input is "+strings.Join(want, " ‖ "), a.C.InstrPos(sum), "MAC input is "+strings.Join(got, " ‖ "))
}

// instrDominates: x is executed before y on every path to y. Instructions of different functions are related only
// through a new single-use helper (terms.go): y inside a helper of x's function is dominated by x when the helper's
// call is; x inside a helper dominates y in the calling function when the call dominates y and x is on every path
// through the helper.
func instrDominates(x, y ssa.Instruction) bool {
	if x.Parent() != y.Parent() {
		if theCtx == nil {
			return false
		}
		if cs := theCtx.soleCall(y.Parent()); cs != nil {
			if cs == x {
				return false
			}
			return instrDominates(x, cs)
		}
		if cs := theCtx.soleCall(x.Parent()); cs != nil {
			if !instrDominates(cs, y) && ssa.Instruction(cs) != y {
				return false
			}
			// when y is reached only if the helper reported success (the caller tests the helper's error result and y
			// sits behind the success side), only the helper's returns that can report success count
			okIdx := successOnlyIndex(cs, y)
			for _, b := range x.Parent().Blocks {
				if r, ok := b.Instrs[len(b.Instrs)-1].(*ssa.Return); ok && len(b.Preds)+boolInt(b == x.Parent().Blocks[0]) > 0 {
					if okIdx >= 0 && okIdx < len(r.Results) && returnsKnownError(r, okIdx) {
						continue
					}
					if !instrDominates(x, r) {
						return false
					}
				}
			}
			return true
		}
		return false
	}
	if x.Block() == y.Block() {
		return instrIndex(x) < instrIndex(y)
	}
	return x.Block().Dominates(y.Block())
}

func boolInt(b bool) int {
	if b {
		return 1
	}
	return 0
}

// pickOurKeys / pickTheirKey: accepted ids are exactly current and current-1; zero rejected.
func (a *An) pickKeysTable() {
	type spec struct {
		fn, arg, cur, curKeyA, prevKeyA string
	}
	for _, s := range []spec{
		{"(*keyManagementContext).pickOurKeys", "$ourKeyID", "keyManagementContext.ourKeyID", "keyManagementContext.ourCurrentDHKeys.", "keyManagementContext.ourPreviousDHKeys."},
		{"(*keyManagementContext).pickTheirKey", "$theirKeyID", "keyManagementContext.theirKeyID", "keyManagementContext.theirCurrentDHPubKey", "keyManagementContext.theirPreviousDHPubKey"},
	} {
		fn := a.MustFn(s.fn)
		if fn == nil {
			continue
		}
		eqCur := "(" + s.arg + " == " + s.cur + ")"
		eqPrev := "(" + s.arg + " == (" + s.cur + " - 1))"
		argZero := "(" + s.arg + " == 0)"
		curZero := "(" + s.cur + " == 0)"
		cases := []struct {
			name   string
			assume map[string]bool
			accept bool
			keys   string
		}{
			{"id=0", map[string]bool{argZero: true}, false, ""},
			{"current=0", map[string]bool{argZero: false, curZero: true}, false, ""},
			{"id=current", map[string]bool{argZero: false, curZero: false, eqCur: true}, true, s.curKeyA},
			{"id=current-1", map[string]bool{argZero: false, curZero: false, eqCur: false, eqPrev: true}, true, s.prevKeyA},
			{"other", map[string]bool{argZero: false, curZero: false, eqCur: false, eqPrev: false}, false, ""},
		}
		for _, cs := range cases {
			oracle := func(p *Path, cond ssa.Value) Tri {
				t := a.C.condTerm(p, cond, true)
				if v, ok := cs.assume[t]; ok {
					return triOf(v)
				}
				return Unknown
			}
			paths, complete := a.C.Paths(fn, oracle, 256)
			key := s.fn + "|" + cs.name
			if !complete || len(paths) == 0 {
				a.R.Undec("P.key-id-table", key, "enumerate paths", a.C.Pos(fn.Pos()), "path enumeration incomplete")
				continue
			}
			ok := true
			detail := ""
			for _, p := range paths {
				if p.Ret == nil {
					continue
				}
				si := statusIndex(fn.Signature)
				tri := a.F.ErrTri(p, p.Ret.Results[si])
				if cs.accept {
					// may only fail for the documented "no previous key" reason; must return the right generation
					if tri == True {
						for i, rv := range p.Ret.Results {
							if i == si {
								continue
							}
							t := a.C.Term(p.Resolve(rv))
							if !strings.HasPrefix(t, cs.keys) {
								ok = false
								detail = "accepting path returns " + t + " instead of " + cs.keys + "*"
							}
						}
					}
				} else if tri != False {
					ok = false
					detail = "a path accepts (or may accept) the id; decisions: " + decisionsStr(p)
				}
			}
			if cs.accept {
				// at least one accepting path must exist
				any := false
				for _, p := range paths {
					if p.Ret != nil && a.F.ErrTri(p, p.Ret.Results[statusIndex(fn.Signature)]) == True {
						any = true
					}
				}
				if !any {
					ok = false
					detail = "no accepting path for a valid id"
				}
			}
			a.R.Check(ok, "P.key-id-table", key, "key lookup outcome for case "+cs.name+" (accept="+boolStr(cs.accept)+")", a.C.Pos(fn.Pos()), detail)
		}
	}
	a.R.Floor("P.key-id-table", 10)
}

func boolStr(b bool) string {
	if b {
		return "true"
	}
	return "false"
}

func decisionsStr(p *Path) string {
	var s []string
	for _, d := range p.Decisions {
		s = append(s, d.Term)
	}
	return strings.Join(s, " ∧ ")
}

// counterStoreGate: the peer's counter is stored only behind the authenticity gate (D02 when violated).
func (a *An) counterStoreGate(rule string, auth []string) {
	if fld := a.MustField("keyPairCounter", "theirCounter"); fld != nil {
		cnt := map[string]int{}
		for _, st := range a.DirectStoresTo(fld) {
			fn := a.C.Name(a.C.owner(st.Parent()))
			if strings.HasSuffix(fn, ".wipe") {
				continue
			}
			a.Gate(rule, ordinalKey(fn+"|store theirCounter", cnt), st, "store of the peer's counter", auth...)
		}
		a.R.Floor(rule, len(auth))
	}
}

// effectGate: inside fn, every instruction that writes key material of the session is behind the gate.
func (a *An) keyMaterialGate(rule string, fn *ssa.Function, required []string) {
	if fn == nil {
		return
	}
	prot := []string{"Conversation.keys.ourKeyID", "Conversation.keys.theirKeyID", "Conversation.keys.ourCurrentDHKeys", "Conversation.keys.ourPreviousDHKeys",
		"Conversation.keys.theirCurrentDHPubKey", "Conversation.keys.theirPreviousDHPubKey", "Conversation.keys.oldMACKeys", "Conversation.msgState", "Conversation.smp", "Conversation.ake", "Conversation.keys"}
	cnt := map[string]int{}
	n := 0
	for _, b := range fn.Blocks {
		for _, in := range b.Instrs {
			hit := ""
			for _, ef := range a.E.InstrEffects(in) {
				abs := a.C.abs(fn, ef.Path)
				for _, p := range prot {
					if abs == p || strings.HasPrefix(abs, p+".") || strings.HasPrefix(abs, p+"[") {
						if p == "Conversation.keys" && abs != p {
							continue
						}
						hit = p
					}
				}
			}
			if hit == "" {
				continue
			}
			n++
			what := "write to " + hit
			desc := "store"
			if call, ok := in.(ssa.CallInstruction); ok {
				desc = "call " + a.F.callName(call)
			}
			a.Gate(rule, ordinalKey(a.C.Name(fn)+"|"+desc+"|"+hit, cnt), in, what+" while processing a data message", required...)
		}
	}
	a.R.Check(n >= 2, rule, a.C.Name(fn)+"|sites", "key-material writes found on the data path", a.C.Pos(fn.Pos()), fmt.Sprintf("%d", n))
}

// unsignedCacheWriters: on the receiving side the MAC'd bytes are only ever the received prefix.
func (a *An) unsignedCacheWriters(rule string) {
	fld := a.MustField("dataMsg", "serializeUnsignedCache")
	if fld == nil {
		return
	}
	for _, st := range a.DirectStoresTo(fld) {
		fn := a.C.Name(a.C.owner(st.Parent()))
		t := a.C.Term(st.Val)
		switch {
		case strings.Contains(fn, "deserialize"):
			okT := strings.HasPrefix(t, "$msg[:(len($msg) - len(") && strings.HasSuffix(t, "))]")
			a.R.Check(okT, rule, fn+"|cache", "a parser records exactly the received bytes msg[:len(msg)-len(rest)] as the MAC input", a.C.InstrPos(st), "stores "+t)
		case fn == "(*dataMsg).sign" || fn == "(dataMsg).serialize":
			a.R.Check(strings.Contains(t, "serializeUnsigned("), rule, fn+"|cache", "the sender caches its own serialisation", a.C.InstrPos(st), "stores "+t)
		default:
			a.R.Viol(rule, fn+"|cache", "the cached unsigned bytes are written only by the parser and the signer", a.C.InstrPos(st), fn+" stores "+t)
		}
	}
}

// plaintextFlagTable: text received unencrypted is flagged whenever the conversation is not in plaintext
// state or encryption is required, whatever the whitespace-tag state.
func (a *An) plaintextFlagTable(rule string) {
	fn := a.MustFn("(*Conversation).checkPlaintextPolicies")
	if fn == nil {
		return
	}
	req := a.MustConst("requireEncryption")
	ev := a.MustConst("MessageEventReceivedMessageUnencrypted")
	for ws := int64(0); ws < 3; ws++ {
		for ms := int64(0); ms < 3; ms++ {
			for _, r := range []bool{false, true} {
				want := ms != 0 || r
				bools := map[string]bool{"(*policies).has(&Conversation.Policies, " + req + ")": r}
				paths, complete := a.C.Paths(fn, a.C.valOracle(valCase{"Conversation.whitespaceState": ws, "Conversation.msgState": ms}, bools), 64)
				key := fmt.Sprintf("checkPlaintextPolicies|whitespaceState=%d,msgState=%d,requireEncryption=%v", ws, ms, r)
				if !complete || len(paths) == 0 {
					a.R.Undec(rule, key, "enumerate paths", a.C.Pos(fn.Pos()), "incomplete")
					continue
				}
				ok, detail := true, ""
				for _, p := range paths {
					flagged := false
					for _, in := range p.Instrs {
						if call, isCall := in.(*ssa.Call); isCall && a.F.callName(call) == "(*Conversation).messageEventWithMessage" {
							if a.C.Term(call.Call.Args[1]) == ev && a.C.Term(call.Call.Args[2]) == "$plain" {
								flagged = true
							}
						}
					}
					if flagged != want {
						ok, detail = false, fmt.Sprintf("flagged=%v, specified %v (decisions %s)", flagged, want, decisionsStr(p))
					}
				}
				a.R.Check(ok, rule, key, fmt.Sprintf("received-unencrypted event raised = %v", want), a.C.Pos(fn.Pos()), detail)
			}
		}
	}
	a.R.Floor(rule, 18)
	for _, name := range []string{"(*Conversation).receivePlaintext", "(*Conversation).receiveTaggedPlaintext"} {
		f := a.MustFn(name)
		if c := a.uniqueCall(rule, f, "(*Conversation).checkPlaintextPolicies"); c != nil {
			for _, r := range a.returnsOf(f) {
				a.R.Check(instrDominates(c, r), rule, name+"|flag-before-return", "every return of unencrypted text passes the policy check", a.C.InstrPos(r), "a return is not dominated by checkPlaintextPolicies")
				same := a.C.Term(r.Results[0]) == a.C.Term(c.Call.Args[1])
				a.R.Check(same, rule, name+"|flag-same-text", "the text that is flagged is the text that is returned", a.C.InstrPos(r), "returns "+a.C.Term(r.Results[0])+", flags "+a.C.Term(c.Call.Args[1]))
			}
		}
	}
}

// tlvLoopComplete: processTLVs handles every TLV of an authenticated message: the loop over the TLVs is
// left only when the range is exhausted or a handler reported an error.
func (a *An) tlvLoopComplete(rule string) {
	fn := a.MustFn("(*Conversation).processTLVs")
	if fn == nil {
		return
	}
	loops := naturalLoops(fn)
	var dyn ssa.CallInstruction
	for _, b := range fn.Blocks {
		for _, in := range b.Instrs {
			if call, ok := in.(*ssa.Call); ok && a.F.callName(call) == "dyn" {
				dyn = call
			}
		}
	}
	if dyn == nil || len(loops) == 0 {
		a.R.Viol(rule, "processTLVs|loop", "processTLVs dispatches each TLV to its handler inside a loop", a.C.Pos(fn.Pos()), "handler dispatch or loop not found")
		return
	}
	l := loopContaining(loops, dyn)
	if l == nil {
		a.R.Viol(rule, "processTLVs|loop", "the handler dispatch is inside the loop over the TLVs", a.C.InstrPos(dyn), "dispatch outside any loop")
		return
	}
	n := 0
	for _, ex := range l.Exits() {
		n++
		ok := false
		why := ""
		if ex.From == l.Header {
			ok = true // range exhausted
		} else if ret, isRet := ex.To.Instrs[len(ex.To.Instrs)-1].(*ssa.Return); isRet && len(ex.To.Instrs) <= 2 {
			ev := ret.Results[1]
			if sc := statusCall(ev); sc != nil && ssa.Instruction(sc) == dyn.(ssa.Instruction) && a.F.LocalAt(ret).Has("@fail:"+instKey(sc)) {
				ok = true // a handler failed: the rest of the block is considered corrupt
			} else {
				why = "returns " + a.C.Term(ev)
			}
		} else {
			why = "leaves the loop from block " + ex.From.Comment
		}
		a.R.Check(ok, rule, "processTLVs|exit#"+string(rune('0'+n)), "the TLV loop ends only when all TLVs were handled or a handler failed", a.C.InstrPos(ex.From.Instrs[len(ex.From.Instrs)-1]),
			"the loop over the TLVs of a message can be left early ("+why+"): TLVs after that point (e.g. a disconnect) are never acted upon")
	}
	// every TLV reaches its handler: an iteration goes back to the loop head only after the dispatch, or because no
	// handler exists for the type (no TLV kind is skipped for another reason, a per-version ceiling say)
	for _, pb := range l.Header.Preds {
		if !l.Body[pb] {
			continue
		}
		last := pb.Instrs[len(pb.Instrs)-1]
		fs := a.F.edgeOut(pb, l.Header)
		okSkip := fs.Has("called:dyn") || fs.Has("fail:messageHandlerForTLV") || instrDominates(dyn, last)
		a.R.Check(okSkip, rule, "processTLVs|no-skip@"+pb.Comment, "an iteration ends after the handler ran or because the type has no handler", a.C.InstrPos(last),
			"the loop continues with the next TLV without having dispatched this one and without a failed handler lookup: TLVs of some kind are silently dropped")
	}
	// the TLVs are handled in the order in which they stand in the message: the loop runs over the parameter itself,
	// indexed by the loop counter (an abort in front of a new first message must be seen first)
	inOrder := false
	what := ""
	for _, b := range fn.Blocks {
		if !l.Body[b] {
			continue
		}
		for _, in := range b.Instrs {
			ia, ok := in.(*ssa.IndexAddr)
			if !ok {
				continue
			}
			what = a.C.Term(ia.X)
			if p, isP := ia.X.(*ssa.Parameter); isP && paramIndex(p) == 1 {
				if bo, isBO := ia.Index.(*ssa.BinOp); isBO && bo.Op == token.ADD {
					if _, isPhi := bo.X.(*ssa.Phi); isPhi && a.C.Term(bo.Y) == "1" {
						inOrder = true
					}
				}
			}
		}
	}
	a.R.Check(inOrder, rule, "processTLVs|wire-order", "the loop takes the TLVs from the message's own list, first to last", a.C.Pos(fn.Pos()), "the loop ranges over "+what)
	a.R.Floor(rule, 3)
}

// headerIsReceived: the header bytes that enter the MAC are the received bytes themselves: each version's
// parseMessageHeader returns, on success, a prefix slice msg[:n] of its input (not a rebuilt header), and the value
// travels unchanged from there to checkSign.
func (a *An) headerIsReceived(rule string) {
	R := a.R
	sliceOfParam := func(v ssa.Value, f *ssa.Function) (bool, string) {
		sl, ok := v.(*ssa.Slice)
		if !ok {
			return false, a.C.Term(v)
		}
		p, isP := sl.X.(*ssa.Parameter)
		if !isP || sl.Low != nil && !isZeroConst(sl.Low) {
			return false, a.C.Term(v)
		}
		if t, isS := p.Type().Underlying().(*types.Slice); !isS || t.Elem().String() != "byte" && t.Elem().String() != "uint8" {
			return false, a.C.Term(v)
		}
		return true, a.C.Term(v)
	}
	n := 0
	for _, name := range []string{"(otrV2).parseMessageHeader", "(otrV3).parseMessageHeader"} {
		f := a.MustFn(name)
		if f == nil {
			continue
		}
		for _, r := range a.returnsOf(f) {
			if len(r.Results) != 3 || !isNilConst(r.Results[2]) {
				continue
			}
			n++
			ok, t := sliceOfParam(r.Results[0], f)
			R.Check(ok, rule, name+"|header", "the header handed on is a prefix slice of the received message", a.C.InstrPos(r), "it is "+t+": the MAC is then computed over bytes the receiver built itself, so changes to the received header go unnoticed")
		}
	}
	R.Check(n >= 2, rule, "parseMessageHeader|returns", "success returns of both header parsers found", "", fmt.Sprintf("%d", n))
	// hops: the first result / the header parameter is passed on as it is
	passes := func(fname, callee string, argIdx int, from func(v ssa.Value, f *ssa.Function) bool, what string) {
		f := a.MustFn(fname)
		if f == nil {
			return
		}
		cs := a.CallsIn(f, callee)
		R.Check(len(cs) >= 1, rule, fname+"|calls|"+callee, fname+" calls "+callee, a.C.Pos(f.Pos()), "no call")
		for _, c := range cs {
			args := c.Common().Args
			if argIdx >= len(args) {
				continue
			}
			v := a.C.resolveParam(resolveLocal(args[argIdx]))
			R.Check(from(v, f), rule, fname+"|"+callee+"|header", what, a.C.InstrPos(c), "passes "+a.C.Term(args[argIdx]))
		}
	}
	isParam := func(i int) func(v ssa.Value, f *ssa.Function) bool {
		return func(v ssa.Value, f *ssa.Function) bool {
			p, ok := v.(*ssa.Parameter)
			return ok && paramIndex(p) == i
		}
	}
	firstResultOf := func(callee string) func(v ssa.Value, f *ssa.Function) bool {
		return func(v ssa.Value, f *ssa.Function) bool {
			ex, ok := v.(*ssa.Extract)
			if !ok || ex.Index != 0 {
				return false
			}
			c, isC := ex.Tuple.(*ssa.Call)
			return isC && a.F.callName(c) == callee
		}
	}
	passes("(*Conversation).receiveDecoded", "(*Conversation).receiveDataMessage", 1, firstResultOf("(*Conversation).parseMessageHeader"), "the header handed to the data-message handler is the one parseMessageHeader returned")
	passes("(*Conversation).receiveDataMessage", "(*Conversation).processDataMessage", 1, isParam(1), "header passed on unchanged")
	passes("(*Conversation).processDataMessage", "(*Conversation).processDataMessageWithRawErrors", 1, isParam(1), "header passed on unchanged")
	passes("(*Conversation).processDataMessageWithRawErrors", "(dataMsg).checkSign", 2, isParam(1), "the MAC check gets the received header")
	if f := a.MustFn("(*Conversation).parseMessageHeader"); f != nil {
		for _, r := range a.returnsOf(f) {
			ex, ok := r.Results[0].(*ssa.Extract)
			good := false
			if ok && ex.Index == 0 {
				if c, isC := ex.Tuple.(*ssa.Call); isC && len(c.Call.Args) >= 2 {
					last := c.Call.Args[len(c.Call.Args)-1]
					if ct, isCT := last.(*ssa.ChangeType); isCT {
						last = ct.X
					}
					if p, isP := last.(*ssa.Parameter); isP && paramIndex(p) == 1 {
						good = true
					}
				}
			}
			R.Check(good, rule, "(*Conversation).parseMessageHeader|delegates", "the version's parser is applied to the received message and its header result returned as it is", a.C.InstrPos(r), "returns "+a.C.Term(r.Results[0]))
		}
	}
	R.Floor(rule, 9)
}

func isZeroConst(v ssa.Value) bool {
	k, ok := v.(*ssa.Const)
	return ok && k.Value != nil && k.Value.String() == "0"
}

// eventsDelivered: an event raised inside the library reaches the user's handler whenever a handler is installed: the
// three delivery functions call it under the handler != nil test and under no other condition, with the event and
// the payload they were given.
func (a *An) eventsDelivered(rule string) {
	R := a.R
	for _, spec := range []struct{ fn, handler, method string }{
		{"(*Conversation).messageEvent", "messageEventHandler", "HandleMessageEvent"},
		{"(*Conversation).messageEventWithError", "messageEventHandler", "HandleMessageEvent"},
		{"(*Conversation).messageEventWithMessage", "messageEventHandler", "HandleMessageEvent"},
		{"(*Conversation).securityEvent", "securityEventHandler", "HandleSecurityEvent"},
		{"(*Conversation).smpEvent", "smpEventHandler", "HandleSMPEvent"},
	} {
		f := a.MustFn(spec.fn)
		if f == nil {
			continue
		}
		var inv ssa.CallInstruction
		n := 0
		for _, g := range a.ownedFns(f) {
			for _, b := range g.Blocks {
				for _, in := range b.Instrs {
					if call, ok := in.(ssa.CallInstruction); ok && call.Common().IsInvoke() && call.Common().Method.Name() == spec.method {
						inv = call
						n++
					}
				}
			}
		}
		if n != 1 {
			R.Viol(rule, spec.fn+"|delivers", "the delivery function calls the handler in one place", a.C.Pos(f.Pos()), fmt.Sprintf("%d calls of %s", n, spec.method))
			continue
		}
		var extra []string
		for _, fact := range a.F.LocalAt(inv).List() {
			if !strings.HasPrefix(fact, "passed:") {
				continue
			}
			if fact == "passed:(Conversation."+spec.handler+" != nil)" {
				continue
			}
			extra = append(extra, fact)
		}
		R.Check(len(extra) == 0, rule, spec.fn+"|unconditional", "the handler is called whenever one is installed", a.C.InstrPos(inv),
			"the call also depends on "+strings.Join(extra, "; ")+": some events (a received-unencrypted warning, say) are silently not reported")
		// the event handed on is the event given
		args := inv.Common().Args
		if len(args) > 0 {
			p, isP := a.C.resolveParam(args[0]).(*ssa.Parameter)
			R.Check(isP && paramIndex(p) == 1, rule, spec.fn+"|event", "the event passed to the handler is the event raised", a.C.InstrPos(inv), "passes "+a.C.Term(args[0]))
		}
	}
	R.Floor(rule, 8)
}

// successOnlyIndex: the index of the error result of call cs that the caller tests for nil such that y lies behind the
// success side of the test (-1: no such test).
func successOnlyIndex(cs ssa.CallInstruction, y ssa.Instruction) int {
	v := cs.Value()
	if v == nil || v.Referrers() == nil {
		return -1
	}
	type cand struct {
		val ssa.Value
		idx int
	}
	var cands []cand
	if v.Type().String() == "error" {
		cands = append(cands, cand{v, 0})
	}
	for _, ref := range *v.Referrers() {
		if ex, ok := ref.(*ssa.Extract); ok && ex.Type().String() == "error" {
			cands = append(cands, cand{ex, ex.Index})
		}
	}
	for _, c := range cands {
		if c.val.Referrers() == nil {
			continue
		}
		for _, ref := range *c.val.Referrers() {
			bo, ok := ref.(*ssa.BinOp)
			if !ok || (bo.Op != token.NEQ && bo.Op != token.EQL) || bo.Referrers() == nil {
				continue
			}
			if !(isNilConst(bo.Y) && bo.X == c.val || isNilConst(bo.X) && bo.Y == c.val) {
				continue
			}
			for _, r2 := range *bo.Referrers() {
				iff, isIf := r2.(*ssa.If)
				if !isIf || len(iff.Block().Succs) != 2 {
					continue
				}
				succ := iff.Block().Succs[1] // NEQ: the else side is success
				if bo.Op == token.EQL {
					succ = iff.Block().Succs[0]
				}
				if len(succ.Preds) == 1 && (succ == y.Block() || succ.Dominates(y.Block())) {
					return c.idx
				}
			}
		}
	}
	return -1
}

// returnsKnownError: the return hands back, at index k, a value known to be a non-nil error there: it sits behind the
// non-nil side of a nil test of that very value.
func returnsKnownError(r *ssa.Return, k int) bool {
	v := resolveLocal(r.Results[k])
	if isNilConst(v) || v.Referrers() == nil {
		return false
	}
	for _, ref := range *v.Referrers() {
		bo, ok := ref.(*ssa.BinOp)
		if !ok || (bo.Op != token.NEQ && bo.Op != token.EQL) || bo.Referrers() == nil {
			continue
		}
		if !(isNilConst(bo.Y) && bo.X == v || isNilConst(bo.X) && bo.Y == v) {
			continue
		}
		for _, r2 := range *bo.Referrers() {
			iff, isIf := r2.(*ssa.If)
			if !isIf || len(iff.Block().Succs) != 2 {
				continue
			}
			succ := iff.Block().Succs[0]
			if bo.Op == token.EQL {
				succ = iff.Block().Succs[1]
			}
			if len(succ.Preds) == 1 && (succ == r.Block() || succ.Dominates(r.Block())) {
				return true
			}
		}
	}
	return false
}
