package main

import (
	"strings"

	"golang.org/x/tools/go/ssa"
)

// shared with C05/C06/C19: the facts that mean "this data message is authentic".
func (a *An) dataAuthFacts() (auth []string, counter string) {
	enc := a.MustConst("encrypted")
	auth = []string{
		"passed:(Conversation.msgState == " + enc + ")",
		"ok:(*dataMsg).deserialize",
		"ok:(*keyManagementContext).pickOurKeys",
		"ok:(*keyManagementContext).pickTheirKey",
		"ok:(dataMsg).checkSign",
	}
	return auth, "ok:(*keyManagementContext).checkMessageCounter"
}

func init() {
	register("C02", "Structural clause decided: every sink of an incoming data message (plaintext handed back, TLV handling, key rotation, counter store, SMP/disconnect/extra-key handlers) is reached only on paths that passed, in this call, the success edges of: msgState==encrypted, dataMsg.deserialize, pickOurKeys, pickTheirKey (current or previous id only), dataMsg.checkSign and (for plaintext/TLVs/rotation) checkMessageCounter; checkSign itself rejects exactly when the constant-time comparison of the whole stored authenticator with HMAC(key; header ‖ exact unsigned bytes) is 0; key lookup accepts exactly id and id-1. Not decided: HMAC/AES strength, byte-identity with what the peer sent.",
		func(a *An) {
			auth, counter := a.dataAuthFacts()
			full := append(append([]string{}, auth...), counter)
			R := a.R

			// G: sinks, wherever they are
			for _, name := range []string{"(*Conversation).processTLVs", "(*Conversation).rotateKeys", "(*plainDataMsg).decrypt"} {
				fn := a.MustFn(name)
				cnt := map[string]int{}
				for _, cs := range a.CallSites(fn) {
					k := ordinalKey(a.C.Name(cs.Parent())+"|call "+name, cnt)
					a.Gate("G.data-sink", k, cs, "call of "+name, full...)
				}
			}
			R.Floor("G.data-sink", 3*len(full))

			// TLV handlers: reachable only behind the gate (entry facts of the handler functions)
			for _, name := range []string{"(*Conversation).processSMPTLV", "(*Conversation).processDisconnectedTLV", "(*Conversation).processExtraSymmetricKeyTLV", "(*Conversation).receiveSMP", "messageHandlerForTLV"} {
				fn := a.MustFn(name)
				if fn == nil {
					continue
				}
				first := fn.Blocks[0].Instrs[0]
				a.Gate("G.tlv-handler", name+"|entry", first, "entry of "+name, full...)
			}
			R.Floor("G.tlv-handler", 5*len(full))
			a.WhoMayCall("W.tlv-dispatch", a.MustFn("messageHandlerForTLV"), "(*Conversation).processTLVs")

			// plaintext returned by the data path
			if fn := a.MustFn("(*Conversation).processDataMessageWithRawErrors"); fn != nil {
				cnt := map[string]int{}
				for _, b := range fn.Blocks {
					ret, ok := b.Instrs[len(b.Instrs)-1].(*ssa.Return)
					if !ok || len(ret.Results) < 1 || isNilConst(ret.Results[0]) {
						continue
					}
					a.Gate("G.plain-return", ordinalKey("processDataMessageWithRawErrors|return plain", cnt), ret, "return of a possibly non-nil plaintext", full...)
				}
				R.Floor("G.plain-return", len(full))
			}

			a.counterStoreGate("G.counter-store", auth)

			a.checkSignPolarity()
			a.pickKeysTable()
		})
}

// P: dataMsg.checkSign compares the whole authenticator with HMAC(key; header ‖ unsigned) and rejects on 0.
func (a *An) checkSignPolarity() {
	fn := a.MustFn("(dataMsg).checkSign")
	if fn == nil {
		return
	}
	R := a.R
	var cmp *ssa.Call
	for _, b := range fn.Blocks {
		for _, in := range b.Instrs {
			if c, ok := in.(*ssa.Call); ok && a.F.callName(c) == "crypto/subtle.ConstantTimeCompare" {
				if cmp != nil {
					R.Undec("P.checkSign", "checkSign|compare", "exactly one constant-time comparison", a.C.InstrPos(c), "more than one comparison found")
					return
				}
				cmp = c
			}
		}
	}
	if cmp == nil {
		R.Viol("P.checkSign", "checkSign|compare", "authenticator compared with crypto/subtle.ConstantTimeCompare", a.C.Pos(fn.Pos()), "no constant-time comparison in checkSign")
		return
	}
	R.Ok("P.checkSign", "checkSign|compare", "authenticator compared with crypto/subtle.ConstantTimeCompare", a.C.InstrPos(cmp))
	// operands: the stored authenticator (whole) and Sum of an HMAC
	var macSum *ssa.Call
	var stored ssa.Value
	for _, arg := range cmp.Call.Args {
		if c, ok := arg.(*ssa.Call); ok && c.Call.IsInvoke() && c.Call.Method.Name() == "Sum" {
			macSum = c
		} else {
			stored = arg
		}
	}
	if macSum == nil || stored == nil {
		R.Viol("P.checkSign", "checkSign|operands", "operands are the stored authenticator and mac.Sum(nil)", a.C.InstrPos(cmp), "operands: "+a.C.Term(cmp.Call.Args[0])+" , "+a.C.Term(cmp.Call.Args[1]))
		return
	}
	R.Check(a.C.Term(stored) == "dataMsg.authenticator", "P.checkSign", "checkSign|stored-operand", "compared value is the whole stored authenticator", a.C.InstrPos(cmp), "compared value is "+a.C.Term(stored))
	a.checkHMACStream("P.checkSign", "checkSign", fn, macSum, "(otrVersion).hashInstance", "$key", []string{"$header", "dataMsg.serializeUnsignedCache"})

	// polarity: every return that may report success passed "compare != 0"
	cmpT := a.C.Term(cmp)
	want := []string{"passed:(" + cmpT + " != 0)", "passed:(" + cmpT + " == 1)"}
	for _, b := range fn.Blocks {
		ret, ok := b.Instrs[len(b.Instrs)-1].(*ssa.Return)
		if !ok {
			continue
		}
		if a.F.provablyNonNil(ret.Results[0]) {
			continue
		}
		fs := a.F.LocalAt(ret)
		R.Check(fs.Has(want[0]) || fs.Has(want[1]), "P.checkSign", "checkSign|polarity", "a return that may report success is reached only when the comparison result is non-zero", a.C.InstrPos(ret),
			"success return reachable with comparison result 0 (facts: "+strings.Join(fs.List(), "; ")+")")
	}
	// the unsigned bytes are exactly the parsed prefix of the input
	if du := a.MustFn("(*dataMsg).deserializeUnsigned"); du != nil {
		fld := a.MustField("dataMsg", "serializeUnsignedCache")
		n := 0
		for _, st := range a.DirectStoresTo(fld) {
			if st.Parent() != du {
				continue
			}
			n++
			t := a.C.Term(st.Val)
			okT := strings.HasPrefix(t, "$msg[:(len($msg) - len(") && strings.HasSuffix(t, "))]")
			R.Check(okT, "V.unsigned-range", "deserializeUnsigned|cache", "MAC'd bytes = msg[:len(msg)-len(rest)] of the parsed input", a.C.InstrPos(st), "stored value is "+t)
		}
		if n == 0 {
			R.Viol("V.unsigned-range", "deserializeUnsigned|cache", "deserializeUnsigned records the exact unsigned bytes", a.C.Pos(du.Pos()), "no store to serializeUnsignedCache")
		}
	}
}

// checkHMACStream: sum is mac.Sum(nil); mac = hmac.New(hashCtor, key); Writes on mac in dominance order = want.
func (a *An) checkHMACStream(rule, key string, fn *ssa.Function, sum *ssa.Call, hashCtor, keyTerm string, want []string) {
	R := a.R
	mac := sum.Call.Value
	newCall, ok := mac.(*ssa.Call)
	if !ok || a.F.callName(newCall) != "crypto/hmac.New" {
		R.Viol(rule, key+"|hmac", "MAC is computed with crypto/hmac.New", a.C.InstrPos(sum), "MAC object is "+a.C.Term(mac))
		return
	}
	ctor := a.C.Term(newCall.Call.Args[0])
	R.Check(strings.Contains(ctor, hashCtor), rule, key+"|hash", "hash constructor is "+hashCtor, a.C.InstrPos(newCall), "constructor is "+ctor)
	R.Check(a.C.Term(newCall.Call.Args[1]) == keyTerm, rule, key+"|key", "MAC key is "+keyTerm, a.C.InstrPos(newCall), "key is "+a.C.Term(newCall.Call.Args[1]))
	var writes []*ssa.Call
	for _, ref := range *newCall.Referrers() {
		if c, ok := ref.(*ssa.Call); ok && c.Call.IsInvoke() && c.Call.Value == ssa.Value(newCall) && c.Call.Method.Name() == "Write" {
			writes = append(writes, c)
		}
	}
	// order by dominance
	for i := 0; i < len(writes); i++ {
		for j := i + 1; j < len(writes); j++ {
			if instrDominates(writes[j], writes[i]) {
				writes[i], writes[j] = writes[j], writes[i]
			}
		}
	}
	var got []string
	for i, w := range writes {
		got = append(got, a.C.Term(w.Call.Args[0]))
		if i > 0 && !instrDominates(writes[i-1], w) {
			R.Undec(rule, key+"|stream", "MAC input is a fixed sequence of writes", a.C.InstrPos(w), "writes are not totally ordered by dominance")
			return
		}
		if !instrDominates(w, sum) {
			R.Viol(rule, key+"|stream", "every write precedes Sum", a.C.InstrPos(w), "a write does not dominate Sum")
			return
		}
	}
	R.Check(strings.Join(got, " ‖ ") == strings.Join(want, " ‖ "), rule, key+"|stream", "MAC input is "+strings.Join(want, " ‖ "), a.C.InstrPos(sum), "MAC input is "+strings.Join(got, " ‖ "))
}

func instrDominates(x, y ssa.Instruction) bool {
	if x.Block() == y.Block() {
		return instrIndex(x) < instrIndex(y)
	}
	return x.Block().Dominates(y.Block())
}

// pickOurKeys / pickTheirKey: accepted ids are exactly current and current-1; zero rejected.
func (a *An) pickKeysTable() {
	type spec struct {
		fn, arg, cur, curKeyA, prevKeyA string
	}
	for _, s := range []spec{
		{"(*keyManagementContext).pickOurKeys", "$ourKeyID", "keyManagementContext.ourKeyID", "keyManagementContext.ourCurrentDHKeys.", "keyManagementContext.ourPreviousDHKeys."},
		{"(*keyManagementContext).pickTheirKey", "$theirKeyID", "keyManagementContext.theirKeyID", "keyManagementContext.theirCurrentDHPubKey", "keyManagementContext.theirPreviousDHPubKey"},
	} {
		fn := a.MustFn(s.fn)
		if fn == nil {
			continue
		}
		eqCur := "(" + s.arg + " == " + s.cur + ")"
		eqPrev := "(" + s.arg + " == (" + s.cur + " - 1))"
		argZero := "(" + s.arg + " == 0)"
		curZero := "(" + s.cur + " == 0)"
		cases := []struct {
			name   string
			assume map[string]bool
			accept bool
			keys   string
		}{
			{"id=0", map[string]bool{argZero: true}, false, ""},
			{"current=0", map[string]bool{argZero: false, curZero: true}, false, ""},
			{"id=current", map[string]bool{argZero: false, curZero: false, eqCur: true}, true, s.curKeyA},
			{"id=current-1", map[string]bool{argZero: false, curZero: false, eqCur: false, eqPrev: true}, true, s.prevKeyA},
			{"other", map[string]bool{argZero: false, curZero: false, eqCur: false, eqPrev: false}, false, ""},
		}
		for _, cs := range cases {
			oracle := func(p *Path, cond ssa.Value) Tri {
				t := a.C.condTerm(p, cond, true)
				if v, ok := cs.assume[t]; ok {
					return triOf(v)
				}
				return Unknown
			}
			paths, complete := a.C.Paths(fn, oracle, 256)
			key := s.fn + "|" + cs.name
			if !complete || len(paths) == 0 {
				a.R.Undec("P.key-id-table", key, "enumerate paths", a.C.Pos(fn.Pos()), "path enumeration incomplete")
				continue
			}
			ok := true
			detail := ""
			for _, p := range paths {
				if p.Ret == nil {
					continue
				}
				si := statusIndex(fn.Signature)
				tri := a.F.ErrTri(p, p.Ret.Results[si])
				if cs.accept {
					// may only fail for the documented "no previous key" reason; must return the right generation
					if tri == True {
						for i, rv := range p.Ret.Results {
							if i == si {
								continue
							}
							t := a.C.Term(p.Resolve(rv))
							if !strings.HasPrefix(t, cs.keys) {
								ok = false
								detail = "accepting path returns " + t + " instead of " + cs.keys + "*"
							}
						}
					}
				} else if tri != False {
					ok = false
					detail = "a path accepts (or may accept) the id; decisions: " + decisionsStr(p)
				}
			}
			if cs.accept {
				// at least one accepting path must exist
				any := false
				for _, p := range paths {
					if p.Ret != nil && a.F.ErrTri(p, p.Ret.Results[statusIndex(fn.Signature)]) == True {
						any = true
					}
				}
				if !any {
					ok = false
					detail = "no accepting path for a valid id"
				}
			}
			a.R.Check(ok, "P.key-id-table", key, "key lookup outcome for case "+cs.name+" (accept="+boolStr(cs.accept)+")", a.C.Pos(fn.Pos()), detail)
		}
	}
	a.R.Floor("P.key-id-table", 10)
}

func boolStr(b bool) string {
	if b {
		return "true"
	}
	return "false"
}

func decisionsStr(p *Path) string {
	var s []string
	for _, d := range p.Decisions {
		s = append(s, d.Term)
	}
	return strings.Join(s, " ∧ ")
}

// counterStoreGate: the peer's counter is stored only behind the authenticity gate (D02 when violated).
func (a *An) counterStoreGate(rule string, auth []string) {
	if fld := a.MustField("keyPairCounter", "theirCounter"); fld != nil {
		cnt := map[string]int{}
		for _, st := range a.DirectStoresTo(fld) {
			fn := a.C.Name(st.Parent())
			if strings.HasSuffix(fn, ".wipe") {
				continue
			}
			a.Gate(rule, ordinalKey(fn+"|store theirCounter", cnt), st, "store of the peer's counter", auth...)
		}
		a.R.Floor(rule, len(auth))
	}
}
