package main

import (
	"fmt"

	"golang.org/x/tools/go/ssa"
)

func dbgCallees(c *Ctx, fn string) {
	f, _ := c.Fn(fn)
	for _, b := range f.Blocks {
		for _, in := range b.Instrs {
			if call, ok := in.(ssa.CallInstruction); ok {
				fmt.Printf("%s: %s ->", c.InstrPos(in), in.String())
				for _, g := range c.Callees(call) {
					fmt.Printf(" %s[%s]", c.Name(c.unwrap(g)), g.Synthetic)
				}
				fmt.Println()
			}
		}
	}
}

func dbgArith(c *Ctx) {
	for _, f := range c.FuncSeq {
		if c.arithOld(f) {
			println("arith:", c.Name(f))
		}
	}
}
